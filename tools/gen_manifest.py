#!/venv/bin/python
"""Regenerates MANIFEST.json from the rule modules' META (run after changing a rule's explanation)."""
import importlib, json, os, sys
V = os.path.dirname(os.path.dirname(os.path.abspath(__file__)))
sys.path.insert(0, V)
props = [json.loads(l) for l in open(os.path.join(V, "properties.jsonl"))]
TECH = {
 "C01": "static analysis: provenance (reaching definitions) along the call pipeline + CFG dominance/post-dominance + event-count path exploration",
 "C02": "static analysis: type-narrowing / may-raise abstract interpretation over a CFG with exception edges (interprocedural summaries) + shape interpretation of envelope builders",
 "C03": "static analysis: provenance of the id at every response constructor + per-iteration event-count exploration of the batch loop + dominance",
 "C04": "static analysis: fact-consistent path exploration of the dispatcher CFG (dispatch counter, notification valuation) + abstract evaluation of the predicate",
 "C05": "static analysis: structural classification of Fault sites vs a code table + reachability/dominance + abstract evaluation of validate_request over request shapes",
 "C06": "static analysis: may-raise abstract interpretation of check_for_errors restricted to the error region + abstract evaluation over reply shapes + dominance of the check over consumers",
 "C07": "static analysis: provenance at recursive call sites + abstract evaluation of slot-name mangling + sibling agreement of Config.__init__/copy",
 "C08": "static analysis: who-may-call + dominance of the gate and of the name guards + regex-AST analysis of the validation pattern",
 "C09": "static analysis: event-count exploration of the worker CFG incl. exception edges + provenance + lockset of every pool-field access",
 "C10": "static analysis: lockset / snapshot rule (reads, writers, blocking calls under the pool lock) + normalised comparisons + abstract evaluation of constructor and start()",
 "C11": "static analysis: dominance over join()'s exits + ordering of the stop protocol + imported worker pairing/accounting rules",
 "C12": "static analysis: typestate of shutdown at the call site + post-dominance in server_close + call-graph closure store scan (no shared serving state)",
 "C13": "static analysis: ownership/provenance of every Config store + sibling agreement __init__/copy + call-graph closure store scan + provenance of config= at response constructors",
 "C14": "static analysis: shape interpretation (case-splitting abstract evaluation) of Payload builders and dump() vs a key-set table + provenance of forwarded arguments",
 "C15": "static analysis: mutation scan with receiver provenance + reachability avoiding the restoring store + classification of return expressions + constant folding of type tables",
 "C16": "static analysis: publication-order dominance + lockset of the registration fields + event-count exploration + may-raise analysis of the notifier",
 "C17": "static analysis: same-reaching-definition of length and written bytes + loop scans + abstract evaluation of the proxy constructor over URL shapes",
 "C18": "static analysis: reachability avoiding the pop (exception edge at the yield) + provenance of merge keys + abstract evaluation of the header merge over stacks",
 "C19": "static analysis: handler structure/dominance in single_request + normalised status test + provenance of returned values + cross-call state store table",
 "C20": "static analysis: dominance of the handler lookup + provenance of forwarded customisation arguments + term-shape of the ignore list / known_types",
}
from rules import closed_world
checks = []
for p in props:
    pid = p["id"]
    m = importlib.import_module("rules.%s" % pid.lower())
    meta = m.META
    text = ("Necessary structural clauses of the property are decided on /repo's current sources; the behaviour as a whole is not. "
            + meta["explanation"] + closed_world.EXPLANATION + " NOT decided: " + meta["does_not_decide"])
    checks.append({
        "property_id": pid,
        "quick_cmd": "/venv/bin/python bin/vcheck %s --tier quick" % pid,
        "thorough_cmd": "/venv/bin/python bin/vcheck %s --tier thorough" % pid,
        "evidence_file": "evidence/%s.json" % pid,
        "replay_cmd_template": "/venv/bin/python bin/vcheck --replay {path}",
        "engine": "vcheck",
        "level_claimed": {"category": "other", "text": text, "design_ref": "DESIGN.md section 6, %s" % pid},
        "level_note": "Trusted base: CPython's ast parser; the spec tables in vlib/spec.py; " + "; ".join(meta.get("assumptions", []) or ["no further assumption"]),
        "technique": TECH[pid],
    })
man = {
 "version": 1,
 "setup_cmd": "true",
 "hooks": {
  "guard": "JSONRPCLIB_VERIF",
  "enable": "none needed: every check is a static analysis of /repo's working tree (pure ast, nothing under /repo is imported or executed); no hook exists in the source",
  "baseline_off_cmd": "cd /repo && /venv/bin/python -m pytest -ra -q -p no:cacheprovider --timeout=900 --continue-on-collection-errors",
  "source_commits": [],
  "add_only": True
 },
 "engines": [
  {"name": "vcheck", "path": "bin/vcheck", "serves_properties": [p["id"] for p in props],
   "kind_free_text": "repository-specific static analyser: source model (E0), statement CFG with exception edges (E1), reaching definitions / fact-consistent state exploration (E2), provenance terms (E3), type-narrowing may-raise abstract interpreter (E4), locksets and blocking calls (E5), spec tables (E6), case-splitting shape interpreter (E7); rules per property under rules/"}
 ],
 "checks": checks,
 "not_applicable": [],
 "notes": "Every property is claimed at clause level only (level 'other'): see each check's level_claimed.text for the decided / not decided split and DESIGN.md section 7 for the clause-level not-applicables. Known findings (genuine defects recorded, not repaired) are in known_findings.json; repaired defects are the 'fix:' commits of /repo, listed there as 'fixed'."
}
json.dump(man, open(os.path.join(V, "MANIFEST.json"), "w"), indent=1)
print("checks:", len(checks))
