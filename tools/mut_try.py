#!/venv/bin/python
"""Development aid: run checks on one or more mutants of /tmp/mut/muts.json:  tools/mut_try.py 'threadpool#58,threadpool#59' [Cxx ...]"""
import sys, os, json
VERIF = os.path.dirname(os.path.dirname(os.path.abspath(__file__)))
sys.path.insert(0, VERIF); sys.path.insert(0, os.path.join(VERIF, "tools"))
import mutation_sweep as ms
muts = dict((m["id"], m) for m in json.load(open(os.environ.get("MUTS", "/tmp/mut/muts.json"))))
ids = sys.argv[1].split(",")
props = sys.argv[2:]
for i in ids:
    m = muts[i]
    r = ms._check_one(m)
    det = [d for d in r[1] if not props or d.split(":")[0] in props]
    print("%-26s %-70s det=%s err=%s" % (i, m["desc"][:70], ",".join(det) or "-", ",".join(r[2]) or "-"))
