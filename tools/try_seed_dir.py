#!/venv/bin/python
"""usage: try_seed_dir.py /tmp/seed2  -> for every Cxx/mN/patch.diff print which checks report it (in-memory)"""
import sys, os, json, glob
V = os.path.dirname(os.path.dirname(os.path.abspath(__file__)))
sys.path.insert(0, V)
from vlib import determinism
determinism.ensure()
from multiprocessing import Pool
from vlib.model import read_sources
from selftest import runner
src = read_sources(os.environ.get("REPO_ROOT", "/repo"))
props = ["C%02d" % i for i in range(1, 21)]
root = sys.argv[1]
pat = sys.argv[2] if len(sys.argv) > 2 else "C*/m*"
benign = "--benign" in sys.argv
seeds = sorted(glob.glob(os.path.join(root, pat, "patch.diff")))
jobs = []
for s in seeds:
    sid = "/".join(s.split("/")[-3:-1])
    for p in props:
        jobs.append((p, sid, "fire", ("patch", open(s).read()), src))
with Pool(16) as pool:
    res = pool.map(runner._run_one, jobs)
mat = {}
for (job, r) in zip(jobs, res):
    mat.setdefault(job[1], {})[job[0]] = r
for sid in sorted(mat):
    det = [p for p in props if mat[sid][p][2] == "reported"]
    err = [p for p in props if mat[sid][p][2] == "analysis-error"]
    skip = [p for p in props if mat[sid][p][2] == "skipped"]
    own = sid.split("/")[0]
    flag = "" if own in det else ("  <-- not by own check" if det else "  <== MISSED")
    if benign:
        flag = "  <== FALSE ALARM: " + "; ".join("%s %s" % (p, mat[sid][p][3][:110]) for p in det) if det else ""
        if err:
            flag += "  [exit 2: " + "; ".join("%s %s" % (p, mat[sid][p][3][:90]) for p in err) + "]"
    print("%-8s detected_by=%-28s%s%s%s" % (sid, ",".join(det) or "-", (" err=" + ",".join(err)) if err else "", " SKIPPED" if skip else "", flag))
