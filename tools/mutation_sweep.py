#!/venv/bin/python
"""Development aid (not a check): systematic single-edit mutants of the package, run through all 20 checks in memory.

    tools/mutation_sweep.py gen  OUT.json            # enumerate mutants (module, description, new source)
    tools/mutation_sweep.py check OUT.json RES.json  # run the 20 checks on every mutant (in memory, 16 processes)

Mutants that no check reports are then run against the repository's own test suite (tools/mutation_survivors.sh) to find
the ones that also survive the tests: those are the candidates worth a look (equivalent mutant, outside every property,
or a gap of the checks)."""
import ast
import copy
import json
import os
import sys
from multiprocessing import Pool

VERIF = os.path.dirname(os.path.dirname(os.path.abspath(__file__)))
sys.path.insert(0, VERIF)
sys.path.insert(0, os.path.join(VERIF, "bin"))
sys.dont_write_bytecode = True

from selftest.mutants import MODULES, sites, apply, mutate, sites2, mutate2, sites3, mutate3, sites4, mutate4      # noqa: E402


def gen(out_path, repo="/repo"):
    from vlib.model import read_sources
    sources = read_sources(repo)
    muts = []
    for mod in MODULES:
        ss = sites(ast.parse(sources[mod]))
        for i, s_ in enumerate(ss):
            new_src = mutate(sources[mod], index=i)
            if new_src is None:
                continue
            muts.append({"id": "%s#%d" % (mod, i), "module": mod, "kind": s_.kind, "line": getattr(s_.node, "lineno", 0), "desc": s_.desc, "source": new_src})
    if os.environ.get("SWEEP_FAMILY") == "2":
        muts = []
        for mod in MODULES:
            ss = sites2(ast.parse(sources[mod]))
            for i, s_ in enumerate(ss):
                new_src = mutate2(sources[mod], index=i)
                if new_src is None:
                    continue
                muts.append({"id": "%s@%d" % (mod, i), "module": mod, "kind": s_.kind, "line": 0, "desc": s_.desc, "source": new_src})
    if os.environ.get("SWEEP_FAMILY") == "3":
        muts = []
        for mod in MODULES:
            ss = sites3(ast.parse(sources[mod]))
            for i, s_ in enumerate(ss):
                new_src = mutate3(sources[mod], index=i)
                if new_src is None:
                    continue
                muts.append({"id": "%s~%d" % (mod, i), "module": mod, "kind": s_.kind, "line": 0, "desc": s_.desc, "source": new_src})
    if os.environ.get("SWEEP_FAMILY") == "4":
        muts = []
        for mod in MODULES:
            ss = sites4(ast.parse(sources[mod]))
            for i, s_ in enumerate(ss):
                new_src = mutate4(sources[mod], index=i)
                if new_src is None:
                    continue
                muts.append({"id": "%s^%d" % (mod, i), "module": mod, "kind": s_.kind, "line": 0, "desc": s_.desc, "source": new_src})
    json.dump(muts, open(out_path, "w"))
    print("mutants:", len(muts))


_SOURCES = None


def _check_one(m):
    global _SOURCES
    import importlib
    from vlib.model import Program, AnalysisError, read_sources
    from vlib import report
    if _SOURCES is None:
        _SOURCES = read_sources("/repo")
    src = dict(_SOURCES)
    src[m["module"]] = m["source"]
    detected, errors = [], []
    try:
        prog_ok = True
        Program(src)
    except Exception as ex:
        return (m["id"], ["<program>"], ["%s" % ex])
    for i in range(1, 21):
        prop = "C%02d" % i
        try:
            rm = importlib.import_module("rules.%s" % prop.lower())
            ck = report.Check(Program(src), prop, "quick")
            err = None
            try:
                report.run_rules(ck, rm)
                if ck.analysis_error is not None:
                    err = str(ck.analysis_error)
            except AnalysisError as ex:
                err = str(ex)
            viol, known, _stale = report.split_known(prop, ck.findings)
            if viol:
                detected.append("%s:%s" % (prop, viol[0].rule))
            elif err:
                errors.append(prop)
        except Exception as ex:
            errors.append(prop + "!")
    return (m["id"], detected, errors)


def check(in_path, out_path):
    muts = json.load(open(in_path))
    with Pool(16) as pool:
        res = pool.map(_check_one, muts, chunksize=4)
    by = dict((r[0], r) for r in res)
    out = []
    for m in muts:
        r = by[m["id"]]
        out.append({"id": m["id"], "module": m["module"], "kind": m["kind"], "line": m["line"], "desc": m["desc"], "detected": r[1], "errors": r[2]})
    json.dump(out, open(out_path, "w"), indent=0)
    det = sum(1 for o in out if o["detected"])
    err = sum(1 for o in out if not o["detected"] and o["errors"])
    print("mutants %d: reported by a check %d, only analysis errors %d, silent %d" % (len(out), det, err, len(out) - det - err))


if __name__ == "__main__":
    if sys.argv[1] == "gen":
        gen(sys.argv[2])
    elif sys.argv[1] == "check":
        check(sys.argv[2], sys.argv[3])
