#!/venv/bin/python
"""Development aid (not a check): systematic single-edit mutants of the package, run through all 20 checks in memory.

    tools/mutation_sweep.py gen  OUT.json            # enumerate mutants (module, description, new source)
    tools/mutation_sweep.py check OUT.json RES.json  # run the 20 checks on every mutant (in memory, 16 processes)

Mutants that no check reports are then run against the repository's own test suite (tools/mutation_survivors.sh) to find
the ones that also survive the tests: those are the candidates worth a look (equivalent mutant, outside every property,
or a gap of the checks)."""
import ast
import copy
import json
import os
import sys
from multiprocessing import Pool

VERIF = os.path.dirname(os.path.dirname(os.path.abspath(__file__)))
sys.path.insert(0, VERIF)
sys.path.insert(0, os.path.join(VERIF, "bin"))
sys.dont_write_bytecode = True

MODULES = ["SimpleJSONRPCServer", "jsonrpc", "jsonclass", "threadpool", "config", "utils", "history", "jsonlib"]
CMP = {ast.Lt: ast.LtE, ast.LtE: ast.Lt, ast.Gt: ast.GtE, ast.GtE: ast.Gt, ast.Eq: ast.NotEq, ast.NotEq: ast.Eq,
       ast.Is: ast.IsNot, ast.IsNot: ast.Is, ast.In: ast.NotIn, ast.NotIn: ast.In}


def _py3_only(tree):
    return tree


class Site(object):
    def __init__(self, kind, node, desc):
        self.kind, self.node, self.desc = kind, node, desc


def sites(tree):
    """mutation sites in function bodies (docstrings, logging calls and module-level code excluded)"""
    out = []
    for fn in [n for n in ast.walk(tree) if isinstance(n, ast.FunctionDef)]:
        for n in ast.walk(fn):
            if isinstance(n, ast.Compare) and len(n.ops) == 1 and type(n.ops[0]) in CMP:
                out.append(Site("cmp", n, "%s: comparison operator of `%s` swapped" % (fn.name, ast.unparse(n)[:60])))
            elif isinstance(n, ast.BoolOp):
                out.append(Site("bool", n, "%s: and/or swapped in `%s`" % (fn.name, ast.unparse(n)[:60])))
            elif isinstance(n, (ast.If, ast.While)) and not (isinstance(n.test, ast.Constant)):
                out.append(Site("neg", n, "%s: condition `%s` negated" % (fn.name, ast.unparse(n.test)[:60])))
            elif isinstance(n, ast.Constant) and isinstance(n.value, bool):
                out.append(Site("const", n, "%s: constant %r flipped" % (fn.name, n.value)))
            elif isinstance(n, ast.Constant) and isinstance(n.value, int) and not isinstance(n.value, bool):
                out.append(Site("const+", n, "%s: constant %r + 1" % (fn.name, n.value)))
                out.append(Site("const-", n, "%s: constant %r - 1" % (fn.name, n.value)))
            elif isinstance(n, ast.Constant) and isinstance(n.value, float):
                out.append(Site("const+", n, "%s: constant %r + 1" % (fn.name, n.value)))
            elif isinstance(n, ast.Return) and n.value is not None and not (isinstance(n.value, ast.Constant) and n.value.value is None):
                out.append(Site("retnone", n, "%s: `%s` returns None instead" % (fn.name, ast.unparse(n)[:60])))
            elif isinstance(n, ast.Call) and len(n.args) >= 2 and not any(isinstance(a, ast.Starred) for a in n.args[:2]):
                out.append(Site("swapargs", n, "%s: first two arguments of `%s` swapped" % (fn.name, ast.unparse(n)[:60])))
            elif isinstance(n, (ast.Break, ast.Continue)):
                out.append(Site("brk", n, "%s: break <-> continue" % fn.name))
        # statement deletions
        for blk_owner in ast.walk(fn):
            for field in ("body", "orelse", "finalbody"):
                blk = getattr(blk_owner, field, None)
                if not isinstance(blk, list):
                    continue
                for st in blk:
                    if isinstance(st, ast.Expr) and isinstance(st.value, ast.Constant):
                        continue
                    if isinstance(st, ast.Expr) and isinstance(st.value, ast.Call):
                        txt = ast.unparse(st.value.func)
                        if txt.split(".")[-1] in ("debug", "info", "warning", "error", "exception", "critical", "log"):
                            continue
                        out.append(Site("delstmt", st, "%s: statement `%s` deleted" % (fn.name, ast.unparse(st)[:60])))
                    elif isinstance(st, (ast.Assign, ast.AugAssign)) and len(blk) > 1:
                        out.append(Site("delstmt", st, "%s: statement `%s` deleted" % (fn.name, ast.unparse(st)[:60])))
                    elif isinstance(st, ast.Raise) and st.exc is not None:
                        out.append(Site("delstmt", st, "%s: `%s` deleted" % (fn.name, ast.unparse(st)[:60])))
    return out


def apply(tree, site):
    """mutate in place (tree is a private deep copy carrying the same node identities through a parallel walk)"""
    n = site.node
    k = site.kind
    if k == "cmp":
        n.ops = [CMP[type(n.ops[0])]()]
    elif k == "bool":
        n.op = ast.Or() if isinstance(n.op, ast.And) else ast.And()
    elif k == "neg":
        n.test = ast.UnaryOp(op=ast.Not(), operand=n.test)
    elif k == "const":
        n.value = not n.value
    elif k == "const+":
        n.value = n.value + 1
    elif k == "const-":
        n.value = n.value - 1
    elif k == "retnone":
        n.value = ast.Constant(None)
    elif k == "swapargs":
        n.args[0], n.args[1] = n.args[1], n.args[0]
    elif k == "brk":
        return ast.Continue() if isinstance(n, ast.Break) else ast.Break()
    return None


def gen(out_path, repo="/repo"):
    from vlib.model import read_sources
    sources = read_sources(repo)
    muts = []
    for mod in MODULES:
        base = ast.parse(sources[mod])
        nsites = len(sites(base))
        for i in range(nsites):
            tree = ast.parse(sources[mod])          # fresh tree, same site order
            s = sites(tree)[i]
            if s.kind in ("delstmt", "brk"):
                done = False
                for owner in ast.walk(tree):
                    for field in ("body", "orelse", "finalbody"):
                        blk = getattr(owner, field, None)
                        if isinstance(blk, list) and any(x is s.node for x in blk):
                            j = [x is s.node for x in blk].index(True)
                            if s.kind == "delstmt":
                                blk[j] = ast.copy_location(ast.Pass(), s.node)
                            else:
                                blk[j] = ast.copy_location(ast.Continue() if isinstance(s.node, ast.Break) else ast.Break(), s.node)
                            done = True
                            break
                    if done:
                        break
            else:
                apply(tree, s)
            ast.fix_missing_locations(tree)
            try:
                new_src = ast.unparse(tree)
                compile(new_src, mod, "exec")
            except Exception:
                continue
            muts.append({"id": "%s#%d" % (mod, i), "module": mod, "kind": s.kind, "line": getattr(s.node, "lineno", 0), "desc": s.desc, "source": new_src})
    json.dump(muts, open(out_path, "w"))
    print("mutants:", len(muts))


_SOURCES = None


def _check_one(m):
    global _SOURCES
    import importlib
    from vlib.model import Program, AnalysisError, read_sources
    from vlib import report
    if _SOURCES is None:
        _SOURCES = read_sources("/repo")
    src = dict(_SOURCES)
    src[m["module"]] = m["source"]
    detected, errors = [], []
    try:
        prog_ok = True
        Program(src)
    except Exception as ex:
        return (m["id"], ["<program>"], ["%s" % ex])
    for i in range(1, 21):
        prop = "C%02d" % i
        try:
            rm = importlib.import_module("rules.%s" % prop.lower())
            ck = report.Check(Program(src), prop, "quick")
            err = None
            try:
                rm.check(ck)
                ck.finish()
            except AnalysisError as ex:
                err = str(ex)
            viol, known, _stale = report.split_known(prop, ck.findings)
            if viol:
                detected.append("%s:%s" % (prop, viol[0].rule))
            elif err:
                errors.append(prop)
        except Exception as ex:
            errors.append(prop + "!")
    return (m["id"], detected, errors)


def check(in_path, out_path):
    muts = json.load(open(in_path))
    with Pool(16) as pool:
        res = pool.map(_check_one, muts, chunksize=4)
    by = dict((r[0], r) for r in res)
    out = []
    for m in muts:
        r = by[m["id"]]
        out.append({"id": m["id"], "module": m["module"], "kind": m["kind"], "line": m["line"], "desc": m["desc"], "detected": r[1], "errors": r[2]})
    json.dump(out, open(out_path, "w"), indent=0)
    det = sum(1 for o in out if o["detected"])
    err = sum(1 for o in out if not o["detected"] and o["errors"])
    print("mutants %d: reported by a check %d, only analysis errors %d, silent %d" % (len(out), det, err, len(out) - det - err))


if __name__ == "__main__":
    if sys.argv[1] == "gen":
        gen(sys.argv[2])
    elif sys.argv[1] == "check":
        check(sys.argv[2], sys.argv[3])
