#!/venv/bin/python
"""Development aid: run the repository's test suite on the mutants no check reported (tools/mutation_sweep.py), in scratch
copies under /tmp, and list the ones whose suite result equals the baseline (62 passed, test_cgi failing): survivors.
    tools/mutation_survivors.py MUTS.json RES.json OUT.json [jobs]"""
import json, os, shutil, subprocess, sys, re
from multiprocessing import Pool

def run_one(args):
    m, k = args
    w = "/tmp/mut/w/%s" % m["id"].replace("#", "_")
    shutil.rmtree(w, ignore_errors=True)
    os.makedirs(w)
    shutil.copytree("/repo/jsonrpclib", w + "/jsonrpclib")
    shutil.copytree("/repo/tests", w + "/tests")
    for f in ("setup.cfg", "pyproject.toml"):
        if os.path.exists("/repo/" + f):
            shutil.copy("/repo/" + f, w + "/" + f)
    open("%s/jsonrpclib/%s.py" % (w, m["module"]), "w").write(m["source"])
    env = dict(os.environ, PYTHONPATH=w, PYTHONDONTWRITEBYTECODE="1")
    try:
        p = subprocess.run(["/venv/bin/python", "-m", "pytest", "-q", "-p", "no:cacheprovider", "--timeout=120", "-x", "--deselect",
                            "tests/test_cgi.py::CGIHandlerTests::test_server"], cwd=w, env=env, capture_output=True, text=True, timeout=600)
        tail = (p.stdout.strip().splitlines() or [""])[-1]
    except subprocess.TimeoutExpired:
        tail = "TIMEOUT"
    shutil.rmtree(w, ignore_errors=True)
    return (m["id"], tail)

if __name__ == "__main__":
    muts = dict((m["id"], m) for m in json.load(open(sys.argv[1])))
    res = json.load(open(sys.argv[2]))
    todo = [muts[r["id"]] for r in res if not r["detected"]]
    jobs = int(sys.argv[4]) if len(sys.argv) > 4 else 8
    print("to run:", len(todo))
    with Pool(jobs) as pool:
        out = pool.map(run_one, [(m, i) for i, m in enumerate(todo)], chunksize=1)
    json.dump(out, open(sys.argv[3], "w"), indent=0)
    surv = [o for o in out if re.match(r"^62 passed", o[1])]
    print("survivors:", len(surv), "of", len(out))
