#!/venv/bin/python
"""Development aid: print the normalised form of one function after applying a patch in memory.
    tools/show_norm.py <patch.diff|-> <module> <qualname-substring>"""
import sys, os, ast
V = os.path.dirname(os.path.dirname(os.path.abspath(__file__)))
sys.path.insert(0, V)
from vlib.model import read_sources, Program
from selftest import runner
src = read_sources(os.environ.get("REPO_ROOT", "/repo"))
if sys.argv[1] != "-":
    src = runner.apply_unified_diff(src, open(sys.argv[1]).read())
prog = Program(src)
mod = prog.modules[sys.argv[2]]
tree = mod.tree if hasattr(mod, "tree") else mod
for n in ast.walk(tree):
    if isinstance(n, (ast.FunctionDef, ast.ClassDef)) and (len(sys.argv) < 4 or sys.argv[3] in n.name):
        if isinstance(n, ast.ClassDef) and len(sys.argv) >= 4 and sys.argv[3] != n.name:
            continue
        print(ast.unparse(n))
        print()
