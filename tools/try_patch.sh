#!/bin/bash
# usage: tools/try_patch.sh <patch.diff | rev:<commit>> <Cxx> [<Cyy> ...]
# Applies a patch (or reverts a commit) on a scratch copy of /repo/jsonrpclib and runs the quick checks on it.
set -e
P="$1"; shift
D=$(mktemp -d /tmp/vtry.XXXXXX)
mkdir -p $D/jsonrpclib && cp /repo/jsonrpclib/*.py $D/jsonrpclib/
if [[ "$P" == rev:* ]]; then
  git -C /repo show "${P#rev:}" -- jsonrpclib | (cd $D && patch -R -p1 -s)
else
  (cd $D && patch -p1 -s < "$P")
fi
rc=0
for c in "$@"; do
  /venv/bin/python /verif/bin/vcheck $c --repo $D --no-evidence | grep -v "^VIOLATION" || true
done
rm -rf $D
