#!/venv/bin/python
"""Rewrites the seeded-change table of DESIGN.md (between the SEEDTABLE markers) from seeded/*/meta.json."""
import json, os, re
V = os.path.dirname(os.path.dirname(os.path.abspath(__file__)))
rows = []
for d in sorted(os.listdir(os.path.join(V, "seeded"))):
    m = json.load(open(os.path.join(V, "seeded", d, "meta.json")))
    diff = open(os.path.join(V, "seeded", d, "patch.diff")).read()
    files = sorted(set(re.findall(r'^\+\+\+ b/jsonrpclib/(\w+)\.py', diff, flags=re.M)))
    funcs = []
    for h in re.findall(r'^@@ .*?@@ (.*)$', diff, flags=re.M):
        mm = re.search(r'(def|class) (\w+)', h)
        if mm and mm.group(2) not in funcs:
            funcs.append(mm.group(2))
    rep = m.get('reports', {})
    first = (rep.get(m['breaks_property']) or (list(rep.values())[0] if rep else '')).split(' ')[0]
    rows.append("| %s | %s | %s | %s | %s |" % (d, m['breaks_property'], ",".join(files) + ": " + ",".join(funcs[:3]), ", ".join(m['detected_by']), first))
p = os.path.join(V, "DESIGN.md")
s = open(p).read()
a, b = "<!-- SEEDTABLE-BEGIN -->", "<!-- SEEDTABLE-END -->"
head = "| seeded change | breaks | touches | reported by | first rule |\n|---|---|---|---|---|\n"
s = s[:s.index(a) + len(a)] + "\n" + head + "\n".join(rows) + "\n" + s[s.index(b):]
open(p, "w").write(s)
print(len(rows), "rows")
