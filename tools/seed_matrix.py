#!/venv/bin/python
"""Which check reports which seeded change: applies every seeded/<id>/patch.diff in memory and runs all checks.
With --write, stores the list in each meta.json ('detected_by')."""
import sys, os, json, importlib
V = os.path.dirname(os.path.dirname(os.path.abspath(__file__)))
sys.path.insert(0, V)
from vlib import determinism
determinism.ensure()
from multiprocessing import Pool
from vlib.model import read_sources
from selftest import runner
src = read_sources("/repo")
props = [json.loads(l)["id"] for l in open(os.path.join(V, "properties.jsonl"))]
root = sys.argv[1] if len(sys.argv) > 1 and not sys.argv[1].startswith("--") else os.path.join(V, "seeded")
seeds = sorted(d for d in os.listdir(root) if os.path.exists(os.path.join(root, d, "patch.diff")))
jobs = []
for s in seeds:
    diff = open(os.path.join(root, s, "patch.diff")).read()
    for p in props:
        jobs.append((p, s, "fire", ("patch", diff), src))
with Pool(16) as pool:
    res = pool.map(runner._run_one, jobs)
mat = {}
for (job, r) in zip(jobs, res):
    mat.setdefault(job[1], {})[job[0]] = r
for s in seeds:
    det = [p for p in props if mat[s][p][2] == "reported"]
    err = [p for p in props if mat[s][p][2] == "analysis-error"]
    skip = [p for p in props if mat[s][p][2] == "skipped"]
    print("%-12s detected_by=%s%s%s" % (s, ",".join(det) or "-", (" analysis-error=" + ",".join(err)) if err else "", " SKIPPED" if skip else ""))
    if "--write" in sys.argv:
        mp = os.path.join(root, s, "meta.json")
        meta = json.load(open(mp))
        meta["detected_by"] = det
        meta["reports"] = dict((p, mat[s][p][3]) for p in det)
        json.dump(meta, open(mp, "w"), indent=1)
