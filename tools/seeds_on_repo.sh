#!/bin/bash
# Final confirmation on /repo itself: for every seeded change apply it (git apply), run the quick commands of the
# checks listed in its meta.json, undo it straight afterwards (git checkout -- .).  Never commits anything in /repo.
cd /verif
trap 'git -C /repo checkout -- . 2>/dev/null' EXIT
ok=0; bad=0
for d in seeded/*/; do
  id=$(basename $d)
  props=$(/venv/bin/python -c "import json;print(' '.join(json.load(open('$d/meta.json'))['detected_by']))")
  git -C /repo checkout -- . ; 
  if ! git -C /repo apply $PWD/$d/patch.diff 2>/dev/null; then echo "$id: patch does not apply"; bad=$((bad+1)); continue; fi
  res=""
  for p in $props; do
    out=$(/venv/bin/python bin/vcheck $p --tier quick --no-evidence 2>&1); rc=$?
    res="$res $p:rc=$rc"
    if [ $rc -ne 1 ]; then bad=$((bad+1)); echo "$id: $p did NOT report (rc=$rc)"; fi
  done
  git -C /repo checkout -- .
  echo "$id:$res"; ok=$((ok+1))
done
git -C /repo status --short | head -3
echo "seeds run: $ok, problems: $bad"
