#!/venv/bin/python
"""Run the self-test variants of every property and print the outcome matrix (development aid)."""
import sys, os, json
V = os.path.dirname(os.path.dirname(os.path.abspath(__file__)))
sys.path.insert(0, V)
from vlib import determinism
determinism.ensure()
from multiprocessing import Pool
from vlib.model import read_sources
from selftest import runner
src = read_sources("/repo")
props = [json.loads(l)["id"] for l in open(os.path.join(V, "properties.jsonl"))]
only = sys.argv[1:] or props
jobs = []
for p in only:
    for (vid, kind, payload) in runner.load_variants(p):
        jobs.append((p, vid, kind, payload, src))
with Pool(16) as pool:
    res = pool.map(runner._run_one, jobs)
bad = 0
for (job, r) in zip(jobs, res):
    p = job[0]
    vid, kind, outcome, detail = r
    good = (kind == "fire" and outcome == "reported") or (kind == "silent" and outcome == "silent")
    if outcome == "skipped" or not good:
        bad += 0 if outcome == "skipped" else 1
        print("%-4s %-45s %-6s %-15s %s" % (p, vid, kind, outcome, detail[:150]))
print("variants run: %d, wrong: %d" % (len(jobs), bad))
