"""Thorough tier: checker self-test (both ways) on in-memory variants of /repo's current sources, plus the
trusted-facts audit of the installed stdlib sources.  Nothing is written to disk; no scratch copies.

Variants
  * seeded/<id>/patch.diff  -- independently written breaking changes and the reverse patches of the repaired
    defects; meta.json lists the properties whose check must report them ("detected_by");
  * selftest/variants.py    -- text-level edits: more breaking changes (one rule instance each) and *silent*
    variants (behaviour-preserving rewrites that must produce no report).
A variant whose anchor text is absent from the current sources is skipped and counted.
"""
import importlib
import json
import os
import re
import sys
from multiprocessing import Pool

VERIF = os.path.dirname(os.path.dirname(os.path.abspath(__file__)))


# ---------------------------------------------------------------------------------------------------
def apply_unified_diff(sources, diff_text):
    """Apply a git unified diff to {module: text}; returns new dict or None if a hunk does not apply."""
    out = dict(sources)
    files = re.split(r"^diff --git .*$", diff_text, flags=re.M)
    for chunk in files:
        m = re.search(r"^\+\+\+ b/jsonrpclib/(\w+)\.py$", chunk, flags=re.M)
        if not m:
            if re.search(r"^\+\+\+ ", chunk, flags=re.M):
                return None      # touches a file outside the package
            continue
        mod = m.group(1)
        if mod not in out:
            return None
        lines = out[mod].split("\n")
        hunks = re.split(r"^@@ .*?@@.*$", chunk, flags=re.M)[1:]
        heads = re.findall(r"^@@ -(\d+)(?:,\d+)? \+(\d+)(?:,\d+)? @@", chunk, flags=re.M)
        offset = 0
        for (old_start, _new_start), body in zip(heads, hunks):
            hl = body.split("\n")
            if hl and hl[0] == "":
                hl = hl[1:]
            while hl and hl[-1] == "":
                hl = hl[:-1]
            hl = [l for l in hl if not l.startswith("\\")]
            old = [l[1:] for l in hl if l[:1] in (" ", "-") or l == ""]
            new = [l[1:] for l in hl if l[:1] in (" ", "+") or l == ""]
            pos = int(old_start) - 1 + offset
            found = None
            for delta in sorted(range(-80, 81), key=abs):
                p = pos + delta
                if p >= 0 and lines[p:p + len(old)] == old:
                    found = p
                    break
            if found is None:
                return None
            lines[found:found + len(old)] = new
            offset += len(new) - len(old) + (found - pos)
        out[mod] = "\n".join(lines)
    return out


def load_variants(prop):
    """[(id, kind, kind-specific payload)] relevant to `prop`"""
    out = []
    sd = os.path.join(VERIF, "seeded")
    if os.path.isdir(sd):
        for name in sorted(os.listdir(sd)):
            mp = os.path.join(sd, name, "meta.json")
            pp = os.path.join(sd, name, "patch.diff")
            if os.path.exists(mp) and os.path.exists(pp):
                meta = json.load(open(mp))
                if prop in meta.get("detected_by", []):
                    out.append((name, "fire", ("patch", open(pp).read())))
    bd = os.path.join(VERIF, "seeded-benign")
    if os.path.isdir(bd):
        for name in sorted(os.listdir(bd)):
            mp = os.path.join(bd, name, "meta.json")
            pp = os.path.join(bd, name, "patch.diff")
            if os.path.exists(mp) and os.path.exists(pp):
                meta = json.load(open(mp))
                if prop not in meta.get("exit2_for", []):
                    out.append(("benign-" + name, "silent", ("patch", open(pp).read())))
    sf = os.path.join(VERIF, "selftest", "sweep_fire.json")
    if os.path.exists(sf):
        for m in json.load(open(sf))["mutants"]:
            if prop in m["detected_by"]:
                out.append((m["id"], "fire", ("mutant", m["module"], m["kind"], m["desc"], m["ordinal"])))
    ss_ = os.path.join(VERIF, "selftest", "sweep_silent.json")
    if os.path.exists(ss_):
        for m in json.load(open(ss_))["mutants"]:
            out.append((m["id"] + "-equivalent", "silent", ("mutant", m["module"], m["kind"], m["desc"], m["ordinal"])))
    from selftest import variants
    for v in variants.VARIANTS:
        if prop in v["props"]:
            if v.get("ast") is not None:
                out.append((v["id"], v["kind"], ("ast", v["module"], v["id"])))
            else:
                out.append((v["id"], v["kind"], ("edit", v["module"], v["old"], v["new"])))
    return out


def _run_one(args):
    prop, vid, kind, payload, sources = args
    sys.path.insert(0, VERIF)
    sys.path.insert(0, os.path.join(VERIF, "bin"))
    from vlib.model import Program, AnalysisError
    from vlib import report
    if payload[0] == "patch":
        src = apply_unified_diff(sources, payload[1])
        if src is None:
            return (vid, kind, "skipped", "patch does not apply to the current sources")
    elif payload[0] == "mutant":
        from selftest import mutants
        _t, mod, mkind, mdesc, mord = payload
        fam2 = ("unwith", "unfinally", "dropfinally", "swapstmt", "exc_narrow", "exc_widen", "exc_other", "dropkw", "droparg")
        fam3 = ("wrongvar", "wrongfield")
        fam4 = ("sibling", "builtin", "strtypo", "unnot", "ifexp", "augop", "binop", "excclass", "dropelse", "unslice", "default")
        new_src = (mutants.mutate4 if mkind in fam4 else mutants.mutate3 if mkind in fam3 else mutants.mutate2 if mkind in fam2 else
                   mutants.mutate)(sources[mod], kind=mkind, desc=mdesc, ordinal=mord)
        if new_src is None:
            return (vid, kind, "skipped", "mutation site absent in %s" % mod)
        src = dict(sources)
        src[mod] = new_src
    elif payload[0] == "ast":
        import ast as _ast
        from selftest import variants
        _t, mod, key = payload
        fn = [v["ast"] for v in variants.VARIANTS if v["id"] == key][0]
        try:
            tree = fn(_ast.parse(sources[mod]))
        except Exception as ex:
            tree = None
        if tree is None:
            return (vid, kind, "skipped", "AST anchor absent in %s" % mod)
        src = dict(sources)
        src[mod] = _ast.unparse(_ast.fix_missing_locations(tree))
    else:
        _t, mod, old, new = payload
        if sources.get(mod, "").count(old) != 1:
            return (vid, kind, "skipped", "anchor text absent (or not unique) in %s" % mod)
        src = dict(sources)
        src[mod] = src[mod].replace(old, new)
    try:
        rm = importlib.import_module("rules.%s" % prop.lower())
        ck = report.Check(Program(src), prop, "quick")
        err = None
        try:
            report.run_rules(ck, rm)
            if ck.analysis_error is not None:
                err = str(ck.analysis_error)
        except AnalysisError as ex:
            err = str(ex)
        viol, known, _stale = report.split_known(prop, ck.findings)
        if viol:
            return (vid, kind, "reported", "%s %s: %s" % (viol[0].rule, viol[0].construct[:80], viol[0].what[:80]))
        if err:
            return (vid, kind, "analysis-error", err[:160])
        return (vid, kind, "silent", "")
    except SyntaxError as ex:
        return (vid, kind, "skipped", "variant does not compile: %s" % ex)
    except Exception as ex:       # pragma: no cover
        return (vid, kind, "analysis-error", "%s: %s" % (type(ex).__name__, ex))


def run_thorough(prop, sources, ck, mod):
    from vlib.model import AnalysisError
    vs = load_variants(prop)
    jobs = [(prop, vid, kind, payload, sources) for (vid, kind, payload) in vs]
    results = []
    if jobs:
        with Pool(min(16, max(1, len(jobs)))) as pool:
            results = pool.map(_run_one, jobs)
    fire_ok = [r for r in results if r[1] == "fire" and r[2] == "reported"]
    fire_missed = [r for r in results if r[1] == "fire" and r[2] in ("silent", "analysis-error")]
    silent_ok = [r for r in results if r[1] == "silent" and r[2] == "silent"]
    silent_bad = [r for r in results if r[1] == "silent" and r[2] in ("reported", "analysis-error")]
    skipped = [r for r in results if r[2] == "skipped"]
    audit = []
    try:
        from selftest import stdlib_audit
        audit = stdlib_audit.run(prop)
    except ImportError:
        audit = []
    for (fact, ok, detail) in audit:
        if ok:
            ck.ok("AUDIT", "stdlib: " + fact, detail, "")
        else:
            raise AnalysisError("trusted stdlib fact no longer holds: %s (%s)" % (fact, detail))
    extra = {"selftest": {
        "fire_ok": len(fire_ok), "silent_ok": len(silent_ok), "skipped": len(skipped),
        "fire_missed": [r[0] for r in fire_missed], "silent_reported": [r[0] + ": " + r[3] for r in silent_bad],
        "detected": [{"variant": r[0], "report": r[3]} for r in fire_ok],
        "silent_variants": [r[0] for r in silent_ok],
        "skipped_variants": [r[0] + ": " + r[3] for r in skipped]},
        "stdlib_audit": [{"fact": f, "holds": o, "detail": d} for (f, o, d) in audit]}
    if fire_missed or silent_bad:
        msg = []
        if fire_missed:
            msg.append("breaking variants not reported: %s" % ", ".join("%s (%s)" % (r[0], r[2]) for r in fire_missed))
        if silent_bad:
            msg.append("behaviour-preserving variants reported: %s" % ", ".join("%s [%s]" % (r[0], r[3][:80]) for r in silent_bad))
        raise AnalysisError("checker self-test failed for %s: %s" % (prop, "; ".join(msg)))
    return extra
