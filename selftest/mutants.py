"""Single-edit mutation operators over the package's functions (used by tools/mutation_sweep.py to look for gaps of the
checks, and by the thorough tier to replay the mutants that survive the repository's tests and that a check reports)."""
import ast

MODULES = ["SimpleJSONRPCServer", "jsonrpc", "jsonclass", "threadpool", "config", "utils", "history", "jsonlib"]
CMP = {ast.Lt: ast.LtE, ast.LtE: ast.Lt, ast.Gt: ast.GtE, ast.GtE: ast.Gt, ast.Eq: ast.NotEq, ast.NotEq: ast.Eq,
       ast.Is: ast.IsNot, ast.IsNot: ast.Is, ast.In: ast.NotIn, ast.NotIn: ast.In}


def _py3_only(tree):
    return tree


class Site(object):
    def __init__(self, kind, node, desc):
        self.kind, self.node, self.desc = kind, node, desc


def sites(tree):
    """mutation sites in function bodies (docstrings, logging calls and module-level code excluded)"""
    out = []
    for fn in [n for n in ast.walk(tree) if isinstance(n, ast.FunctionDef)]:
        for n in ast.walk(fn):
            if isinstance(n, ast.Compare) and len(n.ops) == 1 and type(n.ops[0]) in CMP:
                out.append(Site("cmp", n, "%s: comparison operator of `%s` swapped" % (fn.name, ast.unparse(n)[:60])))
            elif isinstance(n, ast.BoolOp):
                out.append(Site("bool", n, "%s: and/or swapped in `%s`" % (fn.name, ast.unparse(n)[:60])))
            elif isinstance(n, (ast.If, ast.While)) and not (isinstance(n.test, ast.Constant)):
                out.append(Site("neg", n, "%s: condition `%s` negated" % (fn.name, ast.unparse(n.test)[:60])))
            elif isinstance(n, ast.Constant) and isinstance(n.value, bool):
                out.append(Site("const", n, "%s: constant %r flipped" % (fn.name, n.value)))
            elif isinstance(n, ast.Constant) and isinstance(n.value, int) and not isinstance(n.value, bool):
                out.append(Site("const+", n, "%s: constant %r + 1" % (fn.name, n.value)))
                out.append(Site("const-", n, "%s: constant %r - 1" % (fn.name, n.value)))
            elif isinstance(n, ast.Constant) and isinstance(n.value, float):
                out.append(Site("const+", n, "%s: constant %r + 1" % (fn.name, n.value)))
            elif isinstance(n, ast.Return) and n.value is not None and not (isinstance(n.value, ast.Constant) and n.value.value is None):
                out.append(Site("retnone", n, "%s: `%s` returns None instead" % (fn.name, ast.unparse(n)[:60])))
            elif isinstance(n, ast.Call) and len(n.args) >= 2 and not any(isinstance(a, ast.Starred) for a in n.args[:2]):
                out.append(Site("swapargs", n, "%s: first two arguments of `%s` swapped" % (fn.name, ast.unparse(n)[:60])))
            elif isinstance(n, (ast.Break, ast.Continue)):
                out.append(Site("brk", n, "%s: break <-> continue" % fn.name))
        # statement deletions
        for blk_owner in ast.walk(fn):
            for field in ("body", "orelse", "finalbody"):
                blk = getattr(blk_owner, field, None)
                if not isinstance(blk, list):
                    continue
                for st in blk:
                    if isinstance(st, ast.Expr) and isinstance(st.value, ast.Constant):
                        continue
                    if isinstance(st, ast.Expr) and isinstance(st.value, ast.Call):
                        txt = ast.unparse(st.value.func)
                        if txt.split(".")[-1] in ("debug", "info", "warning", "error", "exception", "critical", "log"):
                            continue
                        out.append(Site("delstmt", st, "%s: statement `%s` deleted" % (fn.name, ast.unparse(st)[:60])))
                    elif isinstance(st, (ast.Assign, ast.AugAssign)) and len(blk) > 1:
                        out.append(Site("delstmt", st, "%s: statement `%s` deleted" % (fn.name, ast.unparse(st)[:60])))
                    elif isinstance(st, ast.Raise) and st.exc is not None:
                        out.append(Site("delstmt", st, "%s: `%s` deleted" % (fn.name, ast.unparse(st)[:60])))
    return out


def apply(tree, site):
    """mutate in place (tree is a private deep copy carrying the same node identities through a parallel walk)"""
    n = site.node
    k = site.kind
    if k == "cmp":
        n.ops = [CMP[type(n.ops[0])]()]
    elif k == "bool":
        n.op = ast.Or() if isinstance(n.op, ast.And) else ast.And()
    elif k == "neg":
        n.test = ast.UnaryOp(op=ast.Not(), operand=n.test)
    elif k == "const":
        n.value = not n.value
    elif k == "const+":
        n.value = n.value + 1
    elif k == "const-":
        n.value = n.value - 1
    elif k == "retnone":
        n.value = ast.Constant(None)
    elif k == "swapargs":
        n.args[0], n.args[1] = n.args[1], n.args[0]
    elif k == "brk":
        return ast.Continue() if isinstance(n, ast.Break) else ast.Break()
    return None




# ---- second family: structural edits (locks, finally, handler types, statement order, dropped arguments) -----------------
def sites2(tree):
    out = []
    for fn in [n for n in ast.walk(tree) if isinstance(n, ast.FunctionDef)]:
        for owner in ast.walk(fn):
            for field in ("body", "orelse", "finalbody"):
                blk = getattr(owner, field, None)
                if not isinstance(blk, list):
                    continue
                for j, st in enumerate(blk):
                    if isinstance(st, ast.With) and len(st.items) == 1:
                        out.append(Site("unwith", (blk, j), "%s: `with %s:` removed (body kept)" % (fn.name, ast.unparse(st.items[0].context_expr)[:50])))
                    if isinstance(st, ast.Try) and st.finalbody and not st.handlers:
                        out.append(Site("unfinally", (blk, j), "%s: try/finally flattened (`%s` no longer runs on exceptions)" % (fn.name, ast.unparse(st.finalbody[0])[:50])))
                    if isinstance(st, ast.Try) and st.finalbody and st.handlers:
                        out.append(Site("dropfinally", (blk, j), "%s: finally clause `%s` moved after the try" % (fn.name, ast.unparse(st.finalbody[0])[:50])))
                    if j + 1 < len(blk) and all(isinstance(x, (ast.Assign, ast.AugAssign, ast.Expr)) and not (
                            isinstance(x, ast.Expr) and isinstance(x.value, ast.Constant)) for x in (st, blk[j + 1])):
                        out.append(Site("swapstmt", (blk, j), "%s: statements `%s` and `%s` swapped" % (fn.name, ast.unparse(st)[:40], ast.unparse(blk[j + 1])[:40])))
        for n in ast.walk(fn):
            if isinstance(n, ast.ExceptHandler):
                if n.type is None:
                    out.append(Site("exc_narrow", n, "%s: bare `except:` narrowed to `except Exception:`" % fn.name))
                elif ast.unparse(n.type) not in ("Exception", "BaseException"):
                    out.append(Site("exc_widen", n, "%s: `except %s` widened to `except Exception`" % (fn.name, ast.unparse(n.type)[:40])))
                else:
                    out.append(Site("exc_other", n, "%s: `except %s` narrowed to `except ValueError`" % (fn.name, ast.unparse(n.type)[:40])))
            elif isinstance(n, ast.Call):
                fnm = ast.unparse(n.func).split(".")[-1]
                if fnm in ("debug", "info", "warning", "error", "exception", "critical", "log", "format"):
                    continue
                for ki, k in enumerate(n.keywords):
                    if k.arg is not None:
                        out.append(Site("dropkw", (n, ki), "%s: keyword argument `%s=` of `%s` dropped" % (fn.name, k.arg, ast.unparse(n)[:50])))
                if len(n.args) >= 2 and not isinstance(n.args[-1], ast.Starred):
                    out.append(Site("droparg", n, "%s: last positional argument of `%s` dropped" % (fn.name, ast.unparse(n)[:50])))
    return out


def apply2(site):
    k = site.kind
    if k == "unwith":
        blk, j = site.node
        blk[j:j + 1] = blk[j].body
    elif k == "unfinally":
        blk, j = site.node
        blk[j:j + 1] = blk[j].body + blk[j].finalbody
    elif k == "dropfinally":
        blk, j = site.node
        st = blk[j]
        fb = st.finalbody
        st.finalbody = []
        blk[j + 1:j + 1] = fb
    elif k == "swapstmt":
        blk, j = site.node
        blk[j], blk[j + 1] = blk[j + 1], blk[j]
    elif k == "exc_narrow":
        site.node.type = ast.Name(id="Exception", ctx=ast.Load())
    elif k == "exc_widen":
        site.node.type = ast.Name(id="Exception", ctx=ast.Load())
    elif k == "exc_other":
        site.node.type = ast.Name(id="ValueError", ctx=ast.Load())
    elif k == "dropkw":
        n, ki = site.node
        del n.keywords[ki]
    elif k == "droparg":
        site.node.args.pop()


def mutate2(source, index=None, kind=None, desc=None, ordinal=0):
    tree = ast.parse(source)
    ss = sites2(tree)
    if index is None:
        cand = [i for i, s_ in enumerate(ss) if s_.kind == kind and s_.desc == desc]
        if ordinal >= len(cand):
            return None
        index = cand[ordinal]
    if index >= len(ss):
        return None
    apply2(ss[index])
    ast.fix_missing_locations(tree)
    try:
        new_src = ast.unparse(tree)
        compile(new_src, "<mutant>", "exec")
    except Exception:
        return None
    return new_src


# ---- third family: the wrong variable / the wrong field (copy-paste slips) ---------------------------------------------
def sites3(tree):
    out = []
    for cls in [None] + [n for n in tree.body if isinstance(n, ast.ClassDef)]:
        funcs = [n for n in (tree.body if cls is None else cls.body) if isinstance(n, ast.FunctionDef)]
        fields = []
        if cls is not None:
            for m in funcs:
                if m.name == "__init__":
                    for st in ast.walk(m):
                        if isinstance(st, ast.Attribute) and isinstance(st.ctx, ast.Store) and isinstance(st.value, ast.Name) and st.value.id == "self" \
                                and st.attr not in fields:
                            fields.append(st.attr)
        for fn in funcs:
            params = [a.arg for a in fn.args.args if a.arg not in ("self", "cls")]
            for n in ast.walk(fn):
                if isinstance(n, ast.Name) and isinstance(n.ctx, ast.Load) and n.id in params and len(params) >= 2:
                    other = params[(params.index(n.id) + 1) % len(params)]
                    out.append(Site("wrongvar", n, "%s: `%s` (line %d col %d) replaced by the parameter `%s`" % (fn.name, n.id, n.lineno, n.col_offset, other)))
                elif isinstance(n, ast.Attribute) and isinstance(n.ctx, ast.Load) and isinstance(n.value, ast.Name) and n.value.id == "self" \
                        and n.attr in fields and len(fields) >= 2 and fn.name != "__init__":
                    other = fields[(fields.index(n.attr) + 1) % len(fields)]
                    out.append(Site("wrongfield", n, "%s: `self.%s` (line %d col %d) replaced by `self.%s`" % (fn.name, n.attr, n.lineno, n.col_offset, other)))
    return out


def mutate3(source, index=None, kind=None, desc=None, ordinal=0):
    tree = ast.parse(source)
    ss = sites3(tree)
    if index is None:
        cand = [i for i, s_ in enumerate(ss) if s_.kind == kind and s_.desc == desc]
        if ordinal >= len(cand):
            return None
        index = cand[ordinal]
    if index >= len(ss):
        return None
    s = ss[index]
    new = s.desc.rsplit("`", 2)[-2]
    if s.kind == "wrongvar":
        s.node.id = new
    else:
        s.node.attr = new[5:]
    try:
        new_src = ast.unparse(tree)
        compile(new_src, "<mutant>", "exec")
    except Exception:
        return None
    return new_src


def mutate(source, index=None, kind=None, desc=None, ordinal=0):
    """-> mutated source (ast.unparse of the whole module) for the site given by its index, or by (kind, desc, ordinal among the
    sites with that kind and description); None when the site is absent or the result does not compile"""
    tree = ast.parse(source)
    ss = sites(tree)
    if index is None:
        cand = [i for i, s_ in enumerate(ss) if s_.kind == kind and s_.desc == desc]
        if ordinal >= len(cand):
            return None
        index = cand[ordinal]
    if index >= len(ss):
        return None
    s = ss[index]
    if s.kind in ("delstmt", "brk"):
        done = False
        for owner in ast.walk(tree):
            for field in ("body", "orelse", "finalbody"):
                blk = getattr(owner, field, None)
                if isinstance(blk, list) and any(x is s.node for x in blk):
                    j = [x is s.node for x in blk].index(True)
                    if s.kind == "delstmt":
                        blk[j] = ast.copy_location(ast.Pass(), s.node)
                    else:
                        blk[j] = ast.copy_location(ast.Continue() if isinstance(s.node, ast.Break) else ast.Break(), s.node)
                    done = True
                    break
            if done:
                break
    else:
        apply(tree, s)
    ast.fix_missing_locations(tree)
    try:
        new_src = ast.unparse(tree)
        compile(new_src, "<mutant>", "exec")
    except Exception:
        return None
    return new_src


# ---- fourth family: the wrong sibling (method, string key, operator, exception class, branch) ----------------------------
SIBLING = {"put": "put_nowait", "put_nowait": "put", "get_nowait": "get", "acquire": "release", "release": "acquire", "set": "clear",
           "clear": "set", "append": "extend", "extend": "append", "startswith": "endswith", "endswith": "startswith",
           "lower": "upper", "upper": "lower", "notify": "notify_all", "notify_all": "notify", "setdefault": "get",
           "items": "keys", "values": "keys", "strip": "lstrip", "encode": "decode", "decode": "encode", "task_done": "join",
           "is_set": "wait", "wait": "is_set", "add": "discard", "discard": "add", "remove": "append", "update": "setdefault",
           "send_response": "send_error", "send_header": "send_response", "end_headers": "flush", "rstrip": "lstrip",
           "isSet": "wait", "start": "run", "join": "is_alive", "popleft": "pop", "copy": "keys"}
BUILTIN_SIB = {"any": "all", "all": "any", "min": "max", "max": "min", "str": "repr", "tuple": "list", "list": "tuple",
               "isinstance": "issubclass", "getattr": "hasattr", "len": "id", "sorted": "list", "dict": "list", "int": "float",
               "bool": "int", "type": "id", "hasattr": "getattr", "iter": "list", "next": "list", "set": "list"}
EXC_SIB = {"TypeError": "ValueError", "ValueError": "TypeError", "KeyError": "IndexError", "AttributeError": "KeyError",
           "ProtocolError": "AppError", "AppError": "ProtocolError", "TransportError": "ProtocolError",
           "TranslationError": "ValueError", "NotImplementedError": "ValueError", "Exception": "ValueError",
           "RuntimeError": "ValueError", "OSError": "ValueError", "IndexError": "KeyError"}
BINOP = {ast.Add: ast.Sub, ast.Sub: ast.Add, ast.Mult: ast.Add, ast.FloorDiv: ast.Mult, ast.Div: ast.Mult}
_LOGGING = ("debug", "info", "warning", "error", "exception", "critical", "log")


def sites4(tree):
    out = []
    for fn in [n for n in ast.walk(tree) if isinstance(n, ast.FunctionDef)]:
        skip = set()
        for n in ast.walk(fn):
            if isinstance(n, ast.Call) and ast.unparse(n.func).split(".")[-1] in _LOGGING:
                for x in ast.walk(n):
                    skip.add(id(x))
            if isinstance(n, ast.Expr) and isinstance(n.value, ast.Constant):
                skip.add(id(n.value))
            if isinstance(n, ast.FunctionDef) and n is not fn:
                for x in ast.walk(n):
                    skip.add(id(x))           # (nested functions are visited on their own)
        for n in ast.walk(fn):
            if id(n) in skip:
                continue
            pos = "line %d col %d" % (getattr(n, "lineno", 0), getattr(n, "col_offset", 0))
            if isinstance(n, ast.Call) and isinstance(n.func, ast.Attribute) and n.func.attr in SIBLING:
                out.append(Site("sibling", n, "%s: `%s` calls `.%s` instead" % (fn.name, ast.unparse(n)[:50], SIBLING[n.func.attr])))
            elif isinstance(n, ast.Call) and isinstance(n.func, ast.Name) and n.func.id in BUILTIN_SIB:
                out.append(Site("builtin", n, "%s: `%s` calls `%s` instead" % (fn.name, ast.unparse(n)[:50], BUILTIN_SIB[n.func.id])))
            elif isinstance(n, ast.Constant) and isinstance(n.value, str) and n.value and len(n.value) < 40:
                out.append(Site("strtypo", n, "%s: string %r misspelt" % (fn.name, n.value)))
            elif isinstance(n, ast.UnaryOp) and isinstance(n.op, ast.Not):
                out.append(Site("unnot", n, "%s: `%s` loses its `not`" % (fn.name, ast.unparse(n)[:50])))
            elif isinstance(n, ast.IfExp):
                out.append(Site("ifexp", n, "%s: branches of `%s` swapped" % (fn.name, ast.unparse(n)[:50])))
            elif isinstance(n, ast.AugAssign) and type(n.op) in BINOP:
                out.append(Site("augop", n, "%s: operator of `%s` changed" % (fn.name, ast.unparse(n)[:50])))
            elif isinstance(n, ast.BinOp) and type(n.op) in BINOP and not (isinstance(n.left, ast.Constant) and isinstance(n.left.value, str)):
                out.append(Site("binop", n, "%s: operator of `%s` changed" % (fn.name, ast.unparse(n)[:50])))
            elif isinstance(n, ast.Raise) and isinstance(n.exc, ast.Call) and isinstance(n.exc.func, ast.Name) and n.exc.func.id in EXC_SIB:
                out.append(Site("excclass", n, "%s: `%s` raises %s instead" % (fn.name, ast.unparse(n)[:50], EXC_SIB[n.exc.func.id])))
            elif isinstance(n, ast.If) and n.orelse and not (len(n.orelse) == 1 and isinstance(n.orelse[0], ast.If)):
                out.append(Site("dropelse", n, "%s: else branch of `if %s` dropped" % (fn.name, ast.unparse(n.test)[:50])))
            elif isinstance(n, ast.Subscript) and isinstance(n.slice, ast.Slice) and isinstance(n.ctx, ast.Load):
                out.append(Site("unslice", n, "%s: slice `%s` replaced by the whole" % (fn.name, ast.unparse(n)[:50])))
            elif isinstance(n, ast.Attribute) and isinstance(n.ctx, ast.Load) and n.attr in ("version", "_version") :
                pass
        for a, d in zip(fn.args.args[len(fn.args.args) - len(fn.args.defaults):], fn.args.defaults):
            if isinstance(d, ast.Constant) and d.value is None:
                continue
            if isinstance(d, ast.Constant) and isinstance(d.value, (bool, int, float, str)):
                out.append(Site("default", d, "%s: default of `%s` (%r) changed" % (fn.name, a.arg, d.value)))
    return out


def apply4(s):
    n, k = s.node, s.kind
    if k == "sibling":
        n.func.attr = SIBLING[n.func.attr]
    elif k == "builtin":
        n.func.id = BUILTIN_SIB[n.func.id]
    elif k == "strtypo":
        n.value = n.value + "_" if n.value[-1:].isalnum() else "_" + n.value
    elif k == "unnot":
        n.op = ast.UAdd()           # placeholder, replaced below
    elif k == "ifexp":
        n.body, n.orelse = n.orelse, n.body
    elif k in ("augop", "binop"):
        n.op = BINOP[type(n.op)]()
    elif k == "excclass":
        n.exc.func.id = EXC_SIB[n.exc.func.id]
    elif k == "dropelse":
        n.orelse = []
    elif k == "unslice":
        n.slice = ast.Slice(lower=None, upper=None, step=None)
    elif k == "default":
        v = n.value
        n.value = (not v) if isinstance(v, bool) else (v + 1 if isinstance(v, (int, float)) else v + "_")


class _UnNot(ast.NodeTransformer):
    def visit_UnaryOp(self, node):
        self.generic_visit(node)
        if isinstance(node.op, ast.UAdd) and getattr(node, "_unnot", False):
            return ast.Call(func=ast.Name(id="bool", ctx=ast.Load()), args=[node.operand], keywords=[])
        return node


def mutate4(source, index=None, kind=None, desc=None, ordinal=0):
    tree = ast.parse(source)
    ss = sites4(tree)
    if index is None:
        cand = [i for i, s_ in enumerate(ss) if s_.kind == kind and s_.desc == desc]
        if ordinal >= len(cand):
            return None
        index = cand[ordinal]
    if index >= len(ss):
        return None
    s = ss[index]
    apply4(s)
    if s.kind == "unnot":
        s.node._unnot = True
        tree = _UnNot().visit(tree)
    ast.fix_missing_locations(tree)
    try:
        new_src = ast.unparse(tree)
        compile(new_src, "<mutant>", "exec")
    except Exception:
        return None
    return new_src
