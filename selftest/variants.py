"""Text- and AST-level variants of the current sources for the checker self-test (thorough tier).

kind 'silent': a behaviour-preserving rewrite (an idiom a maintainer may equally use); the listed properties'
               checks must report nothing.
kind 'fire'  : one rule instance broken (from the 'Catches' lists of DESIGN.md); the listed checks must report it.
'edit' variants replace one exact, unique snippet; 'ast' variants call a transformer on the module's tree.
A variant whose anchor is absent is skipped and counted.
"""
import ast

ALL_SERVER = ["C01", "C02", "C03", "C04", "C05", "C08", "C12", "C13"]
POOL = ["C09", "C10", "C11", "C12"]


def E(vid, kind, props, module, old, new):
    return {"id": vid, "kind": kind, "props": props, "module": module, "old": old, "new": new}


def A(vid, kind, props, module, fn):
    return {"id": vid, "kind": kind, "props": props, "module": module, "old": None, "new": None, "ast": fn}


# ---------------------------------------------------------------------------------------------------
# AST transformers
# ---------------------------------------------------------------------------------------------------
def _find_func(tree, cls, name):
    for st in ast.walk(tree):
        if isinstance(st, ast.ClassDef) and st.name == cls:
            for f in st.body:
                if isinstance(f, ast.FunctionDef) and f.name == name:
                    return f
        if cls is None and isinstance(st, ast.FunctionDef) and st.name == name:
            return st
    return None


def swap_dispatch_polarity(tree):
    f = _find_func(tree, "SimpleJSONRPCDispatcher", "_dispatch")
    done = False
    for n in ast.walk(f):
        if isinstance(n, ast.If) and ast.unparse(n.test) == "func is not None" and n.orelse:
            n.test = ast.parse("func is None").body[0].value
            n.body, n.orelse = n.orelse, n.body
            done = True
    return tree if done else None


def fstrings_in_faults(tree):
    """'...{0}...{1}'.format(a, b)  ->  f-string, in every Fault(...) message of the module"""
    done = 0

    class T(ast.NodeTransformer):
        def visit_Call(self, node):
            nonlocal done
            self.generic_visit(node)
            if isinstance(node.func, ast.Attribute) and node.func.attr == "format" and isinstance(node.func.value, ast.Constant) \
                    and isinstance(node.func.value.value, str) and not node.keywords:
                import re
                parts = re.split(r"\{(\d+)\}", node.func.value.value)
                vals = []
                for i, p in enumerate(parts):
                    if i % 2 == 0:
                        if p:
                            vals.append(ast.Constant(p))
                    else:
                        vals.append(ast.FormattedValue(value=node.args[int(p)], conversion=-1))
                done += 1
                return ast.JoinedStr(values=vals)
            return node
    for f in ast.walk(tree):
        if isinstance(f, ast.Call) and ast.unparse(f.func) in ("Fault", "jsonrpclib.Fault"):
            for i, a in enumerate(f.args):
                f.args[i] = T().visit(a)
    return tree if done else None


def with_to_acquire(tree):
    f = _find_func(tree, "ThreadPool", "enqueue")
    for i, st in enumerate(f.body):
        if isinstance(st, ast.With) and ast.unparse(st.items[0].context_expr) == "self.__lock":
            acq = ast.parse("self.__lock.acquire()").body[0]
            tr = ast.Try(body=st.body, handlers=[], orelse=[], finalbody=[ast.parse("self.__lock.release()").body[0]])
            f.body[i:i + 1] = [acq, tr]
            return tree
    return None


def rename_locals_single_dispatch(tree):
    f = _find_func(tree, "SimpleJSONRPCDispatcher", "_marshaled_single_dispatch")
    ren = {"method": "m_name", "params": "m_params", "config": "cfg", "is_notification": "notif", "response": "resp", "fault": "flt", "ex": "err"}
    for n in ast.walk(f):
        if isinstance(n, ast.Name) and n.id in ren:
            n.id = ren[n.id]
        if isinstance(n, ast.ExceptHandler) and n.name in ren:
            n.name = ren[n.name]
    return tree


def clamp_with_min_max(tree):
    f = _find_func(tree, "ThreadPool", "__init__")
    for t in ast.walk(f):
        if isinstance(t, ast.Try):
            for i, st in enumerate(t.body):
                if isinstance(st, ast.If) and "min_threads < 0" in ast.unparse(st.test):
                    t.body[i] = ast.parse("min_threads = max(0, min(min_threads, max_threads))").body[0]
                    return tree
    return None


def loop_else_instead_of_continue(tree):
    f = _find_func(tree, "SimpleJSONRPCDispatcher", "_unmarshaled_dispatch")
    for loop in ast.walk(f):
        if isinstance(loop, ast.For):
            b = loop.body
            for i, st in enumerate(b):
                if isinstance(st, ast.If) and st.body and isinstance(st.body[-1], ast.Continue) and not st.orelse:
                    st.body = st.body[:-1]
                    st.orelse = b[i + 1:]
                    del b[i + 1:]
                    return tree
    return None


def reorder_eventdata_stores(tree):
    f = _find_func(tree, "EventData", "set")
    if len(f.body) >= 4:
        # docstring, data store, exception store, event set
        f.body[1], f.body[2] = f.body[2], f.body[1]
        return tree
    return None


# ---------------------------------------------------------------------------------------------------
VARIANTS = [
    # ---- silent: behaviour-preserving rewrites --------------------------------------------------------
    A("S01-dispatch-polarity-swap", "silent", ["C01", "C02", "C03", "C05", "C13"], "SimpleJSONRPCServer", swap_dispatch_polarity),
    A("S02-fstrings-in-fault-messages", "silent", ["C02", "C03", "C05", "C13"], "SimpleJSONRPCServer", fstrings_in_faults),
    A("S03-acquire-release-in-enqueue", "silent", ["C09", "C10", "C11"], "threadpool", with_to_acquire),
    A("S04-rename-locals-single-dispatch", "silent", ["C01", "C02", "C03", "C04", "C05", "C13"], "SimpleJSONRPCServer", rename_locals_single_dispatch),
    E("S05-isinstance-dict-literal-type", "silent", ["C02", "C03", "C05", "C13"], "SimpleJSONRPCServer",
      "    if not isinstance(request, utils.DictType):", "    if not isinstance(request, dict):"),
    A("S06-clamp-with-min-max", "silent", ["C10"], "threadpool", clamp_with_min_max),
    A("S07-else-instead-of-continue", "silent", ["C03", "C05", "C02"], "SimpleJSONRPCServer", loop_else_instead_of_continue),
    E("S08-content-length-header-first", "silent", ["C17", "C18"], "jsonrpc",
      '        connection.putheader("Content-Type", self._config.content_type)\n        connection.putheader("Content-Length", str(len(request_body)))',
      '        connection.putheader("Content-Length", str(len(request_body)))\n        connection.putheader("Content-Type", self._config.content_type)'),
    E("S09-get-without-explicit-none", "silent", ["C03", "C05", "C13", "C02"], "SimpleJSONRPCServer",
      '    rpcid = request.get("id", None)', '    rpcid = request.get("id")'),
    E("S10-error-get-data-default", "silent", ["C06"], "jsonrpc",
      '                data = error.get("data", None)', '                data = error.get("data")'),
    E("S11-bound-test-spelled-negated", "silent", ["C10", "C09"], "threadpool",
      "            if self.__nb_threads >= self._max_threads:", "            if not self.__nb_threads < self._max_threads:"),
    E("S12-growth-test-mirrored", "silent", ["C10"], "threadpool",
      "            if self.__nb_pending_task > self.__nb_threads:", "            if self.__nb_threads < self.__nb_pending_task:"),
    E("S13-loads-empty-test-by-truthiness", "silent", ["C14"], "jsonrpc", '    if data == "":\n        # Notification', '    if not data:\n        # Notification'),
    E("S14-id-test-by-membership", "silent", ["C14"], "jsonrpc",
      '        if self.id is None or self.id == "":', '        if self.id in (None, ""):'),
    E("S15-notification-predicate-with-get", "silent", ["C04", "C02", "C03"], "SimpleJSONRPCServer",
      '        is_notification = "id" not in request or request["id"] in (None, "")',
      '        is_notification = request.get("id") in (None, "")'),
    A("S16-eventdata-stores-reordered", "silent", ["C16", "C09"], "threadpool", reorder_eventdata_stores),
    E("S17-decode-with-bytes-method", "silent", ["C17", "C12"], "SimpleJSONRPCServer",
      '            data = utils.from_bytes(b"".join(chunks))', '            data = b"".join(chunks).decode("UTF-8")'),
    E("S18-super-server-close", "silent", ["C12"], "SimpleJSONRPCServer",
      "        SimpleJSONRPCServer.server_close(self)", "        super(PooledJSONRPCServer, self).server_close()"),
    E("S19-join-count-equals-zero", "silent", ["C11"], "threadpool",
      "        if not self._queue.unfinished_tasks:", "        if self._queue.unfinished_tasks == 0:"),
    E("S20-status-test-mirrored", "silent", ["C19"], "jsonrpc",
      "            if response.status == 200:", "            if 200 == response.status:"),

    # ---- firing: one instance broken each (DESIGN.md 'Catches') -----------------------------------------
    E("X01-kwargs-dropped", "fire", ["C01"], "jsonrpc",
      "            return self.__send(self.__name, kwargs)", "            return self.__send(self.__name, args)"),
    E("X02-func-called-with-list", "fire", ["C01"], "SimpleJSONRPCServer",
      "                    return func(*params)", "                    return func(params)"),
    E("X03-result-or-none", "fire", ["C01", "C06", "C19"], "jsonrpc",
      '        check_for_errors(response)\n        return response["result"]', '        check_for_errors(response)\n        return response.get("result") or None'),
    E("X04-history-records-parsed-object", "fire", ["C01"], "jsonrpc",
      "            self.__history.add_response(response)", "            self.__history.add_response(loads(response, self._config))"),
    E("X05-reversed-job-order", "fire", ["C01"], "jsonrpc",
      '",".join(job.request() for job in self._job_list)', '",".join(job.request() for job in reversed(self._job_list))'),
    E("X06-parse-guard-removed-id-subscript", "fire", ["C02"], "SimpleJSONRPCServer",
      '    rpcid = request.get("id", None)', '    rpcid = request["id"]'),
    E("X07-jsonrpc-value-without-str", "fire", ["C02", "C14", "C13"], "jsonrpc",
      '            response["jsonrpc"] = str(self.version)', '            response["jsonrpc"] = self.version'),
    E("X08-rpcid-dropped", "fire", ["C03"], "SimpleJSONRPCServer",
      '            "Invalid request parameters or method.",\n            rpcid=rpcid,', '            "Invalid request parameters or method.",'),
    E("X09-rpcid-wrong-key", "fire", ["C03"], "SimpleJSONRPCServer",
      '    rpcid = request.get("id", None)', '    rpcid = request.get("ID", None)'),
    E("X10-responses-insert-front", "fire", ["C03"], "SimpleJSONRPCServer",
      "                    responses.append(resp_entry)", "                    responses.insert(0, resp_entry)"),
    E("X11-empty-batch-returns-list", "fire", ["C03"], "SimpleJSONRPCServer",
      '                raise NoMulticallResult("No result")', "                return responses"),
    E("X12-predicate-loses-empty-string", "fire", ["C04"], "SimpleJSONRPCServer",
      'request["id"] in (None, "")', 'request["id"] is None'),
    E("X13-predicate-by-truthiness", "fire", ["C04"], "SimpleJSONRPCServer",
      'is_notification = "id" not in request or request["id"] in (None, "")', 'is_notification = not request.get("id")'),
    E("X14-notification-return-removed", "fire", ["C04"], "SimpleJSONRPCServer",
      "            if is_notification:\n                # It's a notification, no result needed\n                # Do not use 'not id' as it might be the integer 0\n                return None\n",
      "            pass\n"),
    E("X15-code-literal-changed", "fire", ["C05"], "SimpleJSONRPCServer",
      "                    -32602, \"Invalid parameters: {0}\".format(ex), config=config", "                    -32600, \"Invalid parameters: {0}\".format(ex), config=config"),
    E("X16-continue-removed", "fire", ["C05", "C03"], "SimpleJSONRPCServer",
      "                    responses.append(result.dump())\n                    continue", "                    responses.append(result.dump())"),
    E("X17-getattr-on-instance", "fire", ["C05"], "SimpleJSONRPCServer",
      "                        func = resolve_dotted_attribute(\n                            self.instance, method, True\n                        )",
      "                        func = getattr(self.instance, method)"),
    E("X18-range-strict-lower", "fire", ["C06"], "jsonrpc", "and -32700 <= code <= -32000", "and -32700 < code <= -32000"),
    E("X19-type-guard-removed", "fire", ["C06"], "jsonrpc",
      '        if isinstance(error, utils.DictType) and "code" in error:', '        if "code" in error:'),
    E("X20-setattr-without-load", "fire", ["C07"], "jsonclass",
      "            setattr(new_obj, key, load(value, classes))", "            setattr(new_obj, key, value)"),
    E("X21-base-class-recursion-removed", "fire", ["C07"], "jsonclass",
      "    for base_class in clazz.__bases__:\n        _slots_finder(base_class, fields_set)", "    pass"),
    E("X22-gate-removed", "fire", ["C08"], "jsonrpc",
      "    if config.use_jsonclass:\n        # Convert beans\n        data = jsonclass.load(data, config.classes)", "    data = jsonclass.load(data, config.classes)"),
    E("X23-dash-allowed-in-class-names", "fire", ["C08"], "jsonclass", 'r"[^a-zA-Z0-9\\_\\.]"', 'r"[^a-zA-Z0-9\\_\\.\\-]"'),
    E("X24-loads-without-config", "fire", ["C08"], "SimpleJSONRPCServer",
      "            request = jsonrpclib.loads(data, self.json_config)", "            request = jsonrpclib.loads(data)"),
    E("X25-task-done-removed", "fire", ["C09", "C11"], "threadpool",
      "                        # Mark the action as executed\n                        self._queue.task_done()\n", "                        # Mark the action as executed\n"),
    E("X26-result-stringified", "fire", ["C09"], "threadpool", "            self._done_event.set(result)", "            self._done_event.set(str(result))"),
    E("X27-lifo-queue", "fire", ["C09"], "threadpool", "        self._queue = queue.Queue(queue_size)", "        self._queue = queue.LifoQueue(queue_size)"),
    E("X28-lock-dropped-in-worker", "fire", ["C09"], "threadpool",
      "                    with self.__lock:\n                        self.__nb_active_threads += 1", "                    self.__nb_active_threads += 1"),
    E("X29-bound-off-by-one", "fire", ["C10"], "threadpool",
      "            if self.__nb_threads >= self._max_threads:", "            if self.__nb_threads > self._max_threads:"),
    E("X30-growth-on-active-counter", "fire", ["C10"], "threadpool",
      "            if self.__nb_pending_task > self.__nb_threads:", "            if self.__nb_pending_task > self.__nb_active_threads:"),
    E("X31-join-empty-shortcut-restored", "fire", ["C11"], "threadpool",
      "        if not self._queue.unfinished_tasks:", "        if self._queue.empty():"),
    E("X32-pool-stop-forgotten", "fire", ["C12"], "SimpleJSONRPCServer",
      "        SimpleJSONRPCServer.server_close(self)\n        self.__request_pool.stop()", "        SimpleJSONRPCServer.server_close(self)"),
    E("X33-finish-request-without-shutdown", "fire", ["C12"], "SimpleJSONRPCServer",
      "            self.process_request_thread, request, client_address", "            self.finish_request, request, client_address"),
    E("X34-copy-dropped", "fire", ["C13"], "SimpleJSONRPCServer",
      "            config = self.json_config.copy()\n            config.version = 1.0", "            config = self.json_config\n            config.version = 1.0"),
    E("X35-classes-shared-in-copy", "fire", ["C13"], "config",
      "        new_config.classes = self.classes.copy()", "        new_config.classes = self.classes"),
    E("X36-version-switch-strict", "fire", ["C14", "C13", "C02"], "jsonrpc",
      '        response = {"result": result, "id": self.id}\n\n        if self.version >= 2:', '        response = {"result": result, "id": self.id}\n\n        if self.version > 2:'),
    E("X37-notify-keeps-id", "fire", ["C14", "C04"], "jsonrpc", '            del request["id"]', "            pass"),
    E("X38-error-data-by-truthiness", "fire", ["C14", "C02"], "jsonrpc", "        if data is not None:\n            error[\"error\"][\"data\"] = data", "        if data:\n            error[\"error\"][\"data\"] = data"),
    E("X39-tuple-returned", "fire", ["C15"], "jsonclass",
      "        return [load(entry, classes) for entry in obj]", "        return tuple(load(entry, classes) for entry in obj)"),
    E("X40-frozenset-dropped", "fire", ["C15"], "utils", "ITERABLE_TYPES = (list, set, frozenset, tuple)", "ITERABLE_TYPES = (list, set, tuple)"),
    E("X41-event-set-before-store", "fire", ["C16"], "threadpool",
      "        self.__data = data\n        self.__exception = None\n        self.__event.set()", "        self.__event.set()\n        self.__data = data\n        self.__exception = None"),
    E("X42-notify-out-of-finally", "fire", ["C16"], "threadpool",
      "        finally:\n            # In any case: notify the call back (if any)\n            self.__notify()", "        self.__notify()"),
    E("X43-callback-handler-reraises", "fire", ["C16"], "threadpool",
      '                self._logger.exception("Error calling back method: %s", ex)', '                self._logger.exception("Error calling back method: %s", ex)\n                raise'),
    E("X44-length-before-encoding", "fire", ["C17"], "SimpleJSONRPCServer",
      '        response = utils.to_bytes(response)\n\n        # Send it\n        self.send_header("Content-type", config.content_type)\n        self.send_header("Content-length", str(len(response)))',
      '        raw_len = len(response)\n        response = utils.to_bytes(response)\n\n        # Send it\n        self.send_header("Content-type", config.content_type)\n        self.send_header("Content-length", str(raw_len))'),
    E("X45-query-dropped", "fire", ["C17"], "jsonrpc",
      '            path_qs = "{}?{}".format(self.__handler, self.__query_string)', "            path_qs = self.__handler"),
    E("X46-ftp-accepted", "fire", ["C17"], "jsonrpc", '        if schema not in ("http", "https"):', '        if schema not in ("http", "https", "ftp"):'),
    E("X47-finally-removed", "fire", ["C18"], "jsonrpc",
      "        try:\n            yield self\n        finally:\n            # Restore the previous headers, even if the block raised\n            self.__transport.pop_headers(headers)",
      "        yield self\n        self.__transport.pop_headers(headers)"),
    E("X48-user-agent-literal-case", "fire", ["C18"], "jsonrpc", '        if "user-agent" not in additional_headers:', '        if "User-Agent" not in additional_headers:'),
    E("X49-close-removed", "fire", ["C19"], "jsonrpc",
      "            # a strange state, so we clear it.\n            self.close()\n            raise", "            # a strange state, so we clear it.\n            raise"),
    E("X50-dump-item-without-config", "fire", ["C20"], "jsonclass",
      "            dump(item, serialize_method, ignore_attribute, ignore, config)\n            for item in obj", "            dump(item)\n            for item in obj"),
    E("X51-handler-lookup-by-isinstance", "fire", ["C20"], "jsonclass",
      "        serializer = config.serialize_handlers[type(obj)]", "        serializer = config.serialize_handlers[obj.__class__.__mro__[-2]]"),
    E("X52-hard-coded-serialize-name", "fire", ["C20"], "jsonclass", "    if hasattr(obj, serialize_method):", '    if hasattr(obj, "_serialize"):'),
]


# ---- more silent variants (jsonclass family) ---------------------------------------------------------------
def load_without_pop(tree):
    """iterate without popping the descriptor instead of pop / try / finally / restore"""
    f = _find_func(tree, None, "load")
    body = f.body
    for i, st in enumerate(body):
        if isinstance(st, ast.Assign) and "obj.pop('__jsonclass__')" in ast.unparse(st.value):
            new = ast.parse(
                "for key, value in obj.items():\n"
                "    if key != '__jsonclass__':\n"
                "        setattr(new_obj, key, load(value, classes))\n").body
            # drop: pop, try/finally
            j = i + 1
            while j < len(body) and not isinstance(body[j], ast.Return):
                j += 1
            body[i:j] = new
            return tree
    return None


def append_loop_in_load(tree):
    f = _find_func(tree, None, "load")
    for holder in ast.walk(f):
        for field in ("body", "orelse"):
            blk = getattr(holder, field, None)
            if isinstance(blk, list):
                for i, st in enumerate(blk):
                    if isinstance(st, ast.Return) and isinstance(st.value, ast.ListComp):
                        blk[i:i + 1] = ast.parse("result = []\nfor entry in obj:\n    result.append(load(entry, classes))\nreturn result").body
                        return tree
    return None


VARIANTS += [
    A("S21-load-iterates-without-popping", "silent", ["C07", "C08", "C15"], "jsonclass", load_without_pop),
    A("S22-append-loop-instead-of-comprehension", "silent", ["C15", "C07"], "jsonclass", append_loop_in_load),
    E("S23-list-of-generator", "silent", ["C15", "C20"], "jsonclass",
      "        return [\n            dump(item, serialize_method, ignore_attribute, ignore, config)\n            for item in obj\n        ]",
      "        return list(\n            dump(item, serialize_method, ignore_attribute, ignore, config)\n            for item in obj\n        )"),
    E("S24-name-comparison-mirrored", "silent", ["C08"], "jsonclass",
      "    if json_module_clean != orig_module_name:", "    if orig_module_name != json_module_clean:"),
    E("S25-ignore-list-order-swapped", "silent", ["C20"], "jsonclass",
      "        ignore_list = getattr(obj, ignore_attribute, []) + ignore", "        ignore_list = ignore + getattr(obj, ignore_attribute, [])"),
    E("S26-handler-lookup-with-get", "silent", ["C20", "C15"], "jsonclass",
      "    try:\n        serializer = config.serialize_handlers[type(obj)]\n    except KeyError:\n        # Not a serializer\n        pass\n    else:\n        if serializer is not None:",
      "    serializer = config.serialize_handlers.get(type(obj))\n    if True:\n        if serializer is not None:"),
    E("S27-fullmatch-validation", "silent", ["C08"], "jsonclass",
      "    json_module_clean = re.sub(INVALID_MODULE_CHARS, \"\", orig_module_name)\n    if json_module_clean != orig_module_name:",
      "    json_module_clean = orig_module_name\n    if not re.fullmatch(r\"[a-zA-Z0-9_.]+\", orig_module_name):"),
    E("S28-classes-keyword-in-recursion", "silent", ["C07"], "jsonclass",
      "        return {key: load(value, classes) for key, value in obj.items()}", "        return {key: load(value, classes=classes) for key, value in obj.items()}"),
    E("S29-copy-with-keywords", "silent", ["C13", "C07", "C20"], "config",
      "        new_config = Config(\n            self.version,\n            self.content_type,\n            self.user_agent,\n            self.use_jsonclass,\n            self.serialize_method,\n            self.ignore_attribute,\n            None,\n        )",
      "        new_config = Config(\n            version=self.version,\n            content_type=self.content_type,\n            user_agent=self.user_agent,\n            use_jsonclass=self.use_jsonclass,\n            serialize_method=self.serialize_method,\n            ignore_attribute=self.ignore_attribute,\n        )"),
    E("S30-close-then-raise-same", "silent", ["C19"], "jsonrpc",
      "            if response.status == 200:\n                self.verbose = verbose\n                return self.parse_response(response)",
      "            if response.status == 200:\n                self.verbose = verbose\n                parsed = self.parse_response(response)\n                return parsed"),
]


# ---- formatting-only variants: every module re-emitted by ast.unparse (layout, comments, quotes change; AST identical) ----
def _roundtrip(tree):
    return tree


ALL_PROPS = ["C%02d" % i for i in range(1, 21)]
for _m in ("SimpleJSONRPCServer", "jsonrpc", "jsonclass", "threadpool", "config", "utils", "history"):
    VARIANTS.append(A("S90-reformatted-%s" % _m, "silent", ALL_PROPS, _m, _roundtrip))


def _insert_logging(tree):
    """a debug log line as first statement of every function of the module (after the docstring)"""
    n = 0
    for f in ast.walk(tree):
        if isinstance(f, ast.FunctionDef) and f.name not in ("__init__",):
            pos = 1 if (f.body and isinstance(f.body[0], ast.Expr) and isinstance(f.body[0].value, ast.Constant)) else 0
            f.body.insert(pos, ast.parse("logging.getLogger(__name__).debug('enter')").body[0])
            n += 1
    return tree if n else None


for _m in ("SimpleJSONRPCServer", "jsonrpc", "threadpool"):
    VARIANTS.append(A("S91-debug-log-at-function-entry-%s" % _m, "silent", ALL_PROPS, _m, _insert_logging))


def extract_fault_helper(tree):
    """validate_request builds its -32600 faults through a module-level helper"""
    f = _find_func(tree, None, "validate_request")
    n = 0

    class T(ast.NodeTransformer):
        def visit_Call(self, node):
            nonlocal n
            self.generic_visit(node)
            if ast.unparse(node.func) == "Fault" and node.args and ast.unparse(node.args[0]) == "-32600":
                kw = dict((k.arg, k.value) for k in node.keywords)
                n += 1
                return ast.Call(func=ast.Name(id="_invalid_request", ctx=ast.Load()),
                                args=[node.args[1], kw.get("rpcid", ast.Constant(None)), kw["config"]], keywords=[])
            return node
    T().visit(f)
    if not n:
        return None
    helper = ast.parse(
        "def _invalid_request(message, rpcid, config):\n"
        "    return Fault(-32600, message, rpcid=rpcid, config=config)\n").body[0]
    idx = tree.body.index(f)
    tree.body.insert(idx, helper)
    return tree


VARIANTS.append(A("S31-fault-construction-in-a-helper", "silent", ["C02", "C03", "C05", "C13"], "SimpleJSONRPCServer", extract_fault_helper))


def adapter_in_helper(tree):
    """the per-request configuration is computed by a module-level helper used by both functions"""
    helper = ast.parse(
        "def get_request_config(request, json_config):\n"
        "    if 'jsonrpc' not in request and json_config.version >= 2:\n"
        "        config = json_config.copy()\n"
        "        config.version = 1.0\n"
        "        return config\n"
        "    return json_config\n").body[0]
    v = _find_func(tree, None, "validate_request")
    s = _find_func(tree, "SimpleJSONRPCDispatcher", "_marshaled_single_dispatch")
    done = 0
    for f, cfgname, target in ((v, "json_config", "json_config"), (s, "self.json_config", "config")):
        req = "request"
        for i, st in enumerate(f.body):
            if isinstance(st, ast.If) and "'jsonrpc' not in request" in ast.unparse(st.test):
                f.body[i] = ast.parse("%s = get_request_config(request, %s)" % (target, cfgname)).body[0]
                done += 1
                break
    if done != 2:
        return None
    tree.body.insert(tree.body.index(v), helper)
    return tree


VARIANTS.append(A("S32-request-config-adapter-in-a-helper", "silent", ["C13", "C02", "C03", "C05", "C12", "C01", "C04"], "SimpleJSONRPCServer", adapter_in_helper))


# ---- local aliases of final fields (normaliser: alias propagation) ---------------------------------------
def alias_fields_in_pool(tree):
    """ThreadPool.enqueue / clear / join: `tasks = self._queue`, `lock = self.__lock` used instead of the attributes"""
    class R(ast.NodeTransformer):
        def __init__(self, mapping):
            self.mapping = mapping

        def visit_Attribute(self, node):
            self.generic_visit(node)
            if isinstance(node.value, ast.Name) and node.value.id == "self" and node.attr in self.mapping and isinstance(node.ctx, ast.Load):
                return ast.copy_location(ast.Name(id=self.mapping[node.attr], ctx=ast.Load()), node)
            return node
    for name in ("enqueue", "clear", "join"):
        fn = _find_func(tree, "ThreadPool", name)
        mapping = {"_queue": "tasks", "__lock": "lock"}
        doc = fn.body[:1] if isinstance(fn.body[0], ast.Expr) and isinstance(fn.body[0].value, ast.Constant) else []
        rest = fn.body[len(doc):]
        rest = [R(mapping).visit(st) for st in rest]
        pre = [ast.parse("%s = self.%s" % (v, k)).body[0] for k, v in mapping.items()]
        fn.body = doc + pre + rest
    ast.fix_missing_locations(tree)
    return tree


def alias_request_pool(tree):
    fn = _find_func(tree, "PooledJSONRPCServer", "server_close")
    fn2 = _find_func(tree, "PooledJSONRPCServer", "process_request")

    class R(ast.NodeTransformer):
        def visit_Attribute(self, node):
            self.generic_visit(node)
            if isinstance(node.value, ast.Name) and node.value.id == "self" and node.attr == "__request_pool" and isinstance(node.ctx, ast.Load):
                return ast.copy_location(ast.Name(id="pool", ctx=ast.Load()), node)
            return node
    for f in (fn, fn2):
        doc = f.body[:1] if isinstance(f.body[0], ast.Expr) and isinstance(f.body[0].value, ast.Constant) else []
        rest = [R().visit(st) for st in f.body[len(doc):]]
        f.body = doc + [ast.parse("pool = self.__request_pool").body[0]] + rest
    ast.fix_missing_locations(tree)
    return tree


VARIANTS.append(A("S33-local-aliases-of-queue-and-lock", "silent", POOL, "threadpool", alias_fields_in_pool))
VARIANTS.append(A("S34-local-alias-of-the-request-pool", "silent", ["C12", "C01"], "SimpleJSONRPCServer", alias_request_pool))


# ---- shared mutable state (class-level container, mutable default argument) --------------------------------
def _class_level_headers(tree):
    cls = [n for n in tree.body if isinstance(n, ast.ClassDef) and n.name == "TransportMixIn"][0]
    init = [m for m in cls.body if isinstance(m, ast.FunctionDef) and m.name == "__init__"][0]
    init.body = [st for st in init.body if not (isinstance(st, ast.Assign) and ast.unparse(st.targets[0]) == "self.additional_headers")]
    cls.body.insert(1, ast.parse("additional_headers = []").body[0])
    ast.fix_missing_locations(tree)
    return tree


VARIANTS.append(A("X53-header-stack-bound-at-class-level", "fire", ["C18", "C19", "C13"], "jsonrpc", _class_level_headers))
VARIANTS.append(E("X54-history-lists-as-mutable-defaults", "fire", ["C13"], "history",
                  "    def __init__(self):\n        \"\"\"\n        Sets up members\n        \"\"\"\n        self.requests = []\n        self.responses = []\n",
                  "    def __init__(self, requests=[], responses=[]):\n        \"\"\"\n        Sets up members\n        \"\"\"\n        self.requests = requests\n        self.responses = responses\n"))


# ---- closed-world rules (rules/closed_world.py): additions that change what existing code does, and their harmless twins ----
_MC_OLD = '''        request_body = "[ {0} ]".format(
            ",".join(job.request() for job in self._job_list)
        )
'''
VARIANTS.append(E("X60-lazy-map-consumed-by-a-trace-loop-and-by-the-join", "fire", ["C01", "C06"], "jsonrpc", _MC_OLD,
                  '''        requests = map(MultiCallMethod.request, self._job_list)
        if _logger.isEnabledFor(logging.DEBUG):
            for request in requests:
                _logger.debug("... batch entry: %s", request)
        request_body = "[ {0} ]".format(",".join(requests))
'''))
VARIANTS.append(E("S60-list-consumed-by-a-trace-loop-and-by-the-join", "silent", ALL_PROPS, "jsonrpc", _MC_OLD,
                  '''        requests = [job.request() for job in self._job_list]
        if _logger.isEnabledFor(logging.DEBUG):
            for request in requests:
                _logger.debug("... batch entry: %s", request)
        request_body = "[ {0} ]".format(",".join(requests))
'''))
VARIANTS.append(E("S61-generator-bound-to-a-local-consumed-once", "silent", ALL_PROPS, "jsonrpc", _MC_OLD,
                  '''        requests = (job.request() for job in self._job_list)
        request_body = "[ {0} ]".format(",".join(requests))
'''))
_CFE_OLD = '''    if not result:
        # Notification
'''
VARIANTS.append(E("S62-lazy-debug-trace-in-check_for_errors", "silent", ALL_PROPS, "jsonrpc", _CFE_OLD,
                  '''    if _logger.isEnabledFor(logging.DEBUG):
        _logger.debug("Checking the reply %r", result)
    if not result:
        # Notification
'''))
VARIANTS.append(E("X62-eager-integer-format-of-the-reply-in-check_for_errors", "fire", ["C06", "C05"], "jsonrpc", _CFE_OLD,
                  '''    if _logger.isEnabledFor(logging.DEBUG):
        _logger.debug("Checking the reply {0:d}".format(result))
    if not result:
        # Notification
'''))
_NOTIFY_OLD = '''                self._logger.exception("Error calling back method: %s", ex)
'''
VARIANTS.append(E("S63-callback-failure-logged-with-its-type-name", "silent", ALL_PROPS, "threadpool", _NOTIFY_OLD,
                  '''                self._logger.exception("Error calling back method (%s): %s", type(ex).__name__, ex)
'''))
VARIANTS.append(E("X63-callback-failure-formatted-eagerly", "fire", ["C16"], "threadpool", _NOTIFY_OLD,
                  '''                self._logger.exception("Error calling back method: {0}".format(ex))
'''))
_FIELDS_OLD = '''                attrs[attr_name] = dump(
                    attr_value,
                    serialize_method,
                    ignore_attribute,
                    ignore,
                    config,
                )
'''
def _log_skipped_member(eager):
    def tr(tree):
        f = _find_func(tree, None, "dump")
        done = [False]
        for n in ast.walk(f):
            if isinstance(n, ast.If) and "isinstance(attr_value, known_types)" in ast.unparse(n.test) and not n.orelse:
                msg = '"member %s not dumped (value: %r)"'
                call = ("_skip_logger.debug(%s %% (attr_name, attr_value))" % msg) if eager else ("_skip_logger.debug(%s, attr_name, attr_value)" % msg)
                n.orelse = ast.parse(call).body
                done[0] = True
        if not done[0]:
            return None
        tree.body.insert(1, ast.parse("import logging").body[0])
        tree.body.insert(2, ast.parse("_skip_logger = logging.getLogger(__name__)").body[0])
        ast.fix_missing_locations(tree)
        return tree
    return tr


VARIANTS.append(A("S64-skipped-member-logged-lazily", "silent", ALL_PROPS, "jsonclass", _log_skipped_member(False)))
VARIANTS.append(A("X64-skipped-member-formatted-eagerly", "fire", ["C20"], "jsonclass", _log_skipped_member(True)))
_PAYLOAD_REQ_OLD = '''        if self.version >= 2:
            request["jsonrpc"] = str(self.version)

        return request
'''
VARIANTS.append(E("S65-memoised-constant-helper", "silent", ALL_PROPS, "jsonrpc", "class Payload(object):",
                  '''import functools as _functools


@_functools.lru_cache(maxsize=None)
def _protocol_name():
    return "JSON-RPC"


class Payload(object):'''))


def _lambda_default_binding(tree):
    """batch entries dispatched through closures that bind the loop variable as a default argument, called in the same iteration"""
    f = _find_func(tree, "SimpleJSONRPCDispatcher", "_unmarshaled_dispatch")
    done = [False]

    class R(ast.NodeTransformer):
        def visit_Call(self, node):
            self.generic_visit(node)
            if ast.unparse(node.func) == "self._marshaled_single_dispatch" and len(node.args) == 2 and ast.unparse(node.args[0]) == "req_entry" and not done[0]:
                done[0] = True
                return ast.parse("(lambda entry=req_entry: self._marshaled_single_dispatch(entry, dispatch_method))()").body[0].value
            return node
    R().visit(f)
    ast.fix_missing_locations(tree)
    return tree if done[0] else None


VARIANTS.append(A("S66-closure-over-the-batch-entry-called-on-the-spot", "silent", ALL_SERVER, "SimpleJSONRPCServer", _lambda_default_binding))
VARIANTS.append(E("S67-serve-error-hook-with-lazy-logging", "silent", ALL_PROPS, "SimpleJSONRPCServer",
                  '''class PooledJSONRPCServer(socketserver.ThreadingMixIn, SimpleJSONRPCServer):''',
                  '''class PooledJSONRPCServer(socketserver.ThreadingMixIn, SimpleJSONRPCServer):
    def handle_error(self, request, client_address):
        _logger.exception("Error handling the request of %s", client_address)
'''))
VARIANTS.append(E("X67-serve-error-hook-that-can-raise", "fire", ["C12"], "SimpleJSONRPCServer",
                  '''class PooledJSONRPCServer(socketserver.ThreadingMixIn, SimpleJSONRPCServer):''',
                  '''class PooledJSONRPCServer(socketserver.ThreadingMixIn, SimpleJSONRPCServer):
    def handle_error(self, request, client_address):
        _logger.exception("Error handling the request of {0}:{1}".format(*client_address))
'''))
VARIANTS.append(E("S68-config-repr-added", "silent", ALL_PROPS, "config", '''    def copy(self):''',
                  '''    def __repr__(self):
        return "Config(version={0})".format(self.version)

    def copy(self):'''))
VARIANTS.append(E("X68-config-len-added-and-truth-tested", "fire", ["C13", "C05"], "config", '''    def copy(self):''',
                  '''    def __len__(self):
        return len(self.serialize_handlers)

    def copy(self):'''))
