"""Trusted-facts audit: the stdlib facts the rules lean on are re-derived from the installed stdlib *sources*
(parsed with ast, never imported for this purpose) in the thorough tier."""
import ast
import os
import sysconfig

STD = sysconfig.get_paths()["stdlib"]


def _func(module_rel, cls, name):
    path = os.path.join(STD, module_rel)
    tree = ast.parse(open(path, encoding="utf-8").read())
    for st in tree.body:
        if cls is None and isinstance(st, ast.FunctionDef) and st.name == name:
            return st
        if isinstance(st, ast.ClassDef) and st.name == cls:
            for sub in st.body:
                if isinstance(sub, ast.FunctionDef) and sub.name == name:
                    return sub
    raise KeyError("%s:%s.%s" % (module_rel, cls, name))


def _src(node):
    return ast.unparse(node)


def facts():
    out = {}

    def add(props, fact, fn):
        try:
            ok, detail = fn()
        except Exception as ex:
            ok, detail = False, "%s: %s" % (type(ex).__name__, ex)
        for p in props:
            out.setdefault(p, []).append((fact, ok, detail))

    def shutdown():
        f = _func("socketserver.py", "BaseServer", "shutdown")
        init = _func("socketserver.py", "BaseServer", "__init__")
        sf = _func("socketserver.py", "BaseServer", "serve_forever")
        waits = "self.__is_shut_down.wait()" in _src(f)
        created_unset = "self.__is_shut_down = threading.Event()" in _src(init) and "__is_shut_down.set()" not in _src(init)
        only_sf_sets = "self.__is_shut_down.set()" in _src(sf)
        return waits and created_unset and only_sf_sets, "shutdown() waits on __is_shut_down, created unset in __init__, set only in serve_forever's finally"
    add(["C12"], "socketserver.BaseServer.shutdown blocks until serve_forever acknowledges", shutdown)

    def server_close():
        f = _func("socketserver.py", "TCPServer", "server_close")
        return "self.socket.close()" in _src(f), "TCPServer.server_close closes the listening socket"
    add(["C12"], "socketserver.TCPServer.server_close closes the socket", server_close)

    def dotted():
        f = _func(os.path.join("xmlrpc", "server.py"), None, "resolve_dotted_attribute")
        s = _src(f)
        ok = "startswith('_')" in s and "raise AttributeError" in s and "for i in attrs" in s
        return ok, "every dotted segment starting with '_' raises AttributeError"
    add(["C05"], "xmlrpc.server.resolve_dotted_attribute rejects '_' segments", dotted)

    def task_done():
        f = _func("queue.py", "Queue", "task_done")
        j = _func("queue.py", "Queue", "join")
        s, sj = _src(f), _src(j)
        ok = "self.all_tasks_done.notify_all()" in s and "unfinished <= 0" in s and "while self.unfinished_tasks" in sj and "self.all_tasks_done.wait()" in sj
        return ok, "task_done notifies all_tasks_done at zero; join waits while unfinished_tasks"
    add(["C11", "C09"], "queue.Queue.task_done / join accounting", task_done)

    def fifo():
        g = _func("queue.py", "Queue", "_get")
        p = _func("queue.py", "Queue", "_put")
        return "self.queue.popleft()" in _src(g) and "self.queue.append(item)" in _src(p), "Queue appends right, pops left"
    add(["C09"], "queue.Queue is FIFO", fifo)

    def close():
        f = _func(os.path.join("xmlrpc", "client.py"), "Transport", "close")
        pr = _func(os.path.join("xmlrpc", "client.py"), "Transport", "parse_response")
        s = _src(f)
        return "self._connection = (None, None)" in s and "connection.close()" in s and "self.getparser()" in _src(pr) and "u.close()" in _src(pr), \
            "Transport.close drops the cached connection; parse_response uses self.getparser()"
    add(["C19"], "xmlrpc.client.Transport.close drops the cached connection", close)

    def method():
        f = _func(os.path.join("xmlrpc", "client.py"), "_Method", "__init__")
        s = _src(f)
        return "self.__send = send" in s and "self.__name = name" in s, "_Method stores (send, name) as __send/__name"
    add(["C01"], "xmlrpc.client._Method keeps its constructor arguments as __send / __name", method)

    def ctx():
        f = _func("contextlib.py", "_GeneratorContextManager", "__exit__")
        return "self.gen.throw(" in _src(f), "the block's exception is thrown into the generator at the yield"
    add(["C18"], "contextlib.contextmanager throws the block's exception at the yield", ctx)
    return out


def run(prop):
    return facts().get(prop, [])
