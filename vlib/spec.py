"""E6 -- spec tables (the oracles).  Written from the property statements and the
JSON-RPC rules they quote; the only place where expected behaviour is written down."""

# A.1 error codes
CODE_PARSE = -32700
CODE_INVALID = -32600
CODE_NOT_FOUND = -32601
CODE_PARAMS = -32602
CODE_INTERNAL = -32603
PREDEFINED_RANGE = (-32700, -32000)   # both ends inclusive

# A.3 type tables
PRIMITIVES = {"bytes", "str", "int", "float", "bool", "NoneType"}
ITERABLES = {"list", "set", "frozenset", "tuple"}
SUPPORTED = PRIMITIVES | ITERABLES | {"dict"}

# A.4 class-name alphabet
CLASS_ALPHABET = set("ABCDEFGHIJKLMNOPQRSTUVWXYZabcdefghijklmnopqrstuvwxyz0123456789_.")

# A.5 notification predicate: id absent, None or ""  (0, False, [], {} are answered)
# representative id values per class of the partition induced by the constants
ID_CASES = [
    ("absent", None, True),
    ("None", None, True),
    ("''", "", True),
    ("0", 0, False),
    ("False", False, False),
    ("0.0", 0.0, False),
    ("[]", [], False),
    ("{}", {}, False),
    ("'x'", "x", False),
    ("1", 1, False),
    ("-1.5", -1.5, False),
    ("True", True, False),
]

# A.6 headers
PROTECTED_HEADERS = {"content-length", "content-type"}
FALLBACK_HEADER = "user-agent"

# A.7 schemes
SCHEMES = {"http", "https"}

# A.8 blocking primitives: (receiver type, method)
BLOCKING = {
    ("queue.Queue", "put"), ("queue.Queue", "get"), ("queue.Queue", "join"),
    ("threading.Thread", "join"), ("threading.Event", "wait"), ("threading.Condition", "wait"),
    ("socketserver.BaseServer", "shutdown"), ("socketserver.BaseServer", "serve_forever"),
}

# A.2 envelope key sets; v1 = region version < 1.1, v2 = region version >= 2
ENVELOPES = {
    ("request", "v1", "params"): {"id", "method", "params"},
    ("request", "v1", "noparams"): {"id", "method", "params"},
    ("request", "v2", "params"): {"id", "method", "params", "jsonrpc"},
    ("request", "v2", "noparams"): {"id", "method", "jsonrpc"},
    ("notify", "v1", "params"): {"id", "method", "params"},
    ("notify", "v1", "noparams"): {"id", "method", "params"},
    ("notify", "v2", "params"): {"method", "params", "jsonrpc"},
    ("notify", "v2", "noparams"): {"method", "jsonrpc"},
    ("response", "v1"): {"result", "id", "error"},
    ("response", "v2"): {"result", "id", "jsonrpc"},
    ("error", "v1"): {"result", "id", "error"},
    ("error", "v2"): {"id", "jsonrpc", "error"},
}
VERSION_REGIONS = {"v1": 1.0, "v2": 2.0}
