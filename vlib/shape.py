"""E7 -- abstract evaluation of small dictionary-building functions.

Values are abstract: K(known constant), Sym(opaque symbol with optional known
truthiness, optional python type, and optional *representative* used only to
decide comparisons with constants -- the representative stands for a whole
region of the scalar's domain delimited by the constants the code compares it
with), D (dictionary display being built), L (list display).  Every branch
whose condition is not decided by the abstract values is explored both ways
(decision-sequence DFS, consistent per symbol).  No code of the repository is
executed: this is a case-splitting abstract interpreter over the AST.
Anything outside the modelled subset raises AnalysisError (exit 2).
"""
import ast
from .model import AnalysisError, dump, mangle, is_logging_call


class K(object):
    def __init__(self, v):
        self.v = v

    def __repr__(self):
        return "K(%r)" % (self.v,)

    def __eq__(self, o):
        return isinstance(o, K) and type(o.v) is type(self.v) and o.v == self.v

    def __hash__(self):
        return hash(("K", repr(self.v)))


class Sym(object):
    def __init__(self, label, truthy=None, rep=None, pytype=None):
        self.label = label
        self.truthy = truthy
        self.rep = rep
        self.pytype = pytype

    def __repr__(self):
        return "Sym(%s)" % self.label

    def __eq__(self, o):
        return isinstance(o, Sym) and o.label == self.label

    def __hash__(self):
        return hash(("Sym", self.label))


class D(object):
    def __init__(self, items=None):
        self.items = dict(items or {})

    def __repr__(self):
        return "D(%r)" % self.items


class L(object):
    def __init__(self, elts=None):
        self.elts = list(elts or [])

    def __repr__(self):
        return "L(%r)" % self.elts


class Obj(object):
    """An instance with abstract attributes (self)."""

    def __init__(self, cls, attrs=None):
        self.cls = cls
        self.attrs = dict(attrs or {})


class Opaque(object):
    """An object whose content is irrelevant (config, logger, fault): attribute reads give the
    recorded attribute or another Opaque, calls give an Opaque, stores are recorded."""

    def __init__(self, label, attrs=None, truthy=True):
        self.label = label
        self.attrs = dict(attrs or {})
        self.truthy = truthy

    def __repr__(self):
        return "Opaque(%s)" % self.label


class _Return(Exception):
    def __init__(self, v):
        self.v = v


class _Raise(Exception):
    def __init__(self, name, args=None):
        self.name = name
        self.args_av = args or []


EXC_PARENT = {"KeyError": "LookupError", "IndexError": "LookupError", "LookupError": "Exception",
              "TypeError": "Exception", "ValueError": "Exception", "AttributeError": "Exception",
              "AppError": "ProtocolError", "TransportError": "ProtocolError", "ProtocolError": "Exception",
              "NotImplementedError": "RuntimeError", "RuntimeError": "Exception", "Exception": "BaseException"}


def exc_matches(name, handler_types):
    if handler_types is None:
        return True
    from . import narrow as _nw
    n0 = name.split(".")[-1]
    n = n0
    while n is not None:
        if n in handler_types:
            return True
        n = EXC_PARENT.get(n)
    # classes the analysed program defines (several bases possible) and builtins outside the table
    return any(_nw.is_sub(n0, h) for h in handler_types)


class _NeedDecision(Exception):
    pass


TYPE_NAMES = {"dict": dict, "list": list, "tuple": tuple, "str": str, "bytes": bytes, "int": int,
              "float": float, "bool": bool, "NoneType": type(None), "set": set, "frozenset": frozenset}


class Evaluator(object):
    def __init__(self, prog, module, cls=None, max_runs=4096, lenient=False, stubs=None):
        self.stubs = stubs or {}    # function fq -> python callable(arg values) standing for a package function
        from . import narrow as _nw
        _nw._EXTRA_PARENTS = _nw.program_exception_parents(prog)
        self.lenient = lenient      # unmodelled *value* expressions become opaque symbols (conditions on them fork)
        self.prog = prog
        self.module = module
        self.cls = cls
        self.max_runs = max_runs
        self.fresh = 0

    # ---- public: run a function over all undecided branches -----------------
    def run(self, fi, args, self_obj=None):
        """-> list of (decisions, outcome) ; outcome = ('return', value) | ('raise', name).
        `self_obj` may be a factory (called before each run) when the function mutates self."""
        results = []
        self.calls_per_result = []     # opaque_calls of each entry of `results` (the attribute opaque_calls holds the last run's)
        pending = [[]]
        runs = 0
        while pending:
            prefix = pending.pop()
            runs += 1
            if runs > self.max_runs:
                raise AnalysisError("too many abstract cases in %s" % fi.fq)
            self.decisions = list(prefix)
            self.used = 0
            self.sym_truth = {}
            self.trace = []
            self.opaque_calls = []
            so = self_obj() if callable(self_obj) else self_obj
            try:
                out = self._call(fi, dict(args), so)
                results.append((list(self.trace), ("return", out)))
            except _Raise as r:
                results.append((list(self.trace), ("raise", r.name, r.args_av)))
            self.calls_per_result.append(list(self.opaque_calls))
            # alternatives for the decisions made beyond the prefix
            for i in range(len(prefix), len(self.trace)):
                alt = [d for (_l, d) in self.trace[:i]] + [not self.trace[i][1]]
                pending.append(alt)
        return results

    # ---- truthiness --------------------------------------------------------------
    def truth(self, v):
        if isinstance(v, K):
            return bool(v.v)
        if isinstance(v, D):
            return bool(v.items)
        if isinstance(v, L):
            return bool(v.elts)
        if isinstance(v, Obj):
            return True
        if isinstance(v, Opaque):
            if v.truthy is None:
                if v.label in self.sym_truth:
                    return self.sym_truth[v.label]
                return self._decide("truth(%s)" % v.label, v.label)
            return v.truthy
        if isinstance(v, Sym):
            if v.truthy is not None:
                return v.truthy
            if v.rep is not None:
                return bool(v.rep)
            if v.label in self.sym_truth:
                return self.sym_truth[v.label]
            return self._decide("truth(%s)" % v.label, v.label)
        raise AnalysisError("truthiness of %r not modelled" % (v,))

    def _decide(self, label, memo=None):
        if self.used < len(self.decisions):
            d = self.decisions[self.used]
        else:
            d = True
            self.decisions.append(d)
        self.used += 1
        self.trace.append((label, d))
        if memo is not None:
            self.sym_truth[memo] = d
        return d

    # ---- functions ---------------------------------------------------------------
    def _call(self, fi, args, self_obj):
        env = {}
        a = fi.node.args
        params = [x.arg for x in a.args]
        defaults = [None] * (len(params) - len(a.defaults)) + list(a.defaults)
        for p, dflt in zip(params, defaults):
            if p == "self":
                env[p] = self_obj
            elif p in args:
                env[p] = args.pop(p)
            elif dflt is not None:
                env[p] = self.expr(dflt, env, fi)
            else:
                raise AnalysisError("argument %s of %s not supplied to the abstract evaluator" % (p, fi.fq))
        if args:
            raise AnalysisError("unknown arguments %s for %s" % (sorted(args), fi.fq))
        try:
            self.block(fi.node.body, env, fi)
        except _Return as r:
            return r.v
        return K(None)

    def block(self, body, env, fi):
        for st in body:
            self.stmt(st, env, fi)

    def stmt(self, st, env, fi):
        if isinstance(st, ast.Expr):
            if isinstance(st.value, ast.Constant):
                return
            self.expr(st.value, env, fi)
            return
        if isinstance(st, ast.Assign):
            v = self.expr(st.value, env, fi)
            for t in st.targets:
                self.assign(t, v, env, fi)
            return
        if isinstance(st, ast.If):
            if self.truth(self.expr(st.test, env, fi)):
                self.block(st.body, env, fi)
            else:
                self.block(st.orelse, env, fi)
            return
        if isinstance(st, ast.Assert):
            # evaluated like any test on the representatives: an assertion that fails for one of them raises here as it would
            # at run time; one whose outcome the abstract values cannot decide is taken as holding (a stated invariant)
            try:
                tv = self.truth(self.expr(st.test, env, fi))
            except AnalysisError:
                tv = True
            if tv is False:
                raise _Raise("AssertionError")
            return
        if isinstance(st, ast.Return):
            raise _Return(self.expr(st.value, env, fi) if st.value is not None else K(None))
        if isinstance(st, ast.Raise):
            exc = st.exc
            if isinstance(exc, ast.Call):
                exc = exc.func
            av = []
            if isinstance(st.exc, ast.Call):
                av = [self.expr(a, env, fi) for a in st.exc.args]
            if isinstance(st.exc, ast.Name) and st.exc.id in env and isinstance(env[st.exc.id], Opaque) and "__args__" in env[st.exc.id].attrs:
                # `e = SomeError(args)` ... `raise e`: the instance built earlier (attributes set on it in between do not matter here)
                inst = env[st.exc.id]
                raise _Raise(inst.label, list(inst.attrs["__args__"].elts))
            raise _Raise(dump(exc) if exc is not None else "<reraise>", av)
        if isinstance(st, ast.Delete):
            for t in st.targets:
                if isinstance(t, ast.Subscript):
                    d = self.expr(t.value, env, fi)
                    k = self.expr(t.slice, env, fi)
                    if isinstance(d, D) and isinstance(k, K):
                        if k.v not in d.items:
                            raise _Raise("KeyError")
                        del d.items[k.v]
                        continue
                raise AnalysisError("del target not modelled: %s" % dump(t))
            return
        if isinstance(st, ast.Pass):
            return
        if isinstance(st, ast.Try):
            try:
                try:
                    self.block(st.body, env, fi)
                except _Raise as r:
                    for h in st.handlers:
                        types = None
                        if h.type is not None:
                            types = [dump(t).split(".")[-1] for t in (h.type.elts if isinstance(h.type, ast.Tuple) else [h.type])]
                        if exc_matches(r.name, types):
                            if h.name:
                                env[h.name] = Opaque("exception:" + r.name)
                            self.block(h.body, env, fi)
                            break
                    else:
                        raise
                else:
                    self.block(st.orelse, env, fi)
            finally:
                if st.finalbody:
                    self.block(st.finalbody, env, fi)
            return
        if isinstance(st, ast.For):
            it = self.expr(st.iter, env, fi)
            if isinstance(it, K) and isinstance(it.v, (tuple, list, str)):
                elems = [K(x) for x in it.v]
            elif isinstance(it, L):
                elems = list(it.elts)
            else:
                raise AnalysisError("for loop over %r not modelled (%s)" % (it, fi.fq))
            for x in elems:
                self.assign(st.target, x, env, fi)
                self.block(st.body, env, fi)
            self.block(st.orelse, env, fi)
            return
        if isinstance(st, ast.AugAssign):
            cur = None
            try:
                cur = self.expr(st.target, env, fi)
            except AnalysisError:
                cur = None
            v = self.expr(st.value, env, fi)
            if isinstance(cur, K) and isinstance(v, K) and isinstance(st.op, (ast.Add, ast.Sub)):
                self.assign(st.target, K(cur.v + v.v if isinstance(st.op, ast.Add) else cur.v - v.v), env, fi)
                return
            if self.lenient:
                self.assign(st.target, Sym("opaque:" + dump(st)[:60]), env, fi)
                return
            raise AnalysisError("augmented assignment not modelled: %s" % dump(st))
        if isinstance(st, ast.With) and self.lenient:
            self.block(st.body, env, fi)
            return
        raise AnalysisError("statement not modelled by the shape interpreter: %s (%s)" % (
            type(st).__name__, fi.fq))

    def assign(self, t, v, env, fi):
        if isinstance(t, ast.Name):
            env[t.id] = v
        elif isinstance(t, ast.Attribute):
            o = self.expr(t.value, env, fi)
            if isinstance(o, Opaque):
                o.attrs[t.attr] = v
                return
            if not isinstance(o, Obj):
                if self.lenient:
                    return       # store on a class / module object: irrelevant to the returned shape
                raise AnalysisError("attribute store on %r" % (o,))
            o.attrs[mangle(o.cls, t.attr) if o.cls else t.attr] = v
        elif isinstance(t, ast.Subscript):
            d = self.expr(t.value, env, fi)
            k = self.expr(t.slice, env, fi)
            if isinstance(d, D) and isinstance(k, K):
                d.items[k.v] = v
            elif isinstance(d, Sym) and getattr(d, "keys", None) is not None and isinstance(k, K):
                d.keys[k.v] = v
            elif isinstance(d, K) and (d.v is None or isinstance(d.v, (bool, int, float, str, bytes, tuple, frozenset))):
                raise _Raise("TypeError")        # item assignment on None / a number / an immutable value
            elif isinstance(d, L) and isinstance(k, K) and isinstance(k.v, int) and not isinstance(k.v, bool):
                if not (-len(d.elts) <= k.v < len(d.elts)):
                    raise _Raise("IndexError")
                d.elts[k.v] = v
            else:
                raise AnalysisError("subscript store not modelled: %s" % dump(t))
        elif isinstance(t, (ast.Tuple, ast.List)):
            if isinstance(v, K) and isinstance(v.v, tuple) and len(v.v) == len(t.elts):
                vals = [K(x) for x in v.v]
            elif isinstance(v, L) and len(v.elts) == len(t.elts):
                vals = list(v.elts)
            else:
                raise AnalysisError("unpacking %r into %s not modelled" % (v, dump(t)))
            for e2, v2 in zip(t.elts, vals):
                self.assign(e2, v2, env, fi)
        else:
            raise AnalysisError("assignment target not modelled: %s" % dump(t))

    # ---- expressions -------------------------------------------------------------
    def expr(self, e, env, fi):
        if isinstance(e, ast.Constant):
            return K(e.value)
        if isinstance(e, ast.Name):
            if e.id in env:
                return env[e.id]
            if e.id in ("None", "True", "False"):
                return K({"None": None, "True": True, "False": False}[e.id])
            if e.id in self._locals_of(fi):
                raise _Raise("UnboundLocalError")       # a local of this function read before any assignment on this path
            return self.global_value(e, fi)
        if isinstance(e, ast.Attribute):
            if isinstance(e.value, ast.Name) and e.value.id in env:
                o = env[e.value.id]
                if isinstance(o, Obj):
                    name = mangle(o.cls, e.attr) if o.cls else e.attr
                    if name not in o.attrs:
                        if self.lenient:
                            return Sym("opaque:attr:%s" % name)
                        raise AnalysisError("attribute %s of abstract object not defined" % name)
                    return o.attrs[name]
                if isinstance(o, Opaque):
                    return o.attrs.get(e.attr, Opaque("%s.%s" % (o.label, e.attr)))
                if self.lenient and isinstance(o, Sym):
                    return Sym("%s.%s" % (o.label, e.attr))        # attribute of an unknown (global / opaque) value
                raise AnalysisError("attribute %s of %r not modelled" % (e.attr, o))
            if isinstance(e.value, (ast.Attribute, ast.Call)):
                try:
                    o = self.expr(e.value, env, fi)
                except AnalysisError:
                    o = None
                if isinstance(o, Opaque):
                    return o.attrs.get(e.attr, Opaque("%s.%s" % (o.label, e.attr)))
                if isinstance(o, Sym) and e.attr == "__name__":
                    return Sym("name(%s)" % o.label, truthy=True, pytype=str)
                if isinstance(o, Sym) and o.label.startswith("fresh:uuid.") and e.attr in ("hex", "urn", "int"):
                    # one-to-one renderings of a UUID: as fresh as the UUID itself
                    return Sym("%s(%s)" % (e.attr, o.label), truthy=True, pytype=int if e.attr == "int" else str)
            return self.global_value(e, fi)
        if isinstance(e, ast.Dict):
            d = D()
            for k, v in zip(e.keys, e.values):
                kk = self.expr(k, env, fi)
                if not isinstance(kk, K):
                    raise AnalysisError("non-constant dict key")
                d.items[kk.v] = self.expr(v, env, fi)
            return d
        if isinstance(e, ast.Set):
            vals = [self.expr(x, env, fi) for x in e.elts]
            if all(isinstance(x, K) for x in vals):
                try:
                    return K(frozenset(x.v for x in vals))
                except TypeError:
                    raise _Raise("TypeError")
            raise AnalysisError("set display with non-constant members: %s" % dump(e))
        if isinstance(e, ast.List):
            return L([self.expr(x, env, fi) for x in e.elts])
        if isinstance(e, ast.Tuple):
            vals = [self.expr(x, env, fi) for x in e.elts]
            if all(isinstance(x, K) for x in vals):
                return K(tuple(x.v for x in vals))
            return L(vals)
        if isinstance(e, ast.Subscript) and isinstance(e.slice, ast.Slice):
            d = self.expr(e.value, env, fi)
            parts = [self.expr(x, env, fi) if x is not None else K(None) for x in (e.slice.lower, e.slice.upper, e.slice.step)]
            if isinstance(d, K) and all(isinstance(x, K) for x in parts):
                return K(d.v[slice(parts[0].v, parts[1].v, parts[2].v)])
            if isinstance(d, L) and all(isinstance(x, K) for x in parts):
                return L(d.elts[slice(parts[0].v, parts[1].v, parts[2].v)])
            if isinstance(d, Sym) and d.pytype in (str, bytes) and self.lenient:
                return Sym("slice(%s)" % d.label, pytype=d.pytype)      # (a part of a symbolic text: another text, possibly empty)
            raise AnalysisError("slice not modelled: %s" % dump(e))
        if isinstance(e, ast.Subscript):
            d = self.expr(e.value, env, fi)
            k = self.expr(e.slice, env, fi)
            if isinstance(d, D) and isinstance(k, K):
                if k.v not in d.items:
                    raise _Raise("KeyError")
                return d.items[k.v]
            if isinstance(d, Sym) and getattr(d, "keys", None) is not None and isinstance(k, K):
                if k.v not in d.keys:
                    raise _Raise("KeyError")
                return d.keys[k.v]
            if isinstance(d, L) and isinstance(k, K) and isinstance(k.v, int):
                try:
                    return d.elts[k.v]
                except IndexError:
                    raise _Raise("IndexError")
            if isinstance(d, K) and isinstance(k, K):
                try:
                    return K(d.v[k.v])
                except (TypeError, IndexError, KeyError) as ex:
                    raise _Raise(type(ex).__name__)
            if isinstance(d, D) and isinstance(k, (D, L)):
                raise _Raise("TypeError")
            if isinstance(d, D) and not d.items and isinstance(k, (Sym, Opaque)):
                raise _Raise("KeyError")          # nothing is in an empty dictionary
            raise AnalysisError("subscript not modelled: %s" % dump(e))
        if isinstance(e, ast.BoolOp):
            last = None
            for v in e.values:
                last = self.expr(v, env, fi)
                t = self.truth(last)
                if isinstance(e.op, ast.Or) and t:
                    return last
                if isinstance(e.op, ast.And) and not t:
                    return last
            return last
        if isinstance(e, ast.UnaryOp):
            v = self.expr(e.operand, env, fi)
            if isinstance(e.op, ast.Not):
                return K(not self.truth(v))
            if isinstance(e.op, ast.USub) and isinstance(v, K):
                return K(-v.v)
            raise AnalysisError("unary op not modelled: %s" % dump(e))
        if isinstance(e, ast.Compare):
            left = self.expr(e.left, env, fi)
            res = True
            for op, right_e in zip(e.ops, e.comparators):
                right = self.expr(right_e, env, fi)
                if self.lenient and len(e.ops) == 1 and isinstance(op, (ast.In, ast.NotIn)) and isinstance(left, K) and isinstance(left.v, str) and \
                        isinstance(right, Sym) and right.pytype is str and getattr(right, "keys", None) is None:
                    # a substring test on a text nobody knows: undecided, both outcomes are explored
                    return Sym("opaque:%r %s %s" % (left.v, "in" if isinstance(op, ast.In) else "not in", right.label))
                if self.lenient and len(e.ops) == 1 and isinstance(left, Sym) and left.label.startswith("len(") and left.truthy is True and \
                        isinstance(right, K) and right.v == 0 and type(right.v) is int and isinstance(op, (ast.Gt, ast.GtE, ast.Lt, ast.LtE, ast.Eq, ast.NotEq)):
                    return K(isinstance(op, (ast.Gt, ast.GtE, ast.NotEq)))      # len(<non-empty>) compared with 0
                if self.lenient and len(e.ops) == 1 and isinstance(op, (ast.Lt, ast.LtE, ast.Gt, ast.GtE)) and \
                        any(isinstance(x_, Sym) and x_.rep is None for x_ in (left, right)) and \
                        all(isinstance(x_, (Sym, K)) for x_ in (left, right)):
                    # an ordering test on a value nobody knows (a length, a size): undecided, both outcomes are explored
                    return Sym("opaque:%s <cmp> %s" % (getattr(left, "label", left), getattr(right, "label", right)))
                r = self.compare(op, left, right, e)
                if not r:
                    return K(False)
                left = right
            return K(res)
        if isinstance(e, ast.Call):
            return self.call(e, env, fi)
        if isinstance(e, ast.IfExp):
            if self.truth(self.expr(e.test, env, fi)):
                return self.expr(e.body, env, fi)
            return self.expr(e.orelse, env, fi)
        if isinstance(e, ast.JoinedStr):
            for v in e.values:
                if isinstance(v, ast.FormattedValue):
                    self.expr(v.value, env, fi)
            return Sym("formatted-string", truthy=True, pytype=str)
        if isinstance(e, (ast.ListComp, ast.GeneratorExp, ast.DictComp)) and len(e.generators) == 1:
            gen = e.generators[0]
            try:
                it = self.expr(gen.iter, env, fi)
            except AnalysisError:
                it = None
            elems = None
            if isinstance(it, K) and isinstance(it.v, (tuple, list)):
                elems = [K(x) for x in it.v]
            elif isinstance(it, L):
                elems = list(it.elts)
            if elems is not None:
                env2 = dict(env)
                out_l, out_d = [], {}
                for x in elems:
                    self.assign(gen.target, x, env2, fi)
                    if all(self.truth(self.expr(c, env2, fi)) for c in gen.ifs):
                        if isinstance(e, ast.DictComp):
                            kk = self.expr(e.key, env2, fi)
                            if not isinstance(kk, K):
                                raise AnalysisError("non-constant key in a dict comprehension")
                            out_d[kk.v] = self.expr(e.value, env2, fi)
                        else:
                            out_l.append(self.expr(e.elt, env2, fi))
                return D(out_d) if isinstance(e, ast.DictComp) else L(out_l)
        if isinstance(e, ast.BinOp):
            a = self.expr(e.left, env, fi)
            b = self.expr(e.right, env, fi)
            if isinstance(a, K) and isinstance(b, K) and isinstance(e.op, (ast.Add, ast.Sub, ast.Mult)):
                try:
                    if isinstance(e.op, ast.Add):
                        return K(a.v + b.v)
                    if isinstance(e.op, ast.Sub):
                        return K(a.v - b.v)
                    return K(a.v * b.v)
                except TypeError:
                    raise _Raise("TypeError")
            if self.lenient:
                return Sym("opaque:" + dump(e)[:60])
        if self.lenient and isinstance(e, (ast.BinOp, ast.JoinedStr, ast.ListComp, ast.DictComp, ast.GeneratorExp)):
            return Sym("opaque:" + dump(e)[:60])
        raise AnalysisError("expression not modelled by the shape interpreter: %s" % dump(e))

    def _locals_of(self, fi):
        """names bound somewhere in the function (assignment, loop / with / except target): locals in Python's scoping"""
        cache = getattr(fi, "_e7_locals", None)
        if cache is None:
            cache = set()
            stack = list(fi.node.body)
            while stack:
                n = stack.pop()
                if isinstance(n, (ast.FunctionDef, ast.AsyncFunctionDef, ast.ClassDef)):
                    cache.add(n.name)
                    continue
                if isinstance(n, ast.Lambda):
                    continue
                if isinstance(n, ast.Name) and isinstance(n.ctx, (ast.Store, ast.Del)):
                    cache.add(n.id)
                elif isinstance(n, ast.ExceptHandler) and n.name:
                    cache.add(n.name)
                elif isinstance(n, (ast.Global, ast.Nonlocal)):
                    pass
                elif isinstance(n, (ast.ListComp, ast.SetComp, ast.DictComp, ast.GeneratorExp)):
                    continue          # comprehension targets live in their own scope
                stack.extend(ast.iter_child_nodes(n))
            for n in ast.walk(fi.node):
                if isinstance(n, (ast.Global, ast.Nonlocal)):
                    cache -= set(n.names)
            cache -= set(fi.params)
            fi._e7_locals = cache
        return cache

    def global_value(self, e, fi):
        try:
            v = self.prog.const(fi.module, e)
        except AnalysisError:
            if isinstance(e, ast.Name) and self.prog.resolve(fi.module, e) is None and not self._enclosing_binds(fi, e.id):
                raise _Raise("NameError")       # bound neither in the function, nor in an enclosing one, nor at module level, nor a builtin
            return Sym("global:" + dump(e), truthy=True)
        if isinstance(v, str) and v.startswith("ext:") and not isinstance(e, ast.Constant):
            return Sym("global:" + dump(e), truthy=True)       # a name of another library reached through a package module: opaque
        return K(v)

    def _enclosing_binds(self, fi, name):
        o = getattr(fi, "outer", None)
        while o is not None:
            if name in o.params or name in self._locals_of(o):
                return True
            o = getattr(o, "outer", None)
        return False

    def conc(self, v):
        """concrete stand-in used for comparisons only"""
        if isinstance(v, K):
            return True, v.v
        if isinstance(v, Sym) and v.rep is not None:
            return True, v.rep
        return False, None

    def compare(self, op, a, b, e):
        if isinstance(op, (ast.In, ast.NotIn)):
            if isinstance(b, L):
                ok, av = self.conc(a)
                r = any(isinstance(x, K) and ok and x.v == av and type(x.v) is type(av) for x in b.elts) or any(x is a for x in b.elts)
                return r if isinstance(op, ast.In) else not r
            if isinstance(b, D):
                ok, av = self.conc(a)
                if not ok:
                    raise AnalysisError("membership of a symbol in a dict: %s" % dump(e))
                r = av in b.items
            elif isinstance(b, Sym) and b.pytype is dict and getattr(b, "keys", None) is not None:
                ok, av = self.conc(a)
                r = av in b.keys
            else:
                okb, bv = self.conc(b)
                oka, av = self.conc(a)
                if okb and oka:
                    try:
                        r = av in bv
                    except TypeError:
                        raise _Raise("TypeError")
                elif okb and isinstance(bv, (set, frozenset)) and isinstance(a, (D, L)):
                    raise _Raise("TypeError")        # membership in a set hashes the operand: lists / dicts are unhashable
                elif okb and isinstance(a, (Sym, D, L, Obj)):
                    # an opaque symbol / fresh container is distinct from every listed constant
                    r = False
                else:
                    raise AnalysisError("membership not modelled: %s" % dump(e))
            return r if isinstance(op, ast.In) else not r
        if isinstance(op, (ast.Is, ast.IsNot)):
            oka, av = self.conc(a)
            okb, bv = self.conc(b)
            if oka and okb:
                r = (av is bv) if (av is None or bv is None or isinstance(av, bool) or isinstance(bv, bool)) else (av == bv and type(av) is type(bv))
            elif isinstance(a, Sym) and isinstance(b, Sym):
                r = a.label == b.label
            else:
                r = False     # a symbol / fresh container is not a constant singleton
            return r if isinstance(op, ast.Is) else not r
        oka, av = self.conc(a)
        okb, bv = self.conc(b)
        if isinstance(op, (ast.Eq, ast.NotEq)):
            if oka and okb:
                r = av == bv
            elif isinstance(a, Sym) and isinstance(b, Sym) and a.label == b.label:
                r = True
            elif (isinstance(a, (Sym, D, L, Obj)) and okb) or (isinstance(b, (Sym, D, L, Obj)) and oka):
                r = False     # opaque symbol / fresh container differs from every constant in the code
            else:
                raise AnalysisError("equality not modelled: %s" % dump(e))
            return r if isinstance(op, ast.Eq) else not r
        if oka and okb:
            try:
                if isinstance(op, ast.Lt):
                    return av < bv
                if isinstance(op, ast.LtE):
                    return av <= bv
                if isinstance(op, ast.Gt):
                    return av > bv
                if isinstance(op, ast.GtE):
                    return av >= bv
            except TypeError:
                raise _Raise("TypeError")
        if isinstance(a, (D, L)) or isinstance(b, (D, L)):
            if not (isinstance(a, L) and isinstance(b, L)):
                raise _Raise("TypeError")       # ordering a container against a scalar
        raise AnalysisError("comparison of symbols not modelled: %s" % dump(e))

    def call(self, e, env, fi):
        f = e.func
        fname = dump(f)
        args = []
        for a in e.args:
            if isinstance(a, ast.Starred):
                sv = self.expr(a.value, env, fi)
                if isinstance(sv, L):
                    args.extend(sv.elts)
                elif isinstance(sv, K) and isinstance(sv.v, (tuple, str)):
                    args.extend(K(x) for x in sv.v)
                elif isinstance(sv, D):
                    args.extend(K(k) for k in sv.items)
                elif isinstance(sv, K):
                    raise _Raise("TypeError")
                elif self.lenient:
                    args.append(sv)            # an opaque sequence: kept as a whole
                else:
                    raise AnalysisError("starred argument not modelled: %s" % dump(e))
            else:
                args.append(self.expr(a, env, fi))
        kwargs = {}
        for k in e.keywords:
            kv = self.expr(k.value, env, fi)
            if k.arg is None:
                if isinstance(kv, D):
                    kwargs.update(kv.items)
                elif isinstance(kv, (K, L)):
                    raise _Raise("TypeError")
                elif self.lenient:
                    kwargs[None] = kv          # an opaque mapping: kept as a whole
                else:
                    raise AnalysisError("** argument not modelled: %s" % dump(e))
            else:
                kwargs[k.arg] = kv
        if fname == "re.sub" and len(args) == 3 and all(isinstance(a, K) and isinstance(a.v, str) for a in args) and not kwargs:
            import re as _re
            try:
                return K(_re.sub(args[0].v, args[1].v, args[2].v))     # constant folding on literals
            except _re.error:
                raise _Raise("re.error")
        if isinstance(f, ast.Call):
            # the callee is itself the result of a call (getattr(obj, name)()): evaluate it; an opaque callable is recorded
            fv = self.expr(f, env, fi)
            if isinstance(fv, Opaque):
                if not hasattr(self, "opaque_calls"):
                    self.opaque_calls = []
                self.opaque_calls.append((fv.label, "__call__", args, kwargs))
                rv = fv.attrs.get("()")
                return rv if rv is not None else Opaque("%s()" % fv.label)
        if isinstance(f, ast.Name) and f.id not in env and f.id in self._locals_of(fi):
            raise _Raise("UnboundLocalError")
        if isinstance(f, ast.Name) and f.id not in env and self.prog.resolve(fi.module, f) is None and not self._enclosing_binds(fi, f.id):
            raise _Raise("NameError")
        if fname in ("getattr", "hasattr", "setattr") and len(args) >= 2 and isinstance(args[1], (Opaque, Obj, D, L)):
            raise _Raise("TypeError")           # attribute name must be a string
        if isinstance(f, ast.Name) and f.id in env and isinstance(env[f.id], (Opaque, Sym)) and \
                self.prog.resolve(fi.module, f) is None:
            # a callable value held in a local: the call is recorded, its result is opaque
            if not hasattr(self, "opaque_calls"):
                self.opaque_calls = []
            self.opaque_calls.append((env[f.id].label, "__call__", args, kwargs))
            rv = env[f.id].attrs.get("()") if isinstance(env[f.id], Opaque) else None
            return rv if rv is not None else Opaque("%s()" % env[f.id].label)
        if isinstance(f, ast.Name) and f.id in env and isinstance(env[f.id], (K, L, D)) and self.prog.resolve(fi.module, f) is None:
            raise _Raise("TypeError")           # a constant / display is not callable
        if fname in ("getattr", "hasattr") and len(args) >= 2 and isinstance(args[0], Opaque) and isinstance(args[1], K) \
                and isinstance(args[1].v, str) and getattr(args[0], "closed", False):
            # an opaque object declared with a closed attribute set (rules building a bean): attribute presence is decided
            has = args[1].v in args[0].attrs
            if fname == "hasattr":
                return K(has)
            if has:
                return args[0].attrs[args[1].v]
            if len(args) == 3:
                return args[2]
            raise _Raise("AttributeError")
        if fname == "set" and len(args) == 1 and not kwargs and isinstance(args[0], L) and self.prog.resolve(fi.module, f) in (None, "builtin:set") and \
                all(isinstance(x, K) for x in args[0].elts):
            # a set built from a list of constants, held as a list without duplicates (membership, add and iteration are what is used)
            uniq = []
            for x in args[0].elts:
                if not any(y.v == x.v and type(y.v) is type(x.v) for y in uniq):
                    uniq.append(x)
            return L(uniq)
        if fname in ("tuple", "list") and len(args) == 1 and not kwargs and self.prog.resolve(fi.module, f) in (None, "builtin:" + fname):
            a0 = args[0]
            if isinstance(a0, K) and isinstance(a0.v, (tuple, list)):
                return K(tuple(a0.v)) if fname == "tuple" else L([K(x) for x in a0.v])
            if isinstance(a0, L) and fname == "list":
                return L(list(a0.elts))
            if isinstance(a0, K) and not isinstance(a0.v, (str, bytes, dict, set, frozenset)):
                raise _Raise("TypeError")        # tuple(5), tuple(None): not iterable
        if fname == "issubclass" and len(args) == 2 and not kwargs and isinstance(args[0], (D, L, K)) and \
                not (isinstance(args[0], K) and isinstance(args[0].v, str) and args[0].v.startswith(("type:", "class:"))):
            raise _Raise("TypeError")       # issubclass() of something that is not a class (a dict / list / scalar value)
        if fname in ("inspect.isclass", "isclass") and len(args) == 1 and not kwargs and isinstance(args[0], Opaque) and "class" in args[0].label.lower():
            return K(True)          # (the stand-in a rule uses for a class)
        if fname in ("inspect.getmro", "getmro") and len(args) == 1 and isinstance(args[0], Opaque) and "__mro__" in args[0].attrs:
            return args[0].attrs["__mro__"]         # an abstract class built by a rule carries its linearisation
        if fname == "vars" and len(args) == 1 and isinstance(args[0], Opaque) and "__dict__" in args[0].attrs and \
                self.prog.resolve(fi.module, f) in (None, "builtin:vars"):
            return args[0].attrs["__dict__"]
        if fname in ("sorted", "list", "tuple") and len(args) == 1 and not kwargs and isinstance(args[0], D) and \
                self.prog.resolve(fi.module, f) in (None, "builtin:" + fname):
            ks = list(args[0].items)            # the keys of an abstract dictionary (constants), in insertion order / sorted
            if fname == "sorted":
                try:
                    ks = sorted(ks)
                except TypeError:
                    raise _Raise("TypeError")
            return L([K(k) for k in ks])
        if fname in ("map", "sorted", "reversed", "enumerate", "zip", "filter") and isinstance(f, ast.Name) and f.id not in env and \
                self.prog.resolve(fi.module, f) in (None, "builtin:" + fname):
            # pure builtins over iterables: the result is an opaque sequence (whether they can raise is E4's question)
            return Sym("opaque:%s(...)" % fname)
        if isinstance(f, ast.Attribute) and f.attr == "join" and isinstance(f.value, ast.Constant) and isinstance(f.value.value, str) and \
                len(args) == 1 and isinstance(args[0], L) and all(isinstance(x_, K) and isinstance(x_.v, str) for x_ in args[0].elts):
            return K(f.value.value.join(x_.v for x_ in args[0].elts))        # a list of constant strings built step by step
        if isinstance(f, ast.Attribute) and f.attr == "join" and isinstance(f.value, ast.Constant) and isinstance(f.value.value, str) and \
                len(args) == 1 and not isinstance(args[0], (K, L)):
            return Sym("joined-string", pytype=str)
        if fname in ("any", "all") and len(args) == 1 and isinstance(args[0], L) and not kwargs:
            truths = [self.truth(x) for x in args[0].elts]
            return K(any(truths) if fname == "any" else all(truths))
        if fname in ("any", "all") and len(args) == 1 and not kwargs and isinstance(f, ast.Name) and f.id not in env:
            a0 = args[0]
            if isinstance(a0, K) and isinstance(a0.v, (tuple, list, str, bytes, frozenset, set, dict)):
                return K(any(a0.v) if fname == "any" else all(a0.v))
            if isinstance(a0, D):
                return K(any(a0.items) if fname == "any" else all(a0.items))      # (iterating a dictionary yields its keys)
            if isinstance(a0, Sym) and self.lenient:
                # the truth of the members of a symbolic container is not known (a non-empty list can hold only zeros): undecided
                return Sym("opaque:%s(%s)" % (fname, a0.label))
        if fname == "bool" and len(args) == 1 and not kwargs:
            return K(bool(self.truth(args[0])))
        if fname == "repr" and len(args) == 1 and not kwargs:
            a = args[0]
            if isinstance(a, K):
                return K(repr(a.v))
            return Sym("repr(%s)" % getattr(a, "label", "?"), truthy=True, pytype=str)
        if fname == "str" and len(args) == 1:
            a = args[0]
            if isinstance(a, K):
                return K(str(a.v))
            return Sym("str(%s)" % a.label, truthy=True, pytype=str)
        if fname == "float" and len(args) == 1:
            a = args[0]
            if isinstance(a, K):
                try:
                    return K(float(a.v))
                except (TypeError, ValueError) as ex:
                    raise _Raise(type(ex).__name__)
            return Sym("float(%s)" % a.label, truthy=a.truthy, rep=None if a.rep is None else float(a.rep), pytype=float)
        if fname == "int" and len(args) == 1:
            if isinstance(args[0], K):
                try:
                    return K(int(args[0].v))
                except (TypeError, ValueError) as ex:
                    raise _Raise(type(ex).__name__)
            if isinstance(args[0], (D, L, Obj, Opaque)):
                raise _Raise("TypeError")
        if fname in ("min", "max") and len(args) >= 2 and all(isinstance(a, K) for a in args):
            try:
                return K(min(a.v for a in args) if fname == "min" else max(a.v for a in args))
            except TypeError:
                raise _Raise("TypeError")
        if fname == "range" and len(args) in (1, 2) and all(isinstance(a, K) and isinstance(a.v, int) for a in args):
            return K(tuple(range(*[a.v for a in args])))
        if fname == "type" and len(args) == 1:
            if isinstance(args[0], K) and args[0].v is None:
                return K("type:NoneType")
            return Sym("type(%s)" % getattr(args[0], "label", "v"), truthy=True)
        if fname == "list" and len(args) == 1 and isinstance(args[0], L):
            return L(list(args[0].elts))
        if fname == "reversed" and len(args) == 1 and isinstance(args[0], L):
            return L(list(reversed(args[0].elts)))
        if fname == "dict" and len(args) == 1 and isinstance(args[0], L):
            dd = {}
            for pair in args[0].elts:
                pe = pair.elts if isinstance(pair, L) else ([K(x) for x in pair.v] if isinstance(pair, K) and isinstance(pair.v, tuple) else None)
                if pe is None or len(pe) != 2 or not isinstance(pe[0], K):
                    raise AnalysisError("dict() of a non-pair sequence")
                dd[pe[0].v] = pe[1]
            return D(dd)
        if fname == "dict" and len(args) == 1 and isinstance(args[0], D):
            return D(dict(args[0].items))
        if fname == "len" and len(args) == 1 and isinstance(args[0], (D, L)):
            return K(len(args[0].items) if isinstance(args[0], D) else len(args[0].elts))
        if fname == "len" and len(args) == 1 and isinstance(args[0], Sym) and self.lenient and args[0].pytype in (str, bytes, list, dict, tuple, None):
            # the length of a symbolic value: positive when the value is known to be true (a non-empty text / container)
            return Sym("len(%s)" % args[0].label, truthy=args[0].truthy, pytype=int)
        if fname == "len" and len(args) == 1 and isinstance(args[0], K):
            try:
                return K(len(args[0].v))
            except TypeError:
                raise _Raise("TypeError")
        if isinstance(f, ast.Attribute) and f.attr in ("values", "keys", "items") and not args:
            base = self.expr(f.value, env, fi)
            if isinstance(base, D):
                if f.attr == "items":
                    return L([L([K(k), v]) for k, v in base.items.items()])
                return L([K(k) for k in base.items] if f.attr == "keys" else list(base.items.values()))
        if isinstance(f, ast.Attribute) and f.attr == "popitem" and not args:
            base = self.expr(f.value, env, fi)
            if isinstance(base, D):
                if not base.items:
                    raise _Raise("KeyError")
                k0 = list(base.items)[-1]
                return L([K(k0), base.items.pop(k0)])
        if isinstance(f, ast.Attribute) and f.attr == "pop" and not kwargs and len(args) <= 1 and all(isinstance(a, K) and isinstance(a.v, int) and
                                                                                                 not isinstance(a.v, bool) for a in args) \
                and isinstance(f.value, ast.Name) and f.value.id in env:
            # list.pop() on a local list: a list of constants is held folded (K of a tuple), so the name is rebound
            cur = env[f.value.id]
            idx = args[0].v if args else -1
            if isinstance(cur, K) and isinstance(cur.v, tuple) and getattr(cur, "was_list", True):
                items = list(cur.v)
                if not items or not (-len(items) <= idx < len(items)):
                    raise _Raise("IndexError")
                got = items.pop(idx)
                env[f.value.id] = K(tuple(items))
                return K(got)
            if isinstance(cur, L):
                if not cur.elts or not (-len(cur.elts) <= idx < len(cur.elts)):
                    raise _Raise("IndexError")
                return cur.elts.pop(idx)
        if isinstance(f, ast.Attribute) and f.attr == "pop" and args and isinstance(args[0], K):
            base = self.expr(f.value, env, fi)
            if isinstance(base, D):
                if args[0].v in base.items:
                    return base.items.pop(args[0].v)
                if len(args) > 1:
                    return args[1]
                raise _Raise("KeyError")
        if isinstance(f, ast.Attribute) and f.attr == "update" and len(args) == 1:
            base = self.expr(f.value, env, fi)
            if isinstance(base, D) and isinstance(args[0], D):
                base.items.update(args[0].items)
                return K(None)
        if fname == "tuple" and len(args) == 1 and isinstance(args[0], L) and all(isinstance(x, K) for x in args[0].elts):
            return K(tuple(x.v for x in args[0].elts))
        if isinstance(f, ast.Attribute) and f.attr == "append" and len(args) == 1:
            base = self.expr(f.value, env, fi)
            if isinstance(base, L):
                base.elts.append(args[0])
                return K(None)
        if isinstance(f, ast.Attribute) and f.attr == "isEnabledFor" and ("logger" in dump(f.value).lower() or dump(f.value).lower().startswith("logging")):
            # trace-only branches are not part of the shapes computed here: what they may raise is E4's business, what they do
            # with user objects is examined by the use-classification rules (an undecided level would only fork every table)
            return K(False)
        if isinstance(f, ast.Attribute) and f.attr in ("startswith", "endswith", "lstrip", "rstrip", "strip", "lower", "upper",
                                                       "format", "split", "rpartition", "replace"):
            try:
                b0 = self.expr(f.value, env, fi)
            except AnalysisError:
                b0 = None
            if isinstance(b0, Sym) and b0.pytype in (bytes, str) and f.attr in ("startswith", "endswith", "lstrip", "rstrip", "strip", "split",
                                                                               "rpartition", "replace"):
                # text and bytes do not mix: b"...".startswith("x") / "...".strip(b" ") raise TypeError
                other = str if b0.pytype is bytes else bytes
                if any(isinstance(a, K) and isinstance(a.v, other) for a in args) or \
                        any(isinstance(a, K) and isinstance(a.v, tuple) and a.v and all(isinstance(x, other) for x in a.v) for a in args):
                    raise _Raise("TypeError")
            if isinstance(b0, K) and isinstance(b0.v, str) and all(isinstance(a, K) for a in args) and not kwargs:
                try:
                    r0 = getattr(b0.v, f.attr)(*[a.v for a in args])      # constant folding on literals
                except (ValueError, TypeError, IndexError, KeyError) as ex_:
                    raise _Raise(type(ex_).__name__)       # e.g. '{0:d}'.format(1.5): the program raises here too
                return K(tuple(r0) if isinstance(r0, list) else r0)
        if isinstance(f, ast.Attribute) and f.attr == "format":
            return Sym("formatted-string", truthy=True, pytype=str)
        if isinstance(f, ast.Attribute) and f.attr in ("add", "append") and len(args) == 1:
            b0 = self.expr(f.value, env, fi)
            if isinstance(b0, L):
                b0.elts.append(args[0])
                return K(None)
        if isinstance(f, ast.Attribute) and f.attr == "update" and len(args) == 1:
            b0 = self.expr(f.value, env, fi)
            if isinstance(b0, L) and isinstance(args[0], (K, L)):
                b0.elts.extend([K(x) for x in args[0].v] if isinstance(args[0], K) else args[0].elts)
                return K(None)
        if is_logging_call(e):
            return K(None)
        if fname == "isinstance" and len(args) == 2:
            ts = self.prog.typeset(fi.module, e.args[1])
            if ts is None and isinstance(args[1], K):
                tv = args[1].v if isinstance(args[1].v, tuple) else (args[1].v,)
                flat = []
                for x in tv:
                    flat += list(x) if isinstance(x, tuple) else [x]
                ts = set(t[5:] if isinstance(t, str) and t.startswith("type:") else t for t in flat)
            if ts is None:
                raise AnalysisError("isinstance type not folded: %s" % dump(e))
            if isinstance(args[0], Opaque):
                return K(any(str(t).endswith(args[0].label) for t in ts))
            a = args[0]
            if isinstance(a, K):
                return K(any(isinstance(a.v, TYPE_NAMES[t]) for t in ts if t in TYPE_NAMES))
            if isinstance(a, D):
                return K("dict" in ts)
            if isinstance(a, L):
                return K("list" in ts)
            if isinstance(a, Sym) and a.pytype is not None:
                return K(any(issubclass(a.pytype, TYPE_NAMES[t]) for t in ts if t in TYPE_NAMES))
            if isinstance(a, Obj):
                return K(("class:%s.%s" % (fi.module, a.cls)) in ts or a.cls in ts)
            if self.lenient and isinstance(a, Sym):
                return Sym("opaque:isinstance(%s, ...)" % a.label)        # undecided: both outcomes are explored
            raise AnalysisError("isinstance on untyped symbol %r" % (a,))
        if fname in ("uuid.uuid4", "uuid.uuid1") and not args and not kwargs:
            # (only the generators themselves: uuid.UUID(int=<something>) is as unique as its argument)
            self.fresh += 1
            return Sym("fresh:%s#%d" % (fname, self.fresh), truthy=True, pytype=str)
        if isinstance(f, ast.Attribute):
            base = self.expr(f.value, env, fi)
            if isinstance(base, Obj):
                key = "%s.%s.%s" % (fi.module, base.cls, f.attr)
                if key in self.stubs:
                    return self.stubs[key](*args, **kwargs)
                m = self.prog.mro_lookup(self.prog.classes["%s.%s" % (fi.module, base.cls)], f.attr) \
                    if "%s.%s" % (fi.module, base.cls) in self.prog.classes else None
                if m is None:
                    raise AnalysisError("method %s not found for abstract object" % f.attr)
                params = [x.arg for x in m.node.args.args if x.arg != "self"]
                bound = dict(zip(params, args))
                bound.update(kwargs)
                return self._call(m, bound, base)
            if f.attr == "get" and isinstance(base, D) and args and isinstance(args[0], K):
                return base.items.get(args[0].v, args[1] if len(args) > 1 else K(None))
            if f.attr == "get" and isinstance(base, D) and args and isinstance(args[0], (Sym, Opaque)) and \
                    not any(v_ is args[0] for v_ in base.items.values()) and all(not isinstance(k_, (Sym, Opaque)) for k_ in base.items):
                # a symbolic key is distinct from every constant key of an abstract dictionary: the default
                return args[1] if len(args) > 1 else K(None)
            if f.attr == "get" and isinstance(base, Sym) and getattr(base, "keys", None) is not None and isinstance(args[0], K):
                if args[0].v in base.keys:
                    return base.keys[args[0].v]
                return args[1] if len(args) > 1 else K(None)
            if f.attr == "setdefault" and isinstance(base, D) and args and isinstance(args[0], K):
                if args[0].v not in base.items:
                    base.items[args[0].v] = args[1] if len(args) > 1 else K(None)
                return base.items[args[0].v]
            if f.attr == "setdefault" and isinstance(base, Sym) and getattr(base, "keys", None) is not None \
                    and isinstance(args[0], K):
                if args[0].v not in base.keys:
                    base.keys[args[0].v] = args[1] if len(args) > 1 else K(None)
                return base.keys[args[0].v]
            if isinstance(base, Opaque):
                if not hasattr(self, "opaque_calls"):
                    self.opaque_calls = []
                self.opaque_calls.append((base.label, f.attr, args, kwargs))
                rv = base.attrs.get(f.attr + "()")
                if rv is not None:
                    return rv
                return Opaque("%s.%s()" % (base.label, f.attr), truthy=None)
            if isinstance(base, (K, L)) and f.attr in ("get", "keys", "values", "items"):
                raise _Raise("AttributeError")
        # package-level functions and classes
        r = self.prog.resolve(fi.module, f)
        if r in self.stubs:
            return self.stubs[r](*args, **kwargs)
        if r in self.prog.funcs:
            callee = self.prog.funcs[r]
            params = [x.arg for x in callee.node.args.args]
            bound = dict(zip(params, args))
            bound.update(kwargs)
            return self._call(callee, bound, None)
        if r in self.prog.classes:
            cname = self.prog.classes[r].name
            attrs = dict(kwargs)
            attrs["__args__"] = L(args)
            # positional arguments are the constructor's parameters too (a call may spell them either way)
            init_ = self.prog.mro_lookup(self.prog.classes[r], "__init__")
            if init_ is not None:
                for pn_, av_ in zip([x.arg for x in init_.node.args.args][1:], args):
                    attrs.setdefault(pn_, av_)
            return Opaque(cname, attrs)
        if self.lenient:
            return Sym("opaque:" + dump(e)[:60])
        raise AnalysisError("call not modelled by the shape interpreter: %s" % dump(e))


def dict_sym(label, keys):
    """A request-like dictionary with exactly the given members (abstract values)."""
    s = Sym(label, truthy=bool(keys), pytype=dict)
    s.keys = dict(keys)
    return s


def subscript_patch(ev):
    """Allow x["k"] on dict_sym values."""
    orig = ev.expr

    def expr(e, env, fi):
        if isinstance(e, ast.Subscript):
            d = orig(e.value, env, fi)
            if isinstance(d, Sym) and getattr(d, "keys", None) is not None:
                k = orig(e.slice, env, fi)
                if isinstance(k, K):
                    if k.v not in d.keys:
                        raise _Raise("KeyError")
                    return d.keys[k.v]
        return orig(e, env, fi)
    ev.expr = expr
    return ev
