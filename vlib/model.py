"""E0 -- source model of the analysed package.

Pure `ast`: nothing under /repo is imported or executed.  A `Program` is built
from a mapping {module short name -> source text}, so the self-test can feed
in-memory variants of the sources.
"""
import ast
import os

PKG = "jsonrpclib"
MODULES = ("__init__", "SimpleJSONRPCServer", "config", "history", "jsonclass",
           "jsonlib", "jsonrpc", "threadpool", "utils")


class AnalysisError(Exception):
    """The checker could not do its job (anchor vanished, unmodelled construct,
    instance count under its floor).  Exit code 2, never a violation."""


def read_sources(repo="/repo"):
    out = {}
    pkgdir = os.path.join(repo, PKG)
    if not os.path.isdir(pkgdir):
        raise AnalysisError("package directory %s is missing" % pkgdir)
    for fn in sorted(os.listdir(pkgdir)):
        if fn.endswith(".py"):
            with open(os.path.join(pkgdir, fn), encoding="utf-8") as fh:
                out[fn[:-3]] = fh.read()
    return out


def dump(node):
    """Normalised text of an AST node (position independent)."""
    if node is None:
        return "None"
    if isinstance(node, list):
        return "[" + ", ".join(dump(n) for n in node) + "]"
    return ast.unparse(node)


class FuncInfo(object):
    def __init__(self, module, qual, node, cls=None, outer=None):
        self.module = module          # short module name
        self.qual = qual              # e.g. "ServerProxy._request"
        self.node = node              # ast.FunctionDef
        self.cls = cls                # ClassInfo or None
        self.outer = outer            # enclosing FuncInfo or None
        self.name = node.name
        self.import_names = frozenset()   # names bound by module-level imports (set by Program)

    @property
    def fq(self):
        return "%s.%s" % (self.module, self.qual)

    @property
    def params(self):
        a = self.node.args
        names = [x.arg for x in a.posonlyargs + a.args]
        if a.vararg:
            names.append(a.vararg.arg)
        names += [x.arg for x in a.kwonlyargs]
        if a.kwarg:
            names.append(a.kwarg.arg)
        return names

    def loc(self, node=None):
        n = node if node is not None else self.node
        return "%s/%s.py:%s" % (PKG, self.module, getattr(n, "lineno", "?"))

    def __repr__(self):
        return "<func %s>" % self.fq


class ClassInfo(object):
    def __init__(self, module, qual, node):
        self.module = module
        self.qual = qual
        self.node = node
        self.name = node.name
        self.methods = {}
        self.bases = []   # resolved names (strings)

    @property
    def fq(self):
        return "%s.%s" % (self.module, self.qual)


def mangle(clsname, attr):
    """Class-private name mangling."""
    if attr.startswith("__") and not attr.endswith("__") and clsname:
        return "_%s%s" % (clsname.lstrip("_"), attr)
    return attr


def version_test_value(test, env=None):
    """Value of a module-level test on the interpreter version, on the Python 3 the analysis targets: True / False, or None
    when the test is about something else.  `sys.version_info[0]`, `.major`, comparisons of `sys.version_info` with a
    tuple, the PYTHON_2 / PYTHON_3 flags, combined with not / and / or and numeric literals."""
    seen = [False]

    def ev(e):
        if isinstance(e, ast.Constant) and isinstance(e.value, (int, float, bool)):
            return e.value
        if isinstance(e, ast.Tuple) and all(isinstance(x, ast.Constant) and isinstance(x.value, int) for x in e.elts):
            return tuple(x.value for x in e.elts)
        txt = dump(e)
        if txt in ("sys.version_info[0]", "sys.version_info.major"):
            seen[0] = True
            return 3
        if txt == "sys.version_info":
            seen[0] = True
            return (3, 12, 1)
        if txt in ("PYTHON_2", "PYTHON2", "utils.PYTHON_2"):
            seen[0] = True
            return False
        if txt in ("PYTHON_3", "PYTHON3", "utils.PYTHON_3"):
            seen[0] = True
            return True
        if isinstance(e, ast.Name) and env and e.id in env:
            return ev(env[e.id])           # a module-level flag defined from the interpreter version
        if isinstance(e, ast.UnaryOp) and isinstance(e.op, ast.Not):
            v = ev(e.operand)
            return None if v is None else (not v)
        if isinstance(e, ast.BoolOp):
            vs = [ev(x) for x in e.values]
            if any(v is None for v in vs):
                return None
            return all(vs) if isinstance(e.op, ast.And) else any(vs)
        if isinstance(e, ast.Compare):
            left = ev(e.left)
            for op, c in zip(e.ops, e.comparators):
                right = ev(c)
                if left is None or right is None or isinstance(left, tuple) != isinstance(right, tuple):
                    return None
                if isinstance(left, tuple):
                    left = left[:len(right)]
                try:
                    r = {ast.Lt: left < right, ast.LtE: left <= right, ast.Gt: left > right, ast.GtE: left >= right,
                         ast.Eq: left == right, ast.NotEq: left != right}.get(type(op))
                except TypeError:
                    return None
                if r is None:
                    return None
                if not r:
                    return False
                left = right
            return True
        return None
    v = ev(test)
    return bool(v) if (v is not None and seen[0]) else None


def _is_py2_test(test, env=None):
    """the test selects the Python 2 side (it is false on the analysed interpreter)"""
    return version_test_value(test, env) is False


def parse_module(name, text):
    try:
        return ast.parse(text)
    except SyntaxError as ex:
        raise AnalysisError("module %s does not parse: %s" % (name, ex))


class Module(object):
    def __init__(self, name, text, inline=True, tree=None):
        self.name = name
        self.text = text
        self.tree = tree if tree is not None else parse_module(name, text)
        self.inlined = None
        self.renamed = {}
        if inline:
            from .inline import inline_module
            self.inlined = inline_module(name, self.tree)
            from .roles import canonicalize
            self.renamed = canonicalize(name, self.tree)
        self.imports = {}     # local name -> dotted target
        self.assigns = {}     # module-level name -> value expr (last wins)
        self.top = []         # effective top-level statements (py3 branch)
        self._flatten(self.tree.body)
        for st in self.top:
            if isinstance(st, ast.Import):
                for al in st.names:
                    if al.asname:
                        self.imports[al.asname] = al.name
                    else:
                        root = al.name.split(".")[0]
                        self.imports.setdefault(root, root)
            elif isinstance(st, ast.ImportFrom):
                for al in st.names:
                    self.imports[al.asname or al.name] = "%s.%s" % (st.module, al.name)
            elif isinstance(st, ast.Assign):
                for t in st.targets:
                    if isinstance(t, ast.Name):
                        self.assigns[t.id] = st.value
                    elif isinstance(t, ast.Tuple) and isinstance(st.value, ast.Call):
                        for i, e in enumerate(t.elts):
                            if isinstance(e, ast.Name):
                                self.assigns[e.id] = ast.Subscript(
                                    value=st.value, slice=ast.Constant(i), ctx=ast.Load())

    def _flatten(self, body):
        if not hasattr(self, "_flag_env"):
            self._flag_env = {}
        for st in body:
            if isinstance(st, ast.Assign) and len(st.targets) == 1 and isinstance(st.targets[0], ast.Name):
                if st.targets[0].id in self._flag_env:
                    self._flag_env[st.targets[0].id] = ast.Constant(value=Ellipsis)      # rebound: not a flag
                else:
                    self._flag_env[st.targets[0].id] = st.value
            if isinstance(st, ast.If) and _is_py2_test(st.test, self._flag_env):
                self._flatten(st.orelse)
            elif isinstance(st, ast.If) and version_test_value(st.test, self._flag_env) is True:
                self._flatten(st.body)
            elif isinstance(st, ast.Try) and any(h.type is not None and "NameError" in dump(h.type) for h in st.handlers) and \
                    any(isinstance(x, ast.Name) and x.id in ("basestring", "unicode", "long", "xrange", "unichr", "raw_input")
                        for b in st.body for x in ast.walk(b)):
                # python 3 target: a Python 2 builtin named in the try side raises NameError, the handler's bindings are the live ones
                for h in st.handlers:
                    if h.type is not None and "NameError" in dump(h.type):
                        self._flatten(h.body)
                self._flatten(st.finalbody)
            elif isinstance(st, ast.Try):
                # python 3 target: stdlib imports of the try side succeed
                self._flatten(st.body)
                self._flatten(st.orelse)
                self._flatten(st.finalbody)
            else:
                self.top.append(st)


def _identity_param(f):
    """index of the parameter that the function returns on every returning path (it may also raise), else None"""
    rets = []
    stack = list(f.node.body)
    while stack:
        n = stack.pop()
        if isinstance(n, (ast.FunctionDef, ast.AsyncFunctionDef, ast.ClassDef, ast.Lambda)):
            continue
        if isinstance(n, ast.Return):
            rets.append(n)
        stack.extend(ast.iter_child_nodes(n))
    if not rets or not isinstance(f.node.body[-1], (ast.Return, ast.Raise)):
        return None
    names = set(dump(r.value) if r.value is not None else None for r in rets)
    if len(names) != 1:
        return None
    p = names.pop()
    if p not in f.params or isinstance(rets[0].value, ast.Name) is False:
        return None
    for n in ast.walk(f.node):
        if isinstance(n, ast.Name) and n.id == p and isinstance(n.ctx, (ast.Store, ast.Del)):
            return None
    a = f.node.args
    pos = [x.arg for x in a.posonlyargs + a.args]
    return pos.index(p) if p in pos else None


class Program(object):
    def __init__(self, sources):
        self.sources = dict(sources)
        self.modules = {}
        for name in MODULES:
            if name not in sources:
                raise AnalysisError("module %s.%s is missing" % (PKG, name))
        trees = dict((name, parse_module(name, text)) for name, text in sources.items())
        from .constprop import propagate
        self.constants_propagated = propagate(trees)
        from .flatten import flatten as _flatten_bases
        self.bases_flattened = _flatten_bases(trees)
        from .constprop import canonical_calls
        self.calls_canonicalised = canonical_calls(trees)
        from .cmexpand import expand as _expand_cms
        self.context_managers_expanded = _expand_cms(trees)
        from .inline import import_foreign_helpers
        self.foreign_helpers = import_foreign_helpers(trees)
        for name, text in sources.items():
            self.modules[name] = Module(name, text, tree=trees[name])
        self.funcs = {}    # "module.Qual.name" -> FuncInfo
        self.classes = {}  # "module.Qual" -> ClassInfo
        for m in self.modules.values():
            self._index(m, m.top, "", None, None)
        for c in self.classes.values():
            c.bases = [self.resolve(c.module, b) or dump(b) for b in c.node.bases]
        for f in self.funcs.values():
            f.import_names = frozenset(self.modules[f.module].imports)
        # identity functions: module-level functions every value-returning exit of which returns one (never rebound) parameter
        ident = {}
        for f in self.funcs.values():
            if f.cls is None and f.outer is None:
                i = _identity_param(f)
                if i is not None:
                    ident.setdefault(f.module, {})[f.name] = i
        for f in self.funcs.values():
            f.identity_callees = ident.get(f.module, {})

    # ---- indexing -------------------------------------------------------
    def _index(self, m, body, prefix, cls, outer):
        for st in body:
            if isinstance(st, (ast.FunctionDef, ast.AsyncFunctionDef)):
                qual = prefix + st.name
                fi = FuncInfo(m.name, qual, st, cls, outer)
                self.funcs[fi.fq] = fi
                if cls is not None and prefix == cls.qual + ".":
                    cls.methods[st.name] = fi
                self._index_nested(m, st.body, qual + ".<locals>.", fi)
            elif isinstance(st, ast.ClassDef):
                qual = prefix + st.name
                ci = ClassInfo(m.name, qual, st)
                self.classes[ci.fq] = ci
                self._index(m, st.body, qual + ".", ci, outer)
            elif isinstance(st, (ast.If, ast.Try)) and cls is None and outer is None:
                pass  # module level conditionals were flattened already

    def _index_nested(self, m, body, prefix, outer):
        for st in body:
            for sub in ast.walk(st) if not isinstance(st, (ast.FunctionDef, ast.ClassDef)) else [st]:
                if isinstance(sub, (ast.FunctionDef, ast.AsyncFunctionDef)):
                    fi = FuncInfo(m.name, prefix + sub.name, sub, None, outer)
                    self.funcs[fi.fq] = fi
                    self._index_nested(m, sub.body, fi.qual + ".<locals>.", fi)
                elif isinstance(sub, ast.ClassDef):
                    ci = ClassInfo(m.name, prefix + sub.name, sub)
                    self.classes[ci.fq] = ci
                    self._index(m, sub.body, ci.qual + ".", ci, outer)

    # ---- anchors --------------------------------------------------------
    def func(self, module, qual):
        fq = "%s.%s" % (module, qual)
        if fq not in self.funcs:
            raise AnalysisError("anchor vanished: function %s.%s" % (PKG, fq))
        return self.funcs[fq]

    def has_func(self, module, qual):
        return "%s.%s" % (module, qual) in self.funcs

    def cls(self, module, qual):
        fq = "%s.%s" % (module, qual)
        if fq not in self.classes:
            raise AnalysisError("anchor vanished: class %s.%s" % (PKG, fq))
        return self.classes[fq]

    def module_funcs(self, module):
        return [f for f in self.funcs.values() if f.module == module]

    # ---- name resolution --------------------------------------------------
    def resolve(self, module, expr, _depth=0):
        """Canonical dotted name of a Name/Attribute chain seen from `module`:
        'jsonrpc.dump', 'utils.DictType', 'config.DEFAULT', 'ext:queue.Queue',
        'builtin:len'; None for anything rooted in a local variable."""
        chain = []
        e = expr
        while isinstance(e, ast.Attribute):
            chain.append(e.attr)
            e = e.value
        if not isinstance(e, ast.Name):
            return None
        chain.append(e.id)
        chain.reverse()
        return self.resolve_chain(module, chain, _depth)

    def resolve_chain(self, module, chain, _depth=0):
        if _depth > 8:
            return None
        m = self.modules[module]
        root = chain[0]
        if root in m.imports:
            target = m.imports[root].split(".") + chain[1:]
            return self._resolve_abs(target, _depth + 1)
        if "%s.%s" % (module, root) in self.funcs or "%s.%s" % (module, root) in self.classes:
            return ".".join([module] + chain)
        if root in m.assigns:
            # module-level alias (e.g. Server = ServerProxy, jloads, resolve_dotted_attribute)
            val = m.assigns[root]
            if isinstance(val, (ast.Name, ast.Attribute)):
                r = self.resolve(module, val, _depth + 1)
                if r is not None:
                    return ".".join([r] + chain[1:])
            return ".".join([module] + chain)
        import builtins
        if hasattr(builtins, root) and len(chain) == 1:
            return "builtin:" + root
        return None

    def _resolve_abs(self, parts, _depth):
        if parts[0] != PKG:
            return "ext:" + ".".join(parts)
        if len(parts) == 1:
            return PKG
        if parts[1] in self.modules and parts[1] != "__init__":
            if len(parts) == 2:
                return parts[1]
            return self.resolve_chain(parts[1], parts[2:], _depth) or ".".join(parts[1:])
        # re-export through the package __init__
        return self.resolve_chain("__init__", parts[1:], _depth)

    # ---- constant folding ---------------------------------------------------
    def const(self, module, expr, _depth=0):
        """Fold a module-level constant expression to a python value made of
        str / int / float / tuple / type-name strings ('type:dict')."""
        if _depth > 12:
            raise AnalysisError("constant folding too deep")
        if isinstance(expr, str):
            m = self.modules[module]
            if expr not in m.assigns:
                raise AnalysisError("anchor vanished: constant %s.%s" % (module, expr))
            return self.const(module, m.assigns[expr], _depth + 1)
        if isinstance(expr, ast.Constant):
            return expr.value
        if isinstance(expr, (ast.Tuple, ast.List)):
            return tuple(self.const(module, e, _depth + 1) for e in expr.elts)
        if isinstance(expr, ast.BinOp) and isinstance(expr.op, ast.Add):
            a = self.const(module, expr.left, _depth + 1)
            b = self.const(module, expr.right, _depth + 1)
            return a + b
        if isinstance(expr, ast.UnaryOp) and isinstance(expr.op, ast.USub):
            return -self.const(module, expr.operand, _depth + 1)
        if isinstance(expr, ast.Call) and dump(expr) == "type(None)":
            return "type:NoneType"
        if isinstance(expr, ast.Call) and isinstance(expr.func, ast.Name) and expr.func.id in ("frozenset", "set", "tuple") and \
                len(expr.args) == 1 and not expr.keywords and isinstance(expr.args[0], (ast.Tuple, ast.List, ast.Set)) and \
                self.resolve(module, expr.func) == "builtin:" + expr.func.id:
            elems = tuple(self.const(module, e, _depth + 1) for e in expr.args[0].elts)
            return frozenset(elems) if expr.func.id in ("frozenset", "set") else elems
        if isinstance(expr, ast.Set):
            return frozenset(self.const(module, e, _depth + 1) for e in expr.elts)
        if isinstance(expr, (ast.Name, ast.Attribute)):
            r = self.resolve(module, expr)
            if r is None:
                raise AnalysisError("cannot fold %s in %s" % (dump(expr), module))
            if r.startswith("builtin:"):
                return "type:" + r[8:]
            if r.startswith("ext:"):
                return r
            mod, _, name = r.partition(".")
            if mod in self.modules and name in self.modules[mod].assigns:
                return self.const(mod, self.modules[mod].assigns[name], _depth + 1)
            if r in self.classes:
                return "class:" + r
            raise AnalysisError("cannot fold %s (-> %s) in %s" % (dump(expr), r, module))
        raise AnalysisError("cannot fold %s in %s" % (dump(expr), module))

    def typeset(self, module, expr):
        """Set of type names denoted by the second argument of isinstance()."""
        try:
            v = self.const(module, expr)
        except AnalysisError:
            return None
        if not isinstance(v, tuple):
            v = (v,)
        out = set()
        for x in v:
            if isinstance(x, tuple):
                out |= set(x)
            else:
                out.add(x)
        return set(t[5:] if isinstance(t, str) and t.startswith("type:") else t for t in out)

    # ---- class helpers --------------------------------------------------------
    def unmodelled_overrides(self):
        """New methods (not in known_functions.json) of a package class that shadow a method of one of its package base classes,
        and new package classes deriving from a package class: the rules address functions by class, so behaviour moved into an
        override / subclass would not be seen.  -> list of descriptions (empty on the tree the rules were confirmed on)"""
        from .inline import known_functions
        known = known_functions()
        out = []
        for c in self.classes.values():
            bases = [self.classes[b] for b in c.bases if b in self.classes]
            if not bases:
                continue
            kn = known.get(c.module, set())
            for m in c.methods:
                if "%s.%s" % (c.qual, m) in kn:
                    continue
                for b in bases:
                    bm = self.mro_lookup(b, m)
                    if bm is not None and not (m.startswith("__") and m.endswith("__") and m != "__init__"):
                        # (shadowing a method that is itself new takes nothing away from the functions the rules were confirmed on)
                        if bm.qual not in known.get(bm.module, set()):
                            continue
                        out.append("%s.%s.%s overrides %s" % (c.module, c.qual, m, bm.fq))
        return out

    def mro_lookup(self, cls, name):
        """Find method `name` in `cls` or its in-package bases (depth first)."""
        seen = set()
        stack = [cls]
        while stack:
            c = stack.pop(0)
            if c.fq in seen:
                continue
            seen.add(c.fq)
            if name in c.methods:
                return c.methods[name]
            for b in c.bases:
                if b in self.classes:
                    stack.append(self.classes[b])
        return None

    def resolve_call(self, fi, call):
        """Resolve the callee of `call` appearing in function `fi`:
        returns a FuncInfo, a dotted string (external / class / unresolved attr) or None."""
        f = call.func
        if isinstance(f, ast.Attribute) and isinstance(f.value, ast.Name) and f.value.id == "self" and fi.cls:
            attr = mangle(fi.cls.name, f.attr)
            m = self.mro_lookup(fi.cls, f.attr)
            if m is not None:
                return m
            return "self." + attr
        if isinstance(f, ast.Attribute) and isinstance(f.value, ast.Name):
            # Base.method(self, ...) spelled explicitly
            r = self.resolve(fi.module, f.value)
            if r in self.classes:
                m = self.mro_lookup(self.classes[r], f.attr)
                if m is not None:
                    return m
        r = self.resolve(fi.module, f)
        if r is None:
            return None
        if r in self.funcs:
            return self.funcs[r]
        if r in self.classes:
            return "class:" + r
        return r


LOGGER_METHODS = ("debug", "info", "warning", "warn", "error", "exception", "critical", "log")


def is_logging_call(call):
    """<logger>.debug/info/warning/error/exception/critical/log(...) where the receiver is spelled as a logger
    (`_logger`, `self._logger`, `logging`, `logging.getLogger(...)`).  Assumption shared by all rules: logging does not raise."""
    f = call.func
    if not (isinstance(f, ast.Attribute) and f.attr in LOGGER_METHODS):
        return False
    txt = dump(f.value).lower()
    return "logger" in txt or txt.startswith("logging")


LOGRECORD_RESERVED = frozenset((
    "name", "msg", "args", "levelname", "levelno", "pathname", "filename", "module", "exc_info", "exc_text", "stack_info", "lineno",
    "funcName", "created", "msecs", "relativeCreated", "thread", "threadName", "processName", "process", "message", "asctime", "taskName"))


def unsafe_log_extra(call):
    """the logging call passes `extra=`: anything but None / a dict display whose keys are literal strings none of which names
    a LogRecord attribute can make Logger.makeRecord raise KeyError - in the caller, outside logging's own error handling"""
    for k in call.keywords:
        if k.arg == "extra":
            v = k.value
            if isinstance(v, ast.Constant) and v.value is None:
                return False
            if isinstance(v, ast.Dict) and all(isinstance(x, ast.Constant) and isinstance(x.value, str) and x.value not in LOGRECORD_RESERVED for x in v.keys):
                return False
            return True
        if k.arg is None:
            return True
    return False


def calls_in(node):
    return [n for n in ast.walk(node) if isinstance(n, ast.Call)]


def call_name(call):
    """Last component of the callee, e.g. 'enqueue' for self.pool.enqueue(...)."""
    f = call.func
    if isinstance(f, ast.Attribute):
        return f.attr
    if isinstance(f, ast.Name):
        return f.id
    return None


def kwarg(call, name, pos=None):
    for k in call.keywords:
        if k.arg == name:
            return k.value
    if pos is not None and pos < len(call.args) and not any(isinstance(a, ast.Starred) for a in call.args[:pos + 1]):
        return call.args[pos]
    return None
