"""Verdicts must not depend on the iteration order of sets of strings: every entry point re-executes itself once with a
fixed PYTHONHASHSEED (the analyses sort wherever they choose among alternatives; this is the belt to those braces)."""
import os
import sys


def ensure():
    if os.environ.get("PYTHONHASHSEED") != "0":
        env = dict(os.environ)
        env["PYTHONHASHSEED"] = "0"
        os.execve(sys.executable, [sys.executable] + sys.argv, env)
