"""E0b -- canonical names for class-private fields.

The rules name a handful of class-private fields (`self.__nb_threads`, `self.__request_pool`, ...).  A private field can be
renamed freely without changing behaviour, so before analysis each such field is *found by the role it plays* (the field
incremented where a task is queued, the field that receives the `thread_pool` parameter, ...) and, when it carries another
name, renamed in the AST of its class to the canonical one.  Rules, reports and the E4 attribute table then speak about the
canonical name.  Only double-underscore fields are handled (anything else is visible outside its class).  A role that cannot
be found, or that is ambiguous, renames nothing: the rules that depend on it then fail with their own anchor errors.
"""
import ast

# module -> class -> canonical field -> (method, kind, detail)
#   kind "param":  `self.F = <param detail>` in the method (plain assignment of that parameter)
#   kind "inc":    the only `self.F += 1` in the method
#   kind "ctor":   `self.F = <call whose dotted name ends with detail>` in the method
ROLES = {
    "threadpool": {
        "EventData": {
            "__event": ("__init__", "ctor", ("Event",)),
        },
        "FutureResult": {
            "__lock": ("__init__", "ctor", ("Lock", "RLock")),
            "__callback": ("set_callback", "param", 0),
            "__extra": ("set_callback", "param", 1),
        },
        "ThreadPool": {
            "__lock": ("__init__", "ctor", ("Lock", "RLock")),
            "__nb_pending_task": ("enqueue", "inc", None),
            "__nb_active_threads": ("__run", "inc", None),
            "__nb_threads": ("__start_thread", "inc", None),
        },
    },
    "SimpleJSONRPCServer": {
        "SimpleJSONRPCDispatcher": {
            "__notification_pool": ("set_notification_pool", "param", 0),
        },
        "PooledJSONRPCServer": {
            "__request_pool": ("__init__", "pool", None),
        },
    },
}


def _self_attr_target(t):
    return t.attr if isinstance(t, ast.Attribute) and isinstance(t.value, ast.Name) and t.value.id == "self" else None


def _own_nodes(fn):
    """nodes of a function body, nested function / class bodies excluded"""
    stack = list(fn.body)
    while stack:
        n = stack.pop()
        yield n
        if isinstance(n, (ast.FunctionDef, ast.AsyncFunctionDef, ast.ClassDef, ast.Lambda)):
            continue
        stack.extend(ast.iter_child_nodes(n))


def _find(fn, kind, detail):
    found = set()
    params = [a.arg for a in fn.args.posonlyargs + fn.args.args][1:]
    for n in _own_nodes(fn):
        if kind == "inc" and isinstance(n, ast.AugAssign) and isinstance(n.op, ast.Add) and isinstance(n.value, ast.Constant) \
                and n.value.value == 1 and _self_attr_target(n.target):
            found.add(n.target.attr)
        elif kind == "param" and isinstance(n, ast.Assign) and len(n.targets) == 1 and _self_attr_target(n.targets[0]) \
                and isinstance(n.value, ast.Name) and detail < len(params) and n.value.id == params[detail]:
            found.add(n.targets[0].attr)
        elif kind == "ctor" and isinstance(n, ast.Assign) and len(n.targets) == 1 and _self_attr_target(n.targets[0]) \
                and isinstance(n.value, ast.Call):
            f = n.value.func
            nm = f.attr if isinstance(f, ast.Attribute) else (f.id if isinstance(f, ast.Name) else None)
            if nm in detail:
                found.add(n.targets[0].attr)
        elif kind == "pool" and isinstance(n, ast.Assign) and len(n.targets) == 1 and _self_attr_target(n.targets[0]):
            # the field receiving the `thread_pool` parameter (directly, or through `x if x is not None else <default>`)
            if any(isinstance(x, ast.Name) and x.id == "thread_pool" for x in ast.walk(n.value)):
                found.add(n.targets[0].attr)
    return found


def _used_outside(tree, cls, attr):
    """an attribute of that name is mentioned in the module outside the class (a protected field other code may rely on)"""
    inside = set(id(n) for n in ast.walk(cls))
    return any(isinstance(n, ast.Attribute) and n.attr == attr and id(n) not in inside for n in ast.walk(tree))


class _Rename(ast.NodeTransformer):
    def __init__(self, mapping):
        self.mapping = mapping

    def visit_Attribute(self, node):
        self.generic_visit(node)
        if isinstance(node.value, ast.Name) and node.value.id == "self" and node.attr in self.mapping:
            node.attr = self.mapping[node.attr]
        return node


def canonicalize(module_name, tree):
    """Rename role-identified private fields to their canonical names (in place).  -> {class: {current: canonical}}"""
    done = {}
    for cls in [n for n in tree.body if isinstance(n, ast.ClassDef)]:
        roles = ROLES.get(module_name, {}).get(cls.name)
        if not roles:
            continue
        methods = dict((m.name, m) for m in cls.body if isinstance(m, ast.FunctionDef))
        used = set(n.attr for n in ast.walk(cls) if isinstance(n, ast.Attribute) and isinstance(n.value, ast.Name) and n.value.id == "self")
        mapping = {}
        for canon, (meth, kind, detail) in roles.items():
            if meth not in methods:
                continue
            found = set(f for f in _find(methods[meth], kind, detail) if (f.startswith("__") and not f.endswith("__")) or
                        (f.startswith("_") and not f.startswith("__") and not _used_outside(tree, cls, f)))
            if len(found) != 1:
                continue
            cur = found.pop()
            if cur != canon:
                mapping[cur] = canon
        # refuse anything that is not a clean permutation-free renaming
        if mapping and (len(set(mapping.values())) != len(mapping) or any(c in used and c not in mapping for c in mapping.values())):
            continue
        if mapping:
            _Rename(mapping).visit(cls)
            done[cls.name] = mapping
    return done
