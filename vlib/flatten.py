"""Normaliser pass: a new base class carved out of a known class is folded back into it.

A clean-up commit may move part of a class into a new private base (`class FutureResult(_CallbackSlot)`), the derived class
being its only user.  The rules (and E5's per-class lock analysis) work on one class: when a class the rules know gains a
base that is new with respect to vlib/known_functions.json, is defined in the same module, has no base of its own other
than `object` and no other subclass, the base's methods and class attributes are moved into the derived class, its
`__init__` body replaces the explicit base-constructor call, and its class-private names are spelled out with the name
Python mangles them to (`self.__lock` inside `_CallbackSlot` is `self._CallbackSlot__lock`, a field distinct from the
derived class's own `self.__lock`)."""
import ast
import copy

from .inline import known_functions


def _is_private(nm):
    return nm.startswith("__") and not nm.endswith("__")


class _Mangle(ast.NodeTransformer):
    def __init__(self, cname):
        self.prefix = "_" + cname.lstrip("_")

    def visit_Attribute(self, node):
        self.generic_visit(node)
        if _is_private(node.attr):
            node.attr = self.prefix + node.attr
        return node


class _Unmangle(ast.NodeTransformer):
    def __init__(self, cname):
        self.prefix = "_" + cname.lstrip("_") + "__"

    def _un(self, nm):
        if nm.startswith(self.prefix) and not nm.endswith("__") and len(nm) > len(self.prefix):
            return "__" + nm[len(self.prefix):]
        return nm

    def visit_Attribute(self, node):
        self.generic_visit(node)
        node.attr = self._un(node.attr)
        return node

    def visit_FunctionDef(self, node):
        self.generic_visit(node)
        node.name = self._un(node.name)
        return node


class _Subst(ast.NodeTransformer):
    def __init__(self, mapping):
        self.mapping = mapping

    def visit_Name(self, node):
        if isinstance(node.ctx, ast.Load) and node.id in self.mapping:
            return ast.copy_location(copy.deepcopy(self.mapping[node.id]), node)
        return node


def _plain(e):
    while isinstance(e, ast.Attribute):
        e = e.value
    return isinstance(e, (ast.Name, ast.Constant))


def flatten(trees):
    known = known_functions()
    done = {}
    for mname, tree in trees.items():
        kn = known.get(mname, set())
        classes = dict((c.name, c) for c in tree.body if isinstance(c, ast.ClassDef))
        for K in list(classes.values()):
            if not any(k.startswith(K.name + ".") for k in kn):
                continue
            for bi, b in enumerate(list(K.bases)):
                if not (isinstance(b, ast.Name) and b.id in classes):
                    continue
                B = classes[b.id]
                if any(k.startswith(B.name + ".") for k in kn) or B is K:
                    continue
                if any(not (isinstance(x, ast.Name) and x.id == "object") for x in B.bases) or B.keywords or B.decorator_list:
                    continue
                users = [c for t in trees.values() for c in ast.walk(t) if isinstance(c, ast.ClassDef) and
                         any(isinstance(x, ast.Name) and x.id == B.name for x in c.bases)]
                other_refs = [n for t in trees.values() for n in ast.walk(t) if isinstance(n, ast.Name) and n.id == B.name and
                              not any(n is x for x in K.bases)]
                if len(users) != 1:
                    continue
                Bm = copy.deepcopy(B)
                _Mangle(B.name).visit(Bm)
                k_names = set(m.name for m in K.body if isinstance(m, ast.FunctionDef)) | \
                    set(t.id for st in K.body if isinstance(st, ast.Assign) for t in st.targets if isinstance(t, ast.Name))
                b_init = next((m for m in Bm.body if isinstance(m, ast.FunctionDef) and m.name == "__init__"), None)
                k_init = next((m for m in K.body if isinstance(m, ast.FunctionDef) and m.name == "__init__"), None)
                # the explicit base-constructor call in K.__init__
                ok = True
                inherit_init = b_init is not None and k_init is None
                if b_init is not None and not inherit_init:
                    if b_init.args.vararg or b_init.args.kwarg or b_init.args.kwonlyargs:
                        continue
                    site = None
                    for i, st in enumerate(k_init.body):
                        c = st.value if isinstance(st, ast.Expr) else None
                        if isinstance(c, ast.Call) and isinstance(c.func, ast.Attribute) and c.func.attr == "__init__":
                            recv = c.func.value
                            args = list(c.args)
                            if isinstance(recv, ast.Name) and recv.id == B.name and args and isinstance(args[0], ast.Name) and args[0].id == "self":
                                site, cargs = i, args[1:]
                            elif isinstance(recv, ast.Call) and isinstance(recv.func, ast.Name) and recv.func.id == "super":
                                site, cargs = i, args
                            if site is not None:
                                ckw = dict((k.arg, k.value) for k in c.keywords if k.arg)
                                break
                    if site is None:
                        continue
                    params = [a.arg for a in b_init.args.args][1:]
                    defaults = [None] * (len(params) - len(b_init.args.defaults)) + list(b_init.args.defaults)
                    bound = {}
                    for p, a in zip(params, cargs):
                        bound[p] = a
                    for p, d in zip(params, defaults):
                        if p not in bound:
                            if p in ckw:
                                bound[p] = ckw[p]
                            elif d is not None:
                                bound[p] = d
                            else:
                                ok = False
                    if not ok or not all(_plain(v) for v in bound.values()):
                        continue
                    body = [st for st in b_init.body if not (isinstance(st, ast.Expr) and isinstance(st.value, ast.Constant))]
                    if any(isinstance(x, ast.Return) for st in body for x in ast.walk(st)):
                        continue
                    body = [_Subst(bound).visit(st) for st in body]
                    k_init.body[site:site + 1] = body or [ast.Pass()]
                clash = False
                moved = []
                for st in Bm.body:
                    if isinstance(st, ast.FunctionDef):
                        if st.name == "__init__" and not inherit_init:
                            continue
                        if st.name in k_names:
                            clash = True
                        moved.append(st)
                    elif isinstance(st, ast.Assign):
                        if any(isinstance(t, ast.Name) and t.id in k_names for t in st.targets):
                            clash = True
                        moved.append(st)
                    elif isinstance(st, ast.Expr) and isinstance(st.value, ast.Constant):
                        continue
                    elif isinstance(st, ast.Pass):
                        continue
                    else:
                        clash = True
                if clash:
                    continue        # (an override: the hierarchy matters, left as it is)
                K.body.extend(moved)
                K.bases[bi] = ast.Name(id="object", ctx=ast.Load())
                # names the base spelled in K's mangled form by hand (`self._K__x`) are K's own private names (`self.__x`)
                _Unmangle(K.name).visit(K)
                other_refs = [n for t in trees.values() for n in ast.walk(t) if isinstance(n, ast.Name) and n.id == B.name]
                if not other_refs:
                    tree.body = [x for x in tree.body if x is not B]
                ast.fix_missing_locations(tree)
                done.setdefault(mname, []).append("%s <- %s" % (K.name, B.name))
    return done
