"""Query helpers shared by the rule modules."""
import ast
from .model import AnalysisError, dump, kwarg, call_name, FuncInfo, mangle
from .cfg import cfg_of, node_calls, node_exprs
from . import prov


def loc(fi, node_or_ast):
    ln = getattr(node_or_ast, "lineno", None)
    return "jsonrpclib/%s.py:%s" % (fi.module, ln if ln is not None else "?")


def fn(fi):
    return "%s.%s" % (fi.module, fi.qual)


def call_sites(prog, fi, pred):
    """[(cfg node, call)] in fi for calls whose resolved callee satisfies pred(resolved, call)."""
    g = cfg_of(fi)
    out = []
    for n in g.live_nodes():
        for c in node_calls(n):
            if pred(prog.resolve_call(fi, c), c):
                out.append((n, c))
    return out


def is_func(resolved, fq):
    return isinstance(resolved, FuncInfo) and resolved.fq == fq


def all_call_sites(prog, pred, modules=None):
    out = []
    for fi in prog.funcs.values():
        if modules and fi.module not in modules:
            continue
        for (n, c) in call_sites(prog, fi, pred):
            out.append((fi, n, c))
    return out


def arg_expr(call, name, pos, callee=None):
    """expression bound to parameter `name` (keyword or position `pos`) at `call`."""
    return kwarg(call, name, pos)


def arg_origin(fi, node, call, name, pos):
    e = kwarg(call, name, pos)
    if e is None:
        return None
    return prov.origin(cfg_of(fi), node, e)


def self_attr(term, attr=None):
    """term is self.<attr>"""
    return term[0] == "attr" and term[1] == ("param", "self") and (attr is None or term[2] == attr)


def is_param(name):
    return lambda t: t == ("param", name)


def const_str(e):
    return e.value if isinstance(e, ast.Constant) and isinstance(e.value, str) else None


def stmt_text(node):
    if hasattr(node, "text"):
        return node.text
    return dump(node.ast).split("\n")[0][:90] if node.ast is not None else node.kind


def returns_none_literal(ret_node):
    a = ret_node.ast
    if a is None:
        return True     # implicit return
    return a.value is None or (isinstance(a.value, ast.Constant) and a.value.value is None)


def enclosing_handler_chain(g, node):
    """handler nodes whose body (lexically) contains `node`: found by walking ast of handlers."""
    out = []
    for h in g.live_nodes():
        if h.kind == "handler":
            for sub in ast.walk(h.ast):
                if sub is node.ast:
                    out.append(h)
                    break
    return out


def handler_types(h):
    t = h.ast.type
    if t is None:
        return None
    if isinstance(t, ast.Tuple):
        return [dump(x) for x in t.elts]
    return [dump(t)]


def try_body_contains(try_ast, target_ast):
    for st in try_ast.body:
        for sub in ast.walk(st):
            if sub is target_ast:
                return True
    return False


def subnodes(e, cls):
    return [n for n in ast.walk(e) if isinstance(n, cls)]


def return_sources(fi):
    """The places where a function's results are computed: for `return E` the pair (return node, E); for `return name`
    where every definition of `name` reaching the return is a plain `name = E'` statement, the pairs (that statement's
    node, E') instead (the `result = ...; return result` idiom), transitively.  Implicit returns give (node, None)."""
    g = cfg_of(fi)
    rd = prov.rd_of(g)
    out = []
    seen = set()

    def expand(n, e, depth):
        if isinstance(e, ast.Name) and depth < 4:
            ds = rd.get(n.id, {}).get(e.id)
            if ds and g.entry.id not in ds:
                srcs = []
                for d in ds:
                    dn = g.nodes[d]
                    a = dn.ast
                    if dn.kind == "stmt" and isinstance(a, ast.Assign) and len(a.targets) == 1 and \
                            isinstance(a.targets[0], ast.Name) and a.targets[0].id == e.id:
                        srcs.append((dn, a.value))
                    else:
                        srcs = None
                        break
                if srcs:
                    for (dn, v) in srcs:
                        expand(dn, v, depth + 1)
                    return
        if (n.id, id(e)) not in seen:
            seen.add((n.id, id(e)))
            out.append((n, e))
    for n in g.live_nodes():
        if n.kind == "return":
            v = n.ast.value if n.ast is not None else None
            if v is None:
                out.append((n, None))
            else:
                expand(n, v, 0)
    return out


def is_none_expr(e):
    return e is None or (isinstance(e, ast.Constant) and e.value is None)


def guards_of(g, node, dom=None):
    """[(test expression, polarity)] of the branches dominating `node`; a branch on a flag local that has a single definition
    `flag = <test>` / `flag = bool(<test>)` is reported with that test (the normaliser introduces such flags)"""
    from .flow import dominators
    dom = dom or dominators(g)
    rd = prov.rd_of(g)
    out = []
    for d in dom[node.id]:
        b = g.nodes[d]
        if b.kind != "branch":
            continue
        t = b.test
        if isinstance(t, ast.Name):
            ds = rd.get(b.id, {}).get(t.id, frozenset())
            dn = [g.nodes[i] for i in ds]
            if len(dn) == 1 and dn[0].kind == "stmt" and isinstance(dn[0].ast, ast.Assign):
                v = dn[0].ast.value
                if isinstance(v, ast.Call) and isinstance(v.func, ast.Name) and v.func.id == "bool" and len(v.args) == 1:
                    v = v.args[0]
                if isinstance(v, (ast.Compare, ast.BoolOp, ast.UnaryOp, ast.Call)):
                    t = v
        out.append((t, b.polarity))
    return out


def mapped_sequence(g, node, e):
    """`e` denotes [ELT for T in ITER]: a comprehension / generator, or a local bound to `[]` and filled only by
    `e.append(ELT)` as the single statement of `for T in ITER:`.  -> (ITER, T, ELT) expressions, or None"""
    if isinstance(e, (ast.GeneratorExp, ast.ListComp)) and len(e.generators) == 1 and not e.generators[0].ifs:
        return e.generators[0].iter, e.generators[0].target, e.elt
    if isinstance(e, ast.Name):
        defs = prov.rd_of(g).get(node.id, {}).get(e.id, ())
        dn = [g.nodes[i] for i in defs]
        if len(dn) == 1 and dn[0].kind == "stmt" and isinstance(dn[0].ast, ast.Assign) and isinstance(dn[0].ast.value, (ast.GeneratorExp, ast.ListComp)):
            return mapped_sequence(g, dn[0], dn[0].ast.value)       # a local bound to the comprehension itself
        if len(dn) == 1 and dn[0].kind == "stmt" and isinstance(dn[0].ast, ast.Assign) and dump(dn[0].ast.value) in ("[]", "list()"):
            apps = [(n, c) for n in g.live_nodes() for c in node_calls(n) if dump(c.func) == e.id + ".append"]
            other = [n for n in g.live_nodes() for c in node_calls(n) if isinstance(c.func, ast.Attribute) and dump(c.func.value) == e.id
                     and c.func.attr not in ("append",) and n.id != node.id]
            if len(apps) == 1 and not other and len(apps[0][1].args) == 1:
                n, c = apps[0]
                loops = [l for l in g.live_nodes() if l.kind == "for_body" and any(sub is n.ast for st_ in l.ast.body for sub in ast.walk(st_))]
                if len(loops) == 1 and len(loops[0].ast.body) == 1 and not loops[0].ast.orelse:
                    return loops[0].ast.iter, loops[0].ast.target, c.args[0]
    return None
