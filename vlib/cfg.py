"""E1 -- statement-level control-flow graph with exception edges.

Node kinds
  entry, return_exit, raise_exit
  stmt        simple statement (Assign, AugAssign, Expr, Delete, Assert, Pass, Import, def, class ...)
  return      `return [expr]`            -> (finally copies) -> return_exit
  raise       `raise [expr]`             -> exception target
  test        evaluation of one atomic condition; successors are two `branch` nodes
  branch      .test (expr) / .polarity   (explicit node for each outcome, so that
              dominance "by the false edge of a guard" is dominance by a node)
  iter        evaluation of the iterable of a `for`
  for         loop head; successors `for_body` (binds the target) and `for_exit`
  with_enter / with_exit
  dispatch    exception dispatch of a `try`: .handlers [(type exprs|None, handler node)], .outer
  handler     `except` clause entry (binds the name)
  join        no-op merge point

`finally` bodies are duplicated per continuation (normal, exceptional, and one
per return/break/continue leaving the try).  Locks are tracked lexically:
node.withs is the tuple of `with` context expressions (normalised text)
enclosing the node, plus X for the idiom `X.acquire(); try: ... finally: X.release()`.
"""
import ast
from .model import unsafe_log_extra, AnalysisError, dump, is_logging_call

CATCH_ALL = ("Exception", "BaseException")


class Node(object):
    __slots__ = ("id", "kind", "ast", "withs", "lineno", "test", "polarity",
                 "handlers", "outer", "defs", "raises", "stmt", "tries")

    def __init__(self, nid, kind, astnode=None, withs=(), tries=()):
        self.id = nid
        self.kind = kind
        self.ast = astnode
        self.withs = withs
        self.tries = tries      # ids of the enclosing Try statements (lexical)
        self.lineno = getattr(astnode, "lineno", None)
        self.test = None
        self.polarity = None
        self.handlers = None
        self.outer = None
        self.defs = ()
        self.raises = False
        self.stmt = None        # enclosing statement for test/branch nodes

    def __repr__(self):
        txt = ""
        if self.kind == "branch":
            txt = "%s is %s" % (dump(self.test), self.polarity)
        elif self.ast is not None and self.kind not in ("for", "with_enter", "with_exit", "handler", "dispatch"):
            txt = dump(self.ast).split("\n")[0][:70]
        elif self.kind in ("for", "handler", "with_enter"):
            txt = dump(self.ast).split("\n")[0][:70]
        return "<%d %s L%s %s>" % (self.id, self.kind, self.lineno, txt)


def _names_bound(target):
    out = []
    if target is None:
        return out
    if isinstance(target, ast.Name):
        out.append(target.id)
    elif isinstance(target, (ast.Tuple, ast.List)):
        for e in target.elts:
            out += _names_bound(e)
    elif isinstance(target, ast.Starred):
        out += _names_bound(target.value)
    return out


def _is_self_attr(e):
    return isinstance(e, ast.Attribute) and isinstance(e.value, ast.Name) and e.value.id == "self"


_IMPORTS = frozenset()       # import names of the module of the function being built (set by CFG.__init__)
_TOTAL_BUILTINS = ("isinstance", "type", "callable", "id")


def _module_attr(n):
    """attribute chain rooted at a module-level import name (utils.DictType, jsonrpclib.config.DEFAULT)"""
    while isinstance(n, ast.Attribute):
        n = n.value
    return isinstance(n, ast.Name) and n.id in _IMPORTS


def _is_exc_info(n):
    return isinstance(n, ast.Call) and dump(n.func) == "sys.exc_info" and not n.args and not n.keywords


def expr_may_raise(e):
    """Conservative default: an expression may raise if it contains a call (other than the total
    builtins isinstance/type/callable/id), a subscript, an attribute load on a value other than self
    or an imported module, arithmetic, a comparison other than is / is not, or a yield."""
    if e is None:
        return False
    skip = set()
    for n in ast.walk(e):
        if id(n) in skip:
            continue
        if isinstance(n, ast.Call) and isinstance(n.func, ast.Name) and n.func.id in _TOTAL_BUILTINS and not n.keywords:
            skip.add(id(n.func))
            continue
        if isinstance(n, ast.Call) and is_logging_call(n):
            if unsafe_log_extra(n):
                return True        # Logger.makeRecord raises KeyError for an `extra` key that names a LogRecord attribute
            for sub in ast.walk(n.func):
                skip.add(id(sub))
            continue
        if isinstance(n, ast.Subscript) and _is_exc_info(n.value) and isinstance(n.slice, ast.Constant) and n.slice.value in (0, 1, 2, -1, -2, -3):
            skip.update(id(sub) for sub in ast.walk(n))      # sys.exc_info()[k]: a tuple of three
            continue
        if _is_exc_info(n):
            skip.update(id(sub) for sub in ast.walk(n))
            continue
        if isinstance(n, ast.Attribute) and n.attr in ("__name__", "__qualname__") and isinstance(n.value, ast.Call) and \
                isinstance(n.value.func, ast.Name) and n.value.func.id == "type" and len(n.value.args) == 1 and not n.value.keywords:
            skip.add(id(n.value.func))      # type(x).__name__: every class has a name
            skip.add(id(n.value))
            continue
        if isinstance(n, (ast.Call, ast.Subscript, ast.BinOp, ast.Yield, ast.YieldFrom, ast.Await,
                          ast.Starred, ast.JoinedStr)):
            return True
        if isinstance(n, ast.Attribute) and _module_attr(n):
            for sub in ast.walk(n):
                skip.add(id(sub))
            continue
        if isinstance(n, ast.Attribute) and not _is_self_attr(n):
            return True
        if isinstance(n, ast.Compare) and not all(isinstance(o, (ast.Is, ast.IsNot)) for o in n.ops):
            return True
        if isinstance(n, ast.UnaryOp) and not isinstance(n.op, ast.Not):
            return True
    return False


def stmt_may_raise(st):
    if isinstance(st, ast.withitem):
        return True
    if isinstance(st, (ast.Pass, ast.Global, ast.Nonlocal, ast.FunctionDef, ast.ClassDef, ast.Break, ast.Continue)):
        return False
    if isinstance(st, ast.Assert):
        return expr_may_raise(st.test)       # the invariant itself is assumed (see DESIGN 10.7); its test may raise
    if isinstance(st, (ast.Import, ast.ImportFrom, ast.Delete)):
        return True
    if isinstance(st, ast.Assign):
        if expr_may_raise(st.value):
            return True
        for t in st.targets:
            if isinstance(t, ast.Name) or _is_self_attr(t):
                continue
            return True   # unpacking, subscript store, attribute store on non-self
        return False
    if isinstance(st, ast.AugAssign):
        return True if not (isinstance(st.target, ast.Name) or _is_self_attr(st.target)) else True
    if isinstance(st, ast.AnnAssign):
        return expr_may_raise(st.value)
    if isinstance(st, ast.Expr):
        if isinstance(st.value, ast.Constant):
            return False
        return expr_may_raise(st.value)
    if isinstance(st, ast.Return):
        return expr_may_raise(st.value)
    if isinstance(st, ast.Raise):
        return True
    return True


class _Frame(object):
    def __init__(self, kind, parent, **kw):
        self.kind = kind      # func | loop | finally | try
        self.parent = parent
        self.__dict__.update(kw)


class CFG(object):
    def __init__(self, fi, may_raise=None):
        self.fi = fi
        self.nodes = []
        self.succ = {}
        self.pred = {}
        self._may_raise_stmt = may_raise or stmt_may_raise
        global _IMPORTS
        _IMPORTS = getattr(fi, "import_names", frozenset())
        self.entry = self._new("entry", fi.node)
        self.entry.defs = tuple(fi.params)
        self.return_exit = self._new("return_exit")
        self.raise_exit = self._new("raise_exit")
        self._try_counter = 0
        root = _Frame("func", None)
        fr = self._block(fi.node.body, [(self.entry.id, "n")], root, (), ())
        # falling off the end: implicit `return None`
        if fr:
            imp = self._new("return", None)
            self._connect(fr, imp.id)
            self._edge(imp.id, self.return_exit.id, "n")
        self._prune()

    # ---- construction helpers ---------------------------------------------
    def _new(self, kind, astnode=None, withs=(), tries=()):
        n = Node(len(self.nodes), kind, astnode, withs, tries)
        self.nodes.append(n)
        self.succ[n.id] = []
        self.pred[n.id] = []
        return n

    def _edge(self, a, b, label):
        if (b, label) not in self.succ[a]:
            self.succ[a].append((b, label))
            self.pred[b].append((a, label))

    def _connect(self, frontier, target):
        for (a, label) in frontier:
            self._edge(a, target, label)

    def _exc_target(self, frame):
        f = frame
        while f is not None:
            if f.kind == "try":
                return f.dispatch.id
            if f.kind == "finally":
                if f.exc_copy is None:
                    j = self._new("join", f.stmt, f.withs, f.tries)
                    f.exc_copy = j
                    fr = self._block(f.finalbody, [(j.id, "n")], f.parent, f.withs, f.tries)
                    if fr:
                        rr = self._new("join", f.stmt, f.withs, f.tries)   # re-raise point
                        self._connect(fr, rr.id)
                        self._edge(rr.id, self._exc_target(f.parent), "exc")
                return f.exc_copy.id
            f = f.parent
        return self.raise_exit.id

    def _jump(self, kind, frontier, frame):
        """Route `frontier` out of the enclosing constructs for return/break/continue."""
        f = frame
        while f is not None:
            if f.kind == "finally":
                frontier = self._block(f.finalbody, frontier, f.parent, f.withs, f.tries)
                if not frontier:
                    return
            elif f.kind == "loop" and kind in ("break", "continue"):
                self._connect(frontier, f.brk if kind == "break" else f.cont)
                return
            elif f.kind == "func":
                if kind != "return":
                    raise AnalysisError("%s outside loop in %s" % (kind, self.fi.fq))
                self._connect(frontier, self.return_exit.id)
                return
            f = f.parent

    def _raising(self, node, frame):
        node.raises = True
        self._edge(node.id, self._exc_target(frame), "exc")

    # ---- conditions ---------------------------------------------------------
    def _cond(self, e, frontier, frame, withs, tries, stmt):
        if isinstance(e, ast.BoolOp):
            if isinstance(e.op, ast.And):
                t, f_all = frontier, []
                for v in e.values:
                    t, f = self._cond(v, t, frame, withs, tries, stmt)
                    f_all += f
                return t, f_all
            else:
                f, t_all = frontier, []
                for v in e.values:
                    t, f = self._cond(v, f, frame, withs, tries, stmt)
                    t_all += t
                return t_all, f
        if isinstance(e, ast.UnaryOp) and isinstance(e.op, ast.Not):
            t, f = self._cond(e.operand, frontier, frame, withs, tries, stmt)
            return f, t
        if isinstance(e, ast.Constant):
            return (frontier, []) if e.value else ([], frontier)
        tn = self._new("test", e, withs, tries)
        tn.stmt = stmt
        self._connect(frontier, tn.id)
        if expr_may_raise(e):
            self._raising(tn, frame)
        bt = self._new("branch", e, withs, tries)
        bt.test, bt.polarity, bt.stmt = e, True, stmt
        bf = self._new("branch", e, withs, tries)
        bf.test, bf.polarity, bf.stmt = e, False, stmt
        self._edge(tn.id, bt.id, "T")
        self._edge(tn.id, bf.id, "F")
        return [(bt.id, "n")], [(bf.id, "n")]

    # ---- statements ---------------------------------------------------------
    def _block(self, body, frontier, frame, withs, tries):
        i = 0
        while i < len(body):
            st = body[i]
            if not frontier:
                break   # unreachable code
            # idiom: X.acquire(); try: ... finally: X.release()
            extra = ()
            if (isinstance(st, ast.Try) and st.finalbody and i > 0):
                prev = body[i - 1]
                if (isinstance(prev, ast.Expr) and isinstance(prev.value, ast.Call)
                        and isinstance(prev.value.func, ast.Attribute) and prev.value.func.attr == "acquire"):
                    lk = dump(prev.value.func.value)
                    for fs in st.finalbody:
                        if (isinstance(fs, ast.Expr) and isinstance(fs.value, ast.Call)
                                and dump(fs.value.func) == lk + ".release"):
                            extra = (lk,)
            frontier = self._stmt(st, frontier, frame, withs, tries, extra)
            i += 1
        return frontier

    def _simple(self, kind, st, frontier, frame, withs, tries):
        n = self._new(kind, st, withs, tries)
        self._connect(frontier, n.id)
        if self._may_raise_stmt(st):
            self._raising(n, frame)
        return n

    def _stmt(self, st, frontier, frame, withs, tries, lock_extra=()):
        if isinstance(st, (ast.Assign, ast.AugAssign, ast.AnnAssign, ast.Expr, ast.Delete, ast.Pass,
                           ast.Assert, ast.Import, ast.ImportFrom, ast.Global, ast.Nonlocal,
                           ast.FunctionDef, ast.ClassDef)):
            n = self._simple("stmt", st, frontier, frame, withs, tries)
            if isinstance(st, ast.Assign):
                d = []
                for t in st.targets:
                    d += _names_bound(t)
                n.defs = tuple(d)
            elif isinstance(st, (ast.AugAssign, ast.AnnAssign)):
                n.defs = tuple(_names_bound(st.target))
            elif isinstance(st, (ast.FunctionDef, ast.ClassDef)):
                n.defs = (st.name,)
            elif isinstance(st, (ast.Import, ast.ImportFrom)):
                n.defs = tuple((a.asname or a.name).split(".")[0] for a in st.names)
            return [(n.id, "n")]
        if isinstance(st, ast.Return):
            n = self._simple("return", st, frontier, frame, withs, tries)
            self._jump("return", [(n.id, "n")], frame)
            return []
        if isinstance(st, ast.Raise):
            n = self._new("raise", st, withs, tries)
            self._connect(frontier, n.id)
            self._raising(n, frame)
            return []
        if isinstance(st, ast.Break):
            self._jump("break", frontier, frame)
            return []
        if isinstance(st, ast.Continue):
            self._jump("continue", frontier, frame)
            return []
        if isinstance(st, ast.If):
            t, f = self._cond(st.test, frontier, frame, withs, tries, st)
            out = self._block(st.body, t, frame, withs, tries) if t else []
            out2 = self._block(st.orelse, f, frame, withs, tries) if f else []
            return out + out2
        if isinstance(st, ast.While):
            head = self._new("join", st, withs, tries)
            self._connect(frontier, head.id)
            after = self._new("join", st, withs, tries)
            t, f = self._cond(st.test, [(head.id, "n")], frame, withs, tries, st)
            lf = _Frame("loop", frame, brk=after.id, cont=head.id)
            body_out = self._block(st.body, t, lf, withs, tries) if t else []
            for (a, label) in body_out:
                self._edge(a, head.id, "back")
            else_out = self._block(st.orelse, f, frame, withs, tries) if f else []
            self._connect(else_out, after.id)
            return [(after.id, "n")]
        if isinstance(st, ast.For):
            it = self._new("iter", st.iter, withs, tries)
            self._connect(frontier, it.id)
            if expr_may_raise(st.iter):
                self._raising(it, frame)
            head = self._new("for", st, withs, tries)
            self._edge(it.id, head.id, "n")
            after = self._new("join", st, withs, tries)
            fb = self._new("for_body", st, withs, tries)
            fb.defs = tuple(_names_bound(st.target))
            if not isinstance(st.target, ast.Name):
                self._raising(fb, frame)
            fx = self._new("for_exit", st, withs, tries)
            self._edge(head.id, fb.id, "body")
            self._edge(head.id, fx.id, "exhaust")
            lf = _Frame("loop", frame, brk=after.id, cont=head.id)
            body_out = self._block(st.body, [(fb.id, "n")], lf, withs, tries)
            for (a, label) in body_out:
                self._edge(a, head.id, "back")
            else_out = self._block(st.orelse, [(fx.id, "n")], frame, withs, tries)
            self._connect(else_out, after.id)
            return [(after.id, "n")]
        if isinstance(st, ast.With):
            w = withs
            enters = []
            for item in st.items:
                n = self._new("with_enter", item, w, tries)
                self._connect(frontier, n.id)
                if self._may_raise_stmt(item):
                    self._raising(n, frame)
                n.defs = tuple(_names_bound(item.optional_vars))
                frontier = [(n.id, "n")]
                w = w + (dump(item.context_expr),)
                enters.append(item)
            out = self._block(st.body, frontier, frame, w, tries)
            for item in reversed(enters):
                if not out:
                    break
                w = w[:-1]
                n = self._new("with_exit", item, w, tries)
                self._connect(out, n.id)
                out = [(n.id, "n")]
            return out
        if isinstance(st, ast.Try):
            self._try_counter += 1
            tid = self._try_counter
            tries2 = tries + (tid,)
            w_body = withs + tuple(lock_extra)
            outer = frame
            if st.finalbody:
                outer = _Frame("finally", frame, finalbody=st.finalbody, exc_copy=None, stmt=st,
                               withs=withs, tries=tries)
            body_frame = outer
            disp = None
            if st.handlers:
                disp = self._new("dispatch", st, withs, tries2)
                body_frame = _Frame("try", outer, dispatch=disp)
            out = self._block(st.body, frontier, body_frame, w_body, tries2)
            if st.orelse and out:
                out = self._block(st.orelse, out, outer, w_body, tries2)
            if disp is not None:
                disp.handlers = []
                catch_all = False
                for h in st.handlers:
                    hn = self._new("handler", h, w_body, tries2)
                    hn.defs = (h.name,) if h.name else ()
                    if h.type is None:
                        types = None
                        catch_all = True
                    else:
                        types = h.type.elts if isinstance(h.type, ast.Tuple) else [h.type]
                        if any(dump(t) in CATCH_ALL for t in types):
                            catch_all = True
                    disp.handlers.append((types, hn.id))
                    self._edge(disp.id, hn.id, "h%d" % (len(disp.handlers) - 1))
                    out += self._block(h.body, [(hn.id, "n")], outer, w_body, tries2)
                disp.outer = None
                if not catch_all:
                    disp.outer = self._exc_target(outer)
                    self._edge(disp.id, disp.outer, "exc")
            if st.finalbody and out:
                out = self._block(st.finalbody, out, frame, withs, tries)
            return out
        raise AnalysisError("statement kind %s is not modelled (%s:%s)" % (
            type(st).__name__, self.fi.fq, getattr(st, "lineno", "?")))

    def _prune(self):
        seen = set()
        stack = [self.entry.id]
        while stack:
            n = stack.pop()
            if n in seen:
                continue
            seen.add(n)
            stack += [b for (b, _) in self.succ[n]]
        self.reachable = seen
        for n in list(self.succ):
            if n not in seen:
                self.succ[n] = []
            self.pred[n] = [(a, l) for (a, l) in self.pred[n] if a in seen]

    # ---- queries ----------------------------------------------------------------
    def live_nodes(self):
        return [n for n in self.nodes if n.id in self.reachable]

    def find(self, pred):
        return [n for n in self.live_nodes() if pred(n)]

    def nodes_with_call(self, matcher):
        """Nodes whose own expression (not nested statements) contains a call for which matcher(call)."""
        out = []
        for n in self.live_nodes():
            for c in node_calls(n):
                if matcher(c):
                    out.append((n, c))
        return out

    def describe(self, n):
        return "%s:%s %s" % (self.fi.loc(n.ast if n.ast is not None else None).rsplit(":", 1)[0], n.lineno, repr(n))


def node_exprs(n):
    """The expressions evaluated by the node itself."""
    a = n.ast
    if a is None:
        return []
    k = n.kind
    if k in ("stmt", "return", "raise"):
        if isinstance(a, (ast.FunctionDef, ast.ClassDef)):
            return []
        return [a]
    if k == "test":
        return [a]
    if k == "iter":
        return [a]
    if k == "with_enter":
        return [a.context_expr]
    return []


def node_calls(n):
    out = []
    for e in node_exprs(n):
        for sub in ast.walk(e):
            if isinstance(sub, ast.Call):
                out.append(sub)
    return out


def cfg_of(fi, may_raise=None):
    """CFG of a function, cached on the FuncInfo itself (never on id(): ids are reused across programs)."""
    if may_raise is not None:
        return CFG(fi, may_raise)
    g = getattr(fi, "_cfg", None)
    if g is None:
        g = CFG(fi)
        fi._cfg = g
    return g
