"""Dominance, reaching definitions, fact-consistent state exploration (E1/E2)."""
import ast
from collections import deque
from .model import AnalysisError, dump
from .cfg import node_exprs, node_calls

NORMAL = lambda label: label != "exc" and not label.startswith("h")   # noqa: E731


# ---------------------------------------------------------------------------
# dominators
# ---------------------------------------------------------------------------
def _dom(nodes, succ, entry):
    nodes = list(nodes)
    pred = dict((n, []) for n in nodes)
    for a in nodes:
        for b in succ.get(a, ()):
            if b in pred:
                pred[b].append(a)
    allset = set(nodes)
    dom = dict((n, set(allset)) for n in nodes)
    dom[entry] = set([entry])
    changed = True
    # reverse post order for speed
    order, seen = [], set()

    def dfs(s):
        stack = [(s, iter(succ.get(s, ())))]
        seen.add(s)
        while stack:
            n, it = stack[-1]
            adv = False
            for b in it:
                if b in allset and b not in seen:
                    seen.add(b)
                    stack.append((b, iter(succ.get(b, ()))))
                    adv = True
                    break
            if not adv:
                order.append(n)
                stack.pop()
    dfs(entry)
    order.reverse()
    while changed:
        changed = False
        for n in order:
            if n == entry:
                continue
            ps = [dom[p] for p in pred[n] if p in seen]
            new = set.intersection(*ps) if ps else set()
            new = new | set([n])
            if new != dom[n]:
                dom[n] = new
                changed = True
    for n in nodes:
        if n not in seen:
            dom[n] = set()
    return dom


def dominators(cfg, edge_ok=None):
    """dom[n] = set of node ids dominating n (over all edges unless filtered)."""
    succ = {}
    for a in cfg.reachable:
        succ[a] = [b for (b, l) in cfg.succ[a] if edge_ok is None or edge_ok(l)]
    return _dom(cfg.reachable, succ, cfg.entry.id)


def postdominators(cfg, exits, edge_ok=None):
    """pdom[n] = nodes that lie on every path from n to one of `exits`
    (paths restricted to edges accepted by edge_ok)."""
    rsucc = dict((n, []) for n in cfg.reachable)
    for a in cfg.reachable:
        for (b, l) in cfg.succ[a]:
            if edge_ok is None or edge_ok(l):
                rsucc[b].append(a)
    VX = -1
    rsucc[VX] = list(exits)
    return _dom(list(cfg.reachable) + [VX], rsucc, VX)


# ---------------------------------------------------------------------------
# reaching definitions of local names
# ---------------------------------------------------------------------------
def reaching_defs(cfg):
    """rd[node_id][name] = frozenset of defining node ids (entry id for parameters)."""
    IN = dict((n, {}) for n in cfg.reachable)
    work = deque([cfg.entry.id])
    OUT = {}
    inq = set(work)
    while work:
        n = work.popleft()
        inq.discard(n)
        node = cfg.nodes[n]
        out = dict(IN[n])
        for name in node.defs:
            out[name] = frozenset([n])
        if OUT.get(n) == out and n != cfg.entry.id:
            continue
        OUT[n] = out
        for (b, _l) in cfg.succ[n]:
            tgt = IN[b]
            ch = False
            for name, ds in out.items():
                cur = tgt.get(name)
                if cur is None:
                    tgt[name] = ds
                    ch = True
                elif not ds <= cur:
                    tgt[name] = cur | ds
                    ch = True
            if (ch or b not in OUT) and b not in inq:
                work.append(b)
                inq.add(b)
    return IN


# ---------------------------------------------------------------------------
# facts: consistent valuation of repeated pure tests along a path
# ---------------------------------------------------------------------------
PURE_CALLS = ("isinstance", "len", "hasattr", "callable", "type", "bool")


def test_key(e):
    return dump(e)


def test_names(e):
    return frozenset(n.id for n in ast.walk(e) if isinstance(n, ast.Name))


def test_is_local(e):
    """True if the test only reads local names / constants (rebinding a name is
    the only way to change its outcome)."""
    for n in ast.walk(e):
        if isinstance(n, ast.Call):
            f = n.func
            if not (isinstance(f, ast.Name) and f.id in PURE_CALLS):
                return False
        elif isinstance(n, ast.Attribute):
            # attributes of self / module constants: heap facts
            return False
        elif isinstance(n, ast.Subscript):
            return False
    return True


def node_mutates_heap(n):
    for e in node_exprs(n):
        for sub in ast.walk(e):
            if isinstance(sub, ast.Call):
                f = sub.func
                if not (isinstance(f, ast.Name) and f.id in PURE_CALLS):
                    return True
            if isinstance(sub, (ast.Attribute, ast.Subscript)) and isinstance(getattr(sub, "ctx", None), (ast.Store, ast.Del)):
                return True
    return n.kind in ("with_enter", "for")


class Explorer(object):
    """Reachable (node, facts, data) states of one function.

    facts: frozenset of (test text, polarity) for pure tests already decided on
    the path; a test met again with no intervening redefinition must take the
    same outcome (this prunes the infeasible paths through repeated guards such
    as `is_notification`).  `on_node(node, facts, data)` returns a list of
    (facts, data) successors states *after* the node (empty list = prune), or
    None for "unchanged".  data must be hashable and finite.
    """

    def __init__(self, cfg, on_node=None, init_data=None, edge_ok=None, max_states=200000,
                 heap_facts=True, edge_filter=None):
        self.cfg = cfg
        self.on_node = on_node
        self.edge_ok = edge_ok
        self.edge_filter = edge_filter      # (source node id, target node id, label) -> follow the edge?
        self.max_states = max_states
        self.heap_facts = heap_facts
        self.parent = {}
        self.states = set()
        self.terminal = []     # states at return_exit / raise_exit
        self._names = {}
        self._local = {}
        self.run(init_data)

    def _apply(self, node, facts, data):
        # invalidate
        if node.defs or (self.heap_facts and facts and node_mutates_heap(node)):
            keep = []
            heap = node_mutates_heap(node)
            for (k, pol) in facts:
                names = self._names.get(k, frozenset())
                if any(d in names for d in node.defs):
                    continue
                if heap and not self._local.get(k, True):
                    continue
                keep.append((k, pol))
            facts = frozenset(keep)
        if node.kind == "stmt" and isinstance(node.ast, ast.Assign) and len(node.ast.targets) == 1 \
                and isinstance(node.ast.targets[0], ast.Name) and isinstance(node.ast.value, ast.Constant):
            # constant propagation for flag locals: `done = False` decides later tests of `done`
            k = node.ast.targets[0].id
            self._names.setdefault(k, frozenset([k]))
            self._local.setdefault(k, True)
            facts = facts | frozenset([(k, bool(node.ast.value.value))])
        if node.kind == "branch":
            k = test_key(node.test)
            if k not in self._names:
                self._names[k] = test_names(node.test)
                self._local[k] = test_is_local(node.test)
            if (k, not node.polarity) in facts:
                return []
            if self._local[k] or self.heap_facts:
                facts = facts | frozenset([(k, node.polarity)])
        if self.on_node is not None:
            r = self.on_node(node, facts, data)
            if r is not None:
                return r
        return [(facts, data)]

    def run(self, init_data):
        cfg = self.cfg
        start = (cfg.entry.id, frozenset(), init_data)
        work = deque()
        for (f2, d2) in self._apply(cfg.entry, frozenset(), init_data):
            st = (cfg.entry.id, f2, d2)
            self.states.add(st)
            self.parent[st] = None
            work.append(st)
        while work:
            st = work.popleft()
            nid, facts, data = st
            if nid in (cfg.return_exit.id, cfg.raise_exit.id):
                self.terminal.append(st)
                continue
            for (b, label) in cfg.succ[nid]:
                if self.edge_ok is not None and not self.edge_ok(label):
                    continue
                if self.edge_filter is not None and not self.edge_filter(nid, b, label):
                    continue
                for (f2, d2) in self._apply(cfg.nodes[b], facts, data):
                    st2 = (b, f2, d2)
                    if st2 not in self.states:
                        self.states.add(st2)
                        self.parent[st2] = st
                        work.append(st2)
                        if len(self.states) > self.max_states:
                            raise AnalysisError("state explosion in %s" % cfg.fi.fq)

    def witness(self, st):
        path = []
        while st is not None:
            path.append(st[0])
            st = self.parent[st]
        path.reverse()
        return path

    def describe_path(self, st, limit=14):
        ids = self.witness(st)
        keep = [self.cfg.nodes[i] for i in ids if self.cfg.nodes[i].kind in
                ("branch", "handler", "return", "raise", "for_body", "for_exit")]
        txt = []
        for n in keep[-limit:]:
            if n.kind == "branch":
                txt.append("L%s[%s=%s]" % (n.lineno, dump(n.test)[:40], "T" if n.polarity else "F"))
            elif n.kind == "handler":
                txt.append("L%s[except %s]" % (n.lineno, dump(n.ast.type) if n.ast.type else ""))
            else:
                txt.append("L%s[%s]" % (n.lineno, n.kind))
        return " -> ".join(txt)


def states_at(explorer, kinds):
    """All explored states sitting on nodes of the given kinds (e.g. every `return` node with
    every distinct facts/data reaching it).  Exit states are merged across return statements,
    so rules look at the return nodes themselves."""
    out = []
    for st in explorer.states:
        if explorer.cfg.nodes[st[0]].kind in kinds:
            out.append(st)
    out.sort(key=lambda s: (s[0], sorted(s[1]), repr(s[2])))
    return out


def return_node_of(explorer, st):
    """The `return` node that produced a terminal state at return_exit."""
    for nid in reversed(explorer.witness(st)):
        if explorer.cfg.nodes[nid].kind == "return":
            return explorer.cfg.nodes[nid]
    return None


def count_paths(cfg, limit=100000, max_visits=2):
    """Number of entry->exit paths (each node at most max_visits times); measured for evidence."""
    count = 0
    stack = [(cfg.entry.id, {})]
    exits = (cfg.return_exit.id, cfg.raise_exit.id)
    while stack:
        n, visits = stack.pop()
        if n in exits:
            count += 1
            if count >= limit:
                return count
            continue
        for (b, _l) in cfg.succ[n]:
            v = visits.get(b, 0)
            if v >= max_visits:
                continue
            v2 = dict(visits)
            v2[b] = v + 1
            stack.append((b, v2))
    return count


def reachable_avoiding(cfg, start, avoid, edge_ok=None):
    """node ids reachable from `start` without entering any node of `avoid`"""
    seen = set()
    stack = [start]
    while stack:
        x = stack.pop()
        if x in seen or (x in avoid and x != start):
            continue
        seen.add(x)
        for (b, l) in cfg.succ[x]:
            if edge_ok is None or edge_ok(l):
                stack.append(b)
    return seen
