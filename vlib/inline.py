"""Helper inlining (part of E0).

The rules anchor on the functions of the analysed tree (vlib/known_functions.json, frozen from the tree the rules
were confirmed on).  A maintainer who extracts part of such a function into a *new* helper (module-level function
or method of the same class) does not change behaviour, but would hide constructs from rules that look at one
function at a time.  Before indexing, calls of new same-module helpers are therefore expanded in place (AST level,
original line numbers kept), for the call shapes listed below; a helper whose every call site was expanded is
dropped from the analysed program.  A change hidden inside a new helper is thus analysed as if written inline.

Supported:  `return h(...)`, `x = h(...)`, `h(...)` as a statement, and h(...) nested in a larger expression when
the helper is straight-line code ending in one return.  Early returns of the helper are converted structurally
(`if c: ...; return a` followed by `return b` becomes if/else).  Not expanded (left as calls): helpers with
decorators other than staticmethod, with *args/**kwargs, generators, returns inside loops/try/with, recursive
helpers, calls with starred arguments.
"""
import ast
import re
import copy
import json
import os

_HERE = os.path.dirname(os.path.abspath(__file__))
_KNOWN = None


def known_functions():
    global _KNOWN
    if _KNOWN is None:
        with open(os.path.join(_HERE, "known_functions.json")) as fh:
            _KNOWN = dict((k, set(v)) for k, v in json.load(fh).items())
    return _KNOWN


class _Unsupported(Exception):
    pass


def _has_yield(fn):
    return any(isinstance(n, (ast.Yield, ast.YieldFrom)) for n in ast.walk(fn))


def _contains_return(st):
    return any(isinstance(n, ast.Return) for n in ast.walk(st))


def _convert(stmts, mk):
    """structured conversion of `return E` into mk(E); -> (stmts, terminated)"""
    out = []
    for idx, st in enumerate(stmts):
        if isinstance(st, ast.Return):
            out += mk(st.value)
            return out, True
        if isinstance(st, ast.Raise):
            out.append(st)          # no fall-through either: nothing is returned after it
            return out, True
        if isinstance(st, ast.If) and _contains_return(st):
            rest = stmts[idx + 1:]
            b, bt = _convert(st.body, mk)
            o, ot = _convert(st.orelse, mk)
            if bt and not ot:
                o, ot = _convert(list(st.orelse) + list(rest), mk)
                new = ast.If(test=st.test, body=b or [ast.Pass()], orelse=o)
                ast.copy_location(new, st)
                out.append(new)
                return out, ot
            if ot and not bt:
                b, bt = _convert(list(st.body) + list(rest), mk)
                new = ast.If(test=st.test, body=b or [ast.Pass()], orelse=o)
                ast.copy_location(new, st)
                out.append(new)
                return out, bt
            new = ast.If(test=st.test, body=b or [ast.Pass()], orelse=o)
            ast.copy_location(new, st)
            out.append(new)
            if bt and ot:
                return out, True
            continue
        if isinstance(st, (ast.Try, ast.With)) and _contains_return(st) and idx == len(stmts) - 1:
            # tail position: the statement is the end of the helper, so `return E` inside it becomes mk(E) in place
            if isinstance(st, ast.With):
                b, bt = _convert(st.body, mk)
                new = ast.With(items=st.items, body=(b if bt else b + mk(None)) or [ast.Pass()])
                ast.copy_location(new, st)
                out.append(new)
                return out, True
            if any(_contains_return(x) for x in st.finalbody):
                raise _Unsupported("return inside finally")
            b, bt = _convert(st.body, mk)
            o, ot = _convert(st.orelse, mk) if st.orelse else ([], False)
            hs = []
            for h in st.handlers:
                hb, ht = _convert(h.body, mk)
                nh = ast.ExceptHandler(type=h.type, name=h.name, body=(hb if ht else hb + mk(None)) or [ast.Pass()])
                ast.copy_location(nh, h)
                hs.append(nh)
            if st.orelse:
                body2, orelse2 = b, (o if ot else o + mk(None))
                if bt:
                    orelse2 = []
            else:
                body2, orelse2 = (b if bt else b + mk(None)), []
            new = ast.Try(body=body2 or [ast.Pass()], handlers=hs, orelse=orelse2, finalbody=st.finalbody)
            ast.copy_location(new, st)
            out.append(new)
            return out, True
        if _contains_return(st):
            raise _Unsupported("return inside %s" % type(st).__name__)
        out.append(st)
    return out, False


class _Subst(ast.NodeTransformer):
    def __init__(self, mapping, renames):
        self.mapping = mapping      # param name -> expr (substituted on loads)
        self.renames = renames      # local name -> new name

    def visit_Name(self, node):
        if node.id in self.mapping and isinstance(node.ctx, ast.Load):
            return copy.deepcopy(self.mapping[node.id])
        if node.id in self.renames:
            return ast.copy_location(ast.Name(id=self.renames[node.id], ctx=node.ctx), node)
        return node

    def visit_ExceptHandler(self, node):
        if node.name in self.renames:
            node.name = self.renames[node.name]
        self.generic_visit(node)
        return node

    def visit_FunctionDef(self, node):
        return node       # nested defs keep their own scope

    def visit_Lambda(self, node):
        return node


def _simple(e):
    """argument expressions that may be substituted textually (no side effect, cheap): names, literals, attribute chains"""
    if isinstance(e, (ast.Name, ast.Constant)):
        return True
    if isinstance(e, ast.UnaryOp) and isinstance(e.op, ast.USub) and isinstance(e.operand, ast.Constant):
        return True
    if isinstance(e, ast.Attribute):
        return _simple(e.value)
    return False


def _stdlib_method_names(tree, cls):
    """names defined by the standard-library base classes of `cls` (resolved through the module's imports; the classes of this
    module that `cls` derives from are followed)"""
    import importlib
    import sys as _sys
    imported = {}
    for st in ast.walk(tree):
        if isinstance(st, ast.ImportFrom) and st.module and st.level == 0:
            for al in st.names:
                imported.setdefault(al.asname or al.name, (st.module, al.name))
        elif isinstance(st, ast.Import):
            for al in st.names:
                imported.setdefault(al.asname or al.name.split(".")[0], (al.name if al.asname else al.name.split(".")[0], None))
    # `Base = alias.Base` (a class picked from a module imported under an alias, Python 3 form first)
    for st in ast.walk(tree):
        if isinstance(st, ast.Assign) and len(st.targets) == 1 and isinstance(st.targets[0], ast.Name) and isinstance(st.value, ast.Attribute) and \
                isinstance(st.value.value, ast.Name) and st.value.value.id in imported and imported[st.value.value.id][1] is None:
            imported.setdefault(st.targets[0].id, (imported[st.value.value.id][0], st.value.attr))
    local = dict((c.name, c) for c in tree.body if isinstance(c, ast.ClassDef))
    std = getattr(_sys, "stdlib_module_names", frozenset())

    def _local_ancestors(c, acc):
        for b in c.bases:
            if isinstance(b, ast.Name) and b.id in local and b.id not in acc:
                acc.add(b.id)
                _local_ancestors(local[b.id], acc)
        return acc
    # a mix-in: its methods shadow those of the standard-library bases of every class of the module that derives from it
    users = [d for d in local.values() if d is not cls and cls.name in _local_ancestors(d, set())]
    out, seen, todo = set(), set(), [cls] + users
    while todo:
        c = todo.pop()
        if c.name in seen:
            continue
        seen.add(c.name)
        for b in c.bases:
            if isinstance(b, ast.Name) and b.id in local:
                todo.append(local[b.id])
                continue
            mod, attr = None, None
            if isinstance(b, ast.Name) and b.id in imported:
                mod, attr = imported[b.id]
            elif isinstance(b, ast.Attribute) and isinstance(b.value, ast.Name) and b.value.id in imported:
                mod, attr = imported[b.value.id][0], b.attr
            if not mod or attr is None or mod.split(".")[0] not in std:
                continue
            try:
                out |= set(n for n in dir(getattr(importlib.import_module(mod), attr)) if not (n.startswith("__") and n.endswith("__")))
            except Exception:
                continue
    return out


class _Inliner(object):
    def __init__(self, module_name, tree, known):
        self.m = module_name
        self.tree = tree
        self.known = known
        self.counter = 0
        self.helpers = {}      # key -> FunctionDef ; key = ("", name) or (class, name)
        self.static = set()
        self.expanded = {}     # key -> count
        self.left = {}         # key -> count of call sites not expanded
        for st in tree.body:
            if isinstance(st, ast.FunctionDef) and st.name not in known:
                if any(isinstance(x, ast.Attribute) and x.attr.startswith("__") and not x.attr.endswith("__") for x in ast.walk(st)):
                    continue        # `obj.__x` outside a class is not mangled: expanding it into a method would change its meaning (W13 judges it)
                self._add(("", st.name), st)
            elif isinstance(st, ast.ClassDef) and any(k.startswith(st.name + ".") for k in known):
                hooks = _stdlib_method_names(tree, st)
                for sub in st.body:      # a method added to a known class
                    if isinstance(sub, ast.FunctionDef) and ("%s.%s" % (st.name, sub.name)) not in known:
                        if sub.name in hooks:
                            continue     # an override of a standard-library method is not a helper: the closed-world rule W5 judges it
                        self._add((st.name, sub.name), sub)
        self._add_nested(tree)
        self._drop_recursive()

    def _drop_recursive(self):
        """helpers that (directly or through other helpers) refer to themselves are left as calls"""
        refs = {}
        for key, fn in self.helpers.items():
            plain, attrs = set(), set()
            for n in ast.walk(fn):
                if isinstance(n, ast.Name):
                    plain.add(n.id)
                elif isinstance(n, ast.Attribute) and isinstance(n.value, ast.Name):
                    attrs.add((n.value.id, n.attr))        # (`super().m()` / `other.m()` are not calls of the helper m)
            refs[key] = set(k2 for k2 in self.helpers if (k2[0] == "" and k2[1] in plain) or
                            (k2[0] != "" and ((("self", k2[1]) in attrs) or ((k2[0], k2[1]) in attrs) or (("cls", k2[1]) in attrs))))
        for key in list(self.helpers):
            seen, todo = set(), list(refs.get(key, ()))
            while todo:
                k = todo.pop()
                if k in seen:
                    continue
                seen.add(k)
                todo.extend(refs.get(k, ()))
            if key in seen:
                del self.helpers[key]
                self.static.discard(key)
                if key in getattr(self, "nested", {}):
                    del self.nested[key]

    def _add_nested(self, tree):
        """a function defined directly in the body of another one and only called there (a local closure used as a helper)"""
        taken = {}
        for n in ast.walk(tree):
            if isinstance(n, (ast.FunctionDef, ast.ClassDef)):
                taken[n.name] = taken.get(n.name, 0) + 1
            elif isinstance(n, ast.Name) and isinstance(n.ctx, (ast.Store, ast.Del)):
                taken[n.id] = taken.get(n.id, 0) + 1
            elif isinstance(n, ast.arg):
                taken[n.arg] = taken.get(n.arg, 0) + 1
        self.nested = {}
        for outer in [n for n in ast.walk(tree) if isinstance(n, ast.FunctionDef)]:
            for st in outer.body:
                if isinstance(st, ast.FunctionDef) and taken.get(st.name, 0) == 1 and ("", st.name) not in self.helpers:
                    # every use of the name is a direct call inside the enclosing function
                    uses = [n for n in ast.walk(tree) if isinstance(n, ast.Name) and n.id == st.name and isinstance(n.ctx, ast.Load)]
                    calls = [n for n in ast.walk(outer) if isinstance(n, ast.Call) and isinstance(n.func, ast.Name) and n.func.id == st.name]
                    if not uses or len(uses) != len(calls) or any(isinstance(x, (ast.Nonlocal, ast.Global)) for x in ast.walk(st)):
                        continue
                    before = len(self.helpers)
                    self._add(("", st.name), st)
                    if len(self.helpers) > before:
                        self.nested[("", st.name)] = outer

    def _add(self, key, fn):
        decos = [ast.unparse(d) for d in fn.decorator_list]
        if any(d not in ("staticmethod",) for d in decos):
            return
        a = fn.args
        if a.vararg or a.kwonlyargs or a.posonlyargs or _has_yield(fn):
            return
        if a.kwarg and not _kwarg_only_spread(fn):
            return
        if fn.name.startswith("__") and fn.name.endswith("__"):
            return
        self.helpers[key] = fn
        if "staticmethod" in decos:
            self.static.add(key)

    # -- locate a helper call ---------------------------------------------------------------
    def _match(self, call, cls):
        f = call.func
        if isinstance(f, ast.Name) and ("", f.id) in self.helpers:
            return ("", f.id), False
        if isinstance(f, ast.Attribute) and isinstance(f.value, ast.Name) and cls is not None:
            if f.value.id == "self" and (cls, f.attr) in self.helpers:
                return (cls, f.attr), (cls, f.attr) not in self.static
            if f.value.id == cls and (cls, f.attr) in self.helpers and (cls, f.attr) in self.static:
                return (cls, f.attr), False
        return None, False

    def _bind(self, key, call, takes_self, allow_kw=False):
        fn = self.helpers[key]
        self._extra_kw = []
        if fn.args.kwarg and not allow_kw:
            raise _Unsupported("**kwargs helper in this position")
        params = [a.arg for a in fn.args.args]
        defaults = [None] * (len(params) - len(fn.args.defaults)) + list(fn.args.defaults)
        if takes_self:
            params, defaults = params[1:], defaults[1:]
        if any(isinstance(a, ast.Starred) for a in call.args) or any(k.arg is None for k in call.keywords):
            raise _Unsupported("starred call")
        bound = {}
        for i, a in enumerate(call.args):
            if i >= len(params):
                raise _Unsupported("arity")
            bound[params[i]] = a
        for k in call.keywords:
            if k.arg not in params and fn.args.kwarg and k.arg not in bound:
                # collected by the helper's **kwargs, which it only spreads into calls: the keyword goes there
                if not _simple(k.value):
                    raise _Unsupported("keyword value")
                self._extra_kw.append(k)
                continue
            if k.arg not in params or k.arg in bound:
                raise _Unsupported("keyword")
            bound[k.arg] = k.value
        for p, d in zip(params, defaults):
            if p not in bound:
                if d is None:
                    raise _Unsupported("missing argument")
                bound[p] = d
        return fn, params, bound

    def _expand(self, key, call, takes_self, mk, keep_returns=False):
        """-> list of statements standing for the helper body, with returns converted by mk"""
        fn, params, bound = self._bind(key, call, takes_self, allow_kw=True)
        extra_kw = list(self._extra_kw)
        self.counter += 1
        tag = "_h%d_" % self.counter
        body = list(fn.body)
        if body and isinstance(body[0], ast.Expr) and isinstance(body[0].value, ast.Constant) and isinstance(body[0].value.value, str):
            body = body[1:]
        assigned = set()
        for st in body:
            for n in ast.walk(st):
                if isinstance(n, ast.Name) and isinstance(n.ctx, (ast.Store, ast.Del)):
                    assigned.add(n.id)
                if isinstance(n, ast.ExceptHandler) and n.name:
                    assigned.add(n.name)
        pre = []
        mapping = {}
        renames = {}
        for p in params:
            if _simple(bound[p]) and p not in assigned:
                mapping[p] = bound[p]
            else:
                renames[p] = tag + p
                a = ast.Assign(targets=[ast.Name(id=tag + p, ctx=ast.Store())], value=bound[p])
                ast.copy_location(a, call)
                ast.fix_missing_locations(a)
                pre.append(a)
        for nme in assigned:
            if nme not in renames:
                renames[nme] = tag + nme
        body = [_Subst(mapping, renames).visit(copy.deepcopy(st)) for st in body]
        if fn.args.kwarg:
            body = [_SpreadKw(fn.args.kwarg.arg, extra_kw).visit(st) for st in body]
        if keep_returns:
            conv = body
            if not (conv and isinstance(conv[-1], (ast.Return, ast.Raise))):
                conv = conv + mk(None)
        else:
            conv, terminated = _convert(body, mk)
            if not terminated:
                conv += mk(None)
        for st in conv:
            ast.fix_missing_locations(st)
        return pre + conv

    # -- statement level ------------------------------------------------------------------------
    def _inline_stmt(self, st, cls):
        """-> replacement statement list or None"""
        calls = [n for n in ast.walk(st) if isinstance(n, ast.Call) and self._match(n, cls)[0] is not None]
        if not calls or isinstance(st, (ast.FunctionDef, ast.ClassDef)):
            return None
        if isinstance(st, ast.If):
            # a helper used as predicate in the test: hoist `tmp = h(...)` before the if (evaluated exactly once, first)
            tcalls = [n for n in ast.walk(st.test) if isinstance(n, ast.Call) and self._match(n, cls)[0] is not None]
            if not tcalls or (isinstance(st.test, ast.BoolOp) and not any(n is st.test.values[0] or n in list(ast.walk(st.test.values[0])) for n in tcalls[:1])):
                return None
            call = tcalls[0]
            key, takes_self = self._match(call, cls)
            fn = self.helpers[key]
            hb = [b for b in fn.body if not (isinstance(b, ast.Expr) and isinstance(b.value, ast.Constant))]
            if hb and isinstance(hb[-1], ast.Return) and not any(_contains_return(b) for b in hb[:-1]) and \
                    not any(isinstance(b, (ast.If, ast.For, ast.While, ast.Try, ast.With)) for b in hb[:-1]):
                # straight-line predicate: its statements run before the `if`, its result expression becomes (part of) the test,
                # so the short-circuit structure of the condition stays visible to the path rules
                holder = {}

                def mk(v):
                    holder["v"] = v if v is not None else ast.Constant(None)
                    return []
                try:
                    pre = self._expand(key, call, takes_self, mk)
                except _Unsupported:
                    self.left[key] = self.left.get(key, 0) + 1
                    return None
                new_if = _Replace(call, holder["v"]).visit(st)
                ast.fix_missing_locations(new_if)
                self.expanded[key] = self.expanded.get(key, 0) + 1
                return pre + [new_if]
            # a predicate made of `if C: return False` guards, plain statements and a final `return E`, used as the whole test of
            # an `if` without else:  ->  the statements, `if not C:` nestings and `if E: <body>` innermost
            if st.test is call and not st.orelse and hb and isinstance(hb[-1], ast.Return) and hb[-1].value is not None:
                def _guard(b):
                    return isinstance(b, ast.If) and not b.orelse and len(b.body) == 1 and isinstance(b.body[0], ast.Return) and \
                        isinstance(b.body[0].value, ast.Constant) and b.body[0].value.value is False
                if all(_guard(b) or not _contains_return(b) for b in hb[:-1]) and any(_guard(b) for b in hb[:-1]) and \
                        not any(isinstance(b, (ast.For, ast.While, ast.Try, ast.With)) for b in hb[:-1]):
                    try:
                        _fn, _params, bound_ = self._bind(key, call, takes_self)
                    except _Unsupported:
                        bound_ = None
                    if bound_ is not None and all(_simple(v_) for v_ in bound_.values()):
                        self.counter += 1
                        tag = "_h%d_" % self.counter
                        assigned = set(n_.id for b in hb for n_ in ast.walk(b) if isinstance(n_, ast.Name) and isinstance(n_.ctx, (ast.Store, ast.Del)))
                        sb = _Subst(dict(bound_), dict((nm, tag + nm) for nm in assigned))
                        body2 = [sb.visit(copy.deepcopy(b)) for b in hb]

                        def nest(items):
                            if len(items) == 1:
                                inner = ast.If(test=items[0].value, body=st.body, orelse=[])
                                return [ast.copy_location(inner, st)]
                            head, rest = items[0], items[1:]
                            if _guard(head):
                                neg = ast.UnaryOp(op=ast.Not(), operand=head.test)
                                return [ast.copy_location(ast.If(test=neg, body=nest(rest), orelse=[]), st)]
                            return [head] + nest(rest)
                        out = nest(body2)
                        for x in out:
                            ast.fix_missing_locations(x)
                        self.expanded[key] = self.expanded.get(key, 0) + 1
                        return out
            self.counter += 1
            tmp = "_h%d_test" % self.counter
            hoist = ast.Assign(targets=[ast.Name(id=tmp, ctx=ast.Store())], value=call)
            ast.copy_location(hoist, st)
            new_if = _Replace(call, ast.Name(id=tmp, ctx=ast.Load())).visit(st)
            ast.fix_missing_locations(hoist)
            ast.fix_missing_locations(new_if)
            return [hoist, new_if]
        if isinstance(st, (ast.While, ast.For, ast.With, ast.Try)):
            return None       # compound: handled through their bodies; calls in their headers are left alone
        call = calls[0]
        key, takes_self = self._match(call, cls)
        if isinstance(st, ast.Assign) and isinstance(st.value, ast.ListComp) and st.value.elt is call and len(st.value.generators) == 1 \
                and not st.value.generators[0].ifs and len(st.targets) == 1 and isinstance(st.targets[0], ast.Name):
            # X = [h(e, ...) for e in ITER]  ->  X = []; for e in ITER: t = h(e, ...); X.append(t)
            gen = st.value.generators[0]
            self.counter += 1
            tmp = "_h%d_item" % self.counter
            init = ast.Assign(targets=[ast.Name(id=st.targets[0].id, ctx=ast.Store())], value=ast.List(elts=[], ctx=ast.Load()))
            inner = ast.Assign(targets=[ast.Name(id=tmp, ctx=ast.Store())], value=call)
            app = ast.Expr(value=ast.Call(func=ast.Attribute(value=ast.Name(id=st.targets[0].id, ctx=ast.Load()), attr="append", ctx=ast.Load()),
                                          args=[ast.Name(id=tmp, ctx=ast.Load())], keywords=[]))
            loop = ast.For(target=gen.target, iter=gen.iter, body=[inner, app], orelse=[])
            for x in (init, inner, app, loop):
                ast.copy_location(x, st)
                ast.fix_missing_locations(x)
            return [init, loop]
        try:
            if isinstance(st, ast.Return) and st.value is call:
                def mk(v):
                    r = ast.Return(value=v)
                    ast.copy_location(r, st)
                    return [r]
                out = self._expand(key, call, takes_self, mk, keep_returns=True)
            elif isinstance(st, ast.Raise) and st.exc is call and st.cause is None:
                def mk(v):
                    r = ast.Raise(exc=v if v is not None else ast.Constant(None), cause=None)
                    ast.copy_location(r, st)
                    return [r]
                out = self._expand(key, call, takes_self, mk)
            elif isinstance(st, ast.Expr) and st.value is call:
                def mk(v):
                    if v is None:
                        return []
                    e = ast.Expr(value=v)
                    ast.copy_location(e, st)
                    return [e]
                out = self._expand(key, call, takes_self, mk) or [ast.copy_location(ast.Pass(), st)]
            elif isinstance(st, ast.Assign) and st.value is call and len(st.targets) == 1:
                tgt = st.targets[0]

                def mk(v):
                    a = ast.Assign(targets=[copy.deepcopy(tgt)], value=v if v is not None else ast.Constant(None))
                    ast.copy_location(a, st)
                    return [a]
                out = self._expand(key, call, takes_self, mk)
            else:
                # nested in a larger expression: only straight-line helpers ending in one return
                fn = self.helpers[key]
                body = [b for b in fn.body if not (isinstance(b, ast.Expr) and isinstance(b.value, ast.Constant))]
                if not body or not isinstance(body[-1], ast.Return) or any(_contains_return(b) for b in body[:-1]) or \
                        any(isinstance(b, (ast.If, ast.For, ast.While, ast.Try, ast.With)) for b in body[:-1]):
                    # not straight-line: hoist `tmp = h(...)` before the statement (arguments are evaluated before the
                    # enclosing call anyway); the assignment is expanded on the next pass
                    if isinstance(st, (ast.Assign, ast.Expr, ast.Return, ast.AugAssign)) and not any(
                            isinstance(x, (ast.BoolOp, ast.IfExp, ast.Lambda, ast.ListComp, ast.GeneratorExp, ast.DictComp, ast.SetComp))
                            and any(y is call for y in ast.walk(x)) for x in ast.walk(st)):
                        self.counter += 1
                        tmp = "_h%d_arg" % self.counter
                        hoist = ast.Assign(targets=[ast.Name(id=tmp, ctx=ast.Store())], value=call)
                        ast.copy_location(hoist, st)
                        ast.fix_missing_locations(hoist)
                        new_st = _Replace(call, ast.Name(id=tmp, ctx=ast.Load())).visit(st)
                        ast.fix_missing_locations(new_st)
                        return [hoist, new_st]
                    raise _Unsupported("nested call of a non straight-line helper")
                holder = {}

                def mk(v):
                    holder["v"] = v if v is not None else ast.Constant(None)
                    return []
                pre = self._expand(key, call, takes_self, mk)
                new_st = _Replace(call, holder["v"]).visit(st)
                ast.fix_missing_locations(new_st)
                out = pre + [new_st]
        except _Unsupported:
            self.left[key] = self.left.get(key, 0) + 1
            return None
        self.expanded[key] = self.expanded.get(key, 0) + 1
        return out

    def _block(self, body, cls, depth=0):
        i = 0
        guard = 0
        while i < len(body):
            st = body[i]
            rep = self._inline_stmt(st, cls) if depth < 4 else None
            if rep is not None and guard < 50:
                body[i:i + 1] = rep
                guard += 1
                continue          # re-examine (nested helpers)
            for field in ("body", "orelse", "finalbody"):
                sub = getattr(st, field, None)
                if isinstance(sub, list) and sub and not isinstance(st, (ast.FunctionDef, ast.ClassDef)):
                    self._block(sub, cls, depth)
            if isinstance(st, ast.Try):
                for h in st.handlers:
                    self._block(h.body, cls, depth)
            i += 1

    def run(self):
        if not self.helpers:
            return False
        for st in self.tree.body:
            if isinstance(st, ast.FunctionDef):
                if ("", st.name) in self.helpers:
                    continue
                self._block(st.body, None)
            elif isinstance(st, ast.ClassDef):
                for sub in st.body:
                    if isinstance(sub, ast.FunctionDef) and (st.name, sub.name) not in self.helpers:
                        self._block(sub.body, st.name)
        # helpers may call helpers: expand inside the remaining helpers too (one more level)
        # drop helpers that are no longer called anywhere in the module
        def still_called(key):
            cls, name = key
            for n in ast.walk(self.tree):
                if isinstance(n, (ast.Name, ast.Attribute)):
                    if isinstance(n, ast.Name) and n.id == name and isinstance(n.ctx, ast.Load) and cls == "":
                        return True
                    if isinstance(n, ast.Attribute) and n.attr == name and cls != "":
                        return True
            return False
        removed = []
        for key, fn in list(self.helpers.items()):
            if self.expanded.get(key) and not self.left.get(key):
                cls, name = key
                if key in getattr(self, "nested", {}):
                    outer = self.nested[key]
                    if fn in outer.body:
                        outer.body.remove(fn)
                        if still_called(key):
                            outer.body.insert(0, fn)
                        else:
                            removed.append(key)
                            if not outer.body:
                                outer.body.append(ast.Pass())
                    continue
                if cls == "":
                    self.tree.body.remove(fn)
                    if not still_called(key):
                        removed.append(key)
                    else:
                        self.tree.body.append(fn)
                else:
                    for st in self.tree.body:
                        if isinstance(st, ast.ClassDef) and st.name == cls and fn in st.body:
                            st.body.remove(fn)
                            if still_called(key):
                                st.body.append(fn)
                            else:
                                removed.append(key)
        self.removed = removed
        return bool(self.expanded)


class _Replace(ast.NodeTransformer):
    def __init__(self, old, new):
        self.old, self.new = old, new

    def visit_Call(self, node):
        if node is self.old:
            return copy.deepcopy(self.new)
        self.generic_visit(node)
        return node


def _kwarg_only_spread(fn):
    """the helper's **kw parameter is only handed on as `**kw` in calls (never read, stored or rebound)"""
    kw = fn.args.kwarg.arg
    spreads = set()
    for n in ast.walk(fn):
        if isinstance(n, ast.Call):
            for k in n.keywords:
                if k.arg is None and isinstance(k.value, ast.Name) and k.value.id == kw:
                    spreads.add(id(k.value))
    for n in ast.walk(fn):
        if isinstance(n, ast.Name) and n.id == kw and id(n) not in spreads:
            return False
        if isinstance(n, (ast.FunctionDef, ast.Lambda)) and n is not fn:
            return False
    return True


class _SpreadKw(ast.NodeTransformer):
    """`f(..., **kw)` -> `f(..., k1=v1, ...)` with the keywords the call site gave"""

    def __init__(self, kw, extra):
        self.kw, self.extra = kw, extra

    def visit_Call(self, node):
        self.generic_visit(node)
        out = []
        for k in node.keywords:
            if k.arg is None and isinstance(k.value, ast.Name) and k.value.id == self.kw:
                out.extend(ast.keyword(arg=x.arg, value=copy.deepcopy(x.value)) for x in self.extra)
            else:
                out.append(k)
        node.keywords = out
        return node


# ---------------------------------------------------------------------------
# selected callables:  `if c: f, a = F1, (x, y)  else: f, a = F2, (x, y, z)`  ...  `f(*a)`
# ---------------------------------------------------------------------------
def _names_stored(stmts):
    out = set()
    for st in stmts:
        for n in ast.walk(st):
            if isinstance(n, ast.Name) and isinstance(n.ctx, (ast.Store, ast.Del)):
                out.add(n.id)
            elif isinstance(n, ast.ExceptHandler) and n.name:
                out.add(n.name)
    return out


class _SelSubst(ast.NodeTransformer):
    """replace the selected names by the expressions of one branch; `*a` by the elements of a's tuple display"""

    def __init__(self, mapping):
        self.mapping = mapping

    def visit_Name(self, node):
        if isinstance(node.ctx, ast.Load) and node.id in self.mapping:
            return copy.deepcopy(self.mapping[node.id])
        return node

    def _tuple_slice(self, e):
        """`t[k:]` / `t[:k]` / `t[j:k]` of a selected tuple display -> the elements"""
        if isinstance(e, ast.Subscript) and isinstance(e.value, ast.Name) and e.value.id in self.mapping and \
                isinstance(self.mapping[e.value.id], ast.Tuple) and isinstance(e.slice, ast.Slice) and e.slice.step is None:
            lo, hi = e.slice.lower, e.slice.upper
            if all(x is None or (isinstance(x, ast.Constant) and isinstance(x.value, int) and not isinstance(x.value, bool)) for x in (lo, hi)):
                return self.mapping[e.value.id].elts[(lo.value if lo else None):(hi.value if hi else None)]
        return None

    def visit_Subscript(self, node):
        if isinstance(node.value, ast.Name) and node.value.id in self.mapping and isinstance(self.mapping[node.value.id], ast.Tuple) and \
                isinstance(node.slice, ast.Constant) and isinstance(node.slice.value, int) and not isinstance(node.slice.value, bool):
            elts = self.mapping[node.value.id].elts
            if -len(elts) <= node.slice.value < len(elts):
                return copy.deepcopy(elts[node.slice.value])
        self.generic_visit(node)
        return node

    def visit_Call(self, node):
        args = []
        for a in node.args:
            if isinstance(a, ast.Starred) and isinstance(a.value, ast.Name) and a.value.id in self.mapping and \
                    isinstance(self.mapping[a.value.id], ast.Tuple):
                args.extend(copy.deepcopy(x) for x in self.mapping[a.value.id].elts)
            elif isinstance(a, ast.Starred) and self._tuple_slice(a.value) is not None:
                args.extend(copy.deepcopy(x) for x in self._tuple_slice(a.value))
            else:
                args.append(self.visit(a))
        node.args = args
        node.func = self.visit(node.func)
        node.keywords = [ast.keyword(arg=k.arg, value=self.visit(k.value)) for k in node.keywords]
        return node


def _selection(st):
    """-> (names, [exprs of the true branch], [exprs of the false branch]) for an if/else that only selects a tuple"""
    def plain(e):
        return _simple(e) or (isinstance(e, ast.Tuple) and all(_simple(x) for x in e.elts))
    # several plain assignments per arm (a split tuple assignment): same names, in the same order, in both arms
    if isinstance(st, ast.If) and len(st.body) == len(st.orelse) >= 2 and all(
            isinstance(x, ast.Assign) and len(x.targets) == 1 and isinstance(x.targets[0], ast.Name) and plain(x.value)
            for x in st.body + st.orelse):
        na = [x.targets[0].id for x in st.body]
        nb = [x.targets[0].id for x in st.orelse]
        used = set(n.id for x in st.body + st.orelse for n in ast.walk(x.value) if isinstance(n, ast.Name))
        if na == nb and len(set(na)) == len(na) and not (set(na) & used):
            return na, [x.value for x in st.body], [x.value for x in st.orelse]
        return None
    if not (isinstance(st, ast.If) and len(st.body) == 1 and len(st.orelse) == 1):
        return None
    a, b = st.body[0], st.orelse[0]
    # one selected callable: `if c: f = F1` / `else: f = F2`
    if all(isinstance(x, ast.Assign) and len(x.targets) == 1 and isinstance(x.targets[0], ast.Name) for x in (a, b)):
        if a.targets[0].id == b.targets[0].id and plain(a.value) and plain(b.value) and \
                isinstance(a.value, (ast.Name, ast.Attribute)) and isinstance(b.value, (ast.Name, ast.Attribute)):
            return [a.targets[0].id], [a.value], [b.value]
        # one selected (callable, arguments...) display: `if c: t = (F1, x, y)` / `else: t = (F2, x, y, z)`
        if a.targets[0].id == b.targets[0].id and isinstance(a.value, ast.Tuple) and isinstance(b.value, ast.Tuple) and plain(a.value) and plain(b.value) \
                and a.value.elts and b.value.elts:
            used = set(n.id for x in (a, b) for n in ast.walk(x.value) if isinstance(n, ast.Name))
            if a.targets[0].id not in used:
                return [a.targets[0].id], [a.value], [b.value]
        return None
    for x in (a, b):
        if not (isinstance(x, ast.Assign) and len(x.targets) == 1 and isinstance(x.targets[0], ast.Tuple) and
                isinstance(x.value, ast.Tuple) and len(x.value.elts) == len(x.targets[0].elts) and
                all(isinstance(t, ast.Name) for t in x.targets[0].elts)):
            return None
    names = [t.id for t in a.targets[0].elts]
    if names != [t.id for t in b.targets[0].elts] or len(names) < 2:
        return None
    if not all(plain(e) for e in a.value.elts + b.value.elts):
        return None
    return names, a.value.elts, b.value.elts


def _uses_selected_call(st, names):
    for n in ast.walk(st):
        if isinstance(n, ast.Call):
            if isinstance(n.func, ast.Name) and n.func.id in names:
                return True
            if any(isinstance(a, ast.Starred) and isinstance(a.value, ast.Name) and a.value.id in names for a in n.args):
                return True
            if isinstance(n.func, ast.Subscript) and isinstance(n.func.value, ast.Name) and n.func.value.id in names and \
                    isinstance(n.func.slice, ast.Constant):
                return True
    return False


def _is_bool_expr(e):
    """an expression whose value is already True / False (identity tests and their negations / conjunctions)"""
    if isinstance(e, ast.Compare):
        return all(isinstance(o, (ast.Is, ast.IsNot)) for o in e.ops)
    if isinstance(e, ast.UnaryOp) and isinstance(e.op, ast.Not):
        return _is_bool_expr(e.operand)
    if isinstance(e, ast.BoolOp):
        return all(_is_bool_expr(v) for v in e.values)
    if isinstance(e, ast.Constant):
        return isinstance(e.value, bool)
    return False


def _deselect_block(body, fn_node, counter):
    changed = False
    i = 0
    while i < len(body):
        st = body[i]
        sel = _selection(st)
        if sel is not None:
            names, ea, eb = sel
            rest = body[i + 1:]
            free = set()
            for e in ea + eb:
                for n in ast.walk(e):
                    if isinstance(n, ast.Name):
                        free.add(n.id)
            stored_later = _names_stored(rest)
            stored_all = [n for n in ast.walk(fn_node) if isinstance(n, ast.Name) and isinstance(n.ctx, ast.Store) and n.id in names]
            users = [k for k, r in enumerate(rest) if _uses_selected_call(r, names)]
            # sound when neither the selected names nor anything they are built from is rebound in the rest of the block (the
            # selection always runs right before it); the names may be selected again elsewhere in the function
            if users and len(stored_all) % (2 * len(names)) == 0 and not (free & stored_later) and not (set(names) & stored_later):
                counter[0] += 1
                flag = "_sel%d" % counter[0]
                assign = ast.Assign(targets=[ast.Name(id=flag, ctx=ast.Store())],
                                    value=st.test if _is_bool_expr(st.test) else
                                    ast.Call(func=ast.Name(id="bool", ctx=ast.Load()), args=[st.test], keywords=[]))
                ast.copy_location(assign, st)
                st.test = ast.Name(id=flag, ctx=ast.Load())
                ast.copy_location(st.test, st)
                new_rest = []
                for r in rest:
                    if _uses_selected_call(r, names):
                        ra = _SelSubst(dict(zip(names, ea))).visit(copy.deepcopy(r))
                        rb = _SelSubst(dict(zip(names, eb))).visit(copy.deepcopy(r))
                        both = ast.If(test=ast.Name(id=flag, ctx=ast.Load()), body=[ra], orelse=[rb])
                        ast.copy_location(both, r)
                        ast.copy_location(both.test, r)
                        new_rest.append(both)
                    else:
                        new_rest.append(r)
                body[i:] = [assign, st] + new_rest
                ast.fix_missing_locations(fn_node)
                changed = True
                i += 2
                continue
        for field in ("body", "orelse", "finalbody"):
            sub = getattr(st, field, None)
            if isinstance(sub, list) and sub and not isinstance(st, (ast.FunctionDef, ast.ClassDef)):
                changed = _deselect_block(sub, fn_node, counter) or changed
        if isinstance(st, ast.Try):
            for h in st.handlers:
                changed = _deselect_block(h.body, fn_node, counter) or changed
        i += 1
    return changed


class _ReturnIfExp(ast.NodeTransformer):
    """`return A if c else B`  ->  `if c: return A` / `else: return B` (the paths become visible to the CFG rules)"""

    def __init__(self):
        self.count = 0

    def visit_Return(self, node):
        if isinstance(node.value, ast.IfExp):
            self.count += 1
            a = ast.copy_location(ast.Return(value=node.value.body), node)
            b = ast.copy_location(ast.Return(value=node.value.orelse), node)
            new = ast.copy_location(ast.If(test=node.value.test, body=[self.visit_Return(a)], orelse=[self.visit_Return(b)]), node)
            return new
        return node

    def visit_Assign(self, node):
        def _tname(t):
            if isinstance(t, ast.Name):
                return t.id
            if isinstance(t, ast.Attribute) and isinstance(t.value, ast.Name) and t.value.id == "self":
                return "self." + t.attr
            return None
        # `a = b = V` with a constant / simple V -> `a = V; b = V`
        if len(node.targets) > 1 and all(_tname(t) for t in node.targets) and _simple(node.value):
            self.count += 1
            out = []
            for t in node.targets:
                a = ast.copy_location(ast.Assign(targets=[t], value=copy.deepcopy(node.value)), node)
                out.append(ast.fix_missing_locations(a))
            return out
        # `a, b = X, Y` -> `a = X; b = Y` when no target occurs in X or Y (not a swap): each value gets its own definition
        if len(node.targets) == 1 and isinstance(node.targets[0], ast.Tuple) and isinstance(node.value, ast.Tuple) and \
                len(node.targets[0].elts) == len(node.value.elts) and all(_tname(t) for t in node.targets[0].elts) and \
                not any(isinstance(x, ast.Starred) for x in node.value.elts):
            names = set(_tname(t) for t in node.targets[0].elts)
            used = set(n.id for v_ in node.value.elts for n in ast.walk(v_) if isinstance(n, ast.Name)) | \
                set("self." + n.attr for v_ in node.value.elts for n in ast.walk(v_)
                    if isinstance(n, ast.Attribute) and isinstance(n.value, ast.Name) and n.value.id == "self")
            if len(names) == len(node.targets[0].elts) and not (names & used):
                self.count += 1
                out = []
                for t, v_ in zip(node.targets[0].elts, node.value.elts):
                    a = ast.copy_location(ast.Assign(targets=[t], value=v_), node)
                    r = self.visit_Assign(ast.fix_missing_locations(a))
                    out.extend(r if isinstance(r, list) else [r])
                return out
        # `x = A if c else B` -> `if c: x = A` / `else: x = B` when A or B contains a call (the two calls become two CFG nodes)
        v = node.value
        if isinstance(v, ast.IfExp) and len(node.targets) == 1 and (isinstance(node.targets[0], ast.Name) or (
                isinstance(node.targets[0], ast.Attribute) and isinstance(node.targets[0].value, ast.Name) and node.targets[0].value.id == "self")) and \
                (any(isinstance(x, ast.Call) for x in list(ast.walk(v.body)) + list(ast.walk(v.orelse))) or
                 (isinstance(v.body, ast.Attribute) and isinstance(v.orelse, ast.Attribute))):
            self.count += 1
            a = ast.copy_location(ast.Assign(targets=[copy.deepcopy(node.targets[0])], value=v.body), node)
            b = ast.copy_location(ast.Assign(targets=[copy.deepcopy(node.targets[0])], value=v.orelse), node)
            return ast.copy_location(ast.If(test=v.test, body=[self.visit_Assign(a)], orelse=[self.visit_Assign(b)]), node)
        return node

    def visit_If(self, node):
        # `if not x: x = E`  ->  `x = x or E`  (same value in both cases; one spelling for the rules)
        self.generic_visit(node)
        t = node.test
        if isinstance(t, ast.UnaryOp) and isinstance(t.op, ast.Not) and isinstance(t.operand, ast.Name) and not node.orelse \
                and len(node.body) == 1 and isinstance(node.body[0], ast.Assign) and len(node.body[0].targets) == 1 \
                and isinstance(node.body[0].targets[0], ast.Name) and node.body[0].targets[0].id == t.operand.id:
            self.count += 1
            new = ast.Assign(targets=[ast.Name(id=t.operand.id, ctx=ast.Store())],
                             value=ast.BoolOp(op=ast.Or(), values=[ast.Name(id=t.operand.id, ctx=ast.Load()), node.body[0].value]))
            return ast.fix_missing_locations(ast.copy_location(new, node))
        return node

    def visit_For(self, node):
        # `for x in (e1, ..., ek): body` over a short display of simple expressions, body without break / continue / else and
        # not rebinding x: the k copies of the body with x replaced by e1 ... ek
        self.generic_visit(node)
        it = node.iter
        if not (isinstance(it, (ast.Tuple, ast.List)) and 1 <= len(it.elts) <= 6 and not node.orelse):
            return node
        if any(isinstance(n, (ast.Break, ast.Continue, ast.Return, ast.Yield, ast.YieldFrom)) for st in node.body for n in ast.walk(st)):
            return node
        tg = node.target
        if isinstance(tg, ast.Name):
            names = [tg.id]
            rows = [[e] for e in it.elts]
        elif isinstance(tg, ast.Tuple) and all(isinstance(t, ast.Name) for t in tg.elts) and \
                all(isinstance(e, ast.Tuple) and len(e.elts) == len(tg.elts) for e in it.elts):
            names = [t.id for t in tg.elts]
            rows = [list(e.elts) for e in it.elts]
        else:
            return node
        def pure(x):
            return _simple(x) or (isinstance(x, ast.Call) and isinstance(x.func, ast.Name) and x.func.id in ("len", "str") and
                                  len(x.args) == 1 and not x.keywords and pure(x.args[0]))
        if not all(pure(x) for r in rows for x in r):
            return node
        stored = set(n.id for st in node.body for n in ast.walk(st) if isinstance(n, ast.Name) and isinstance(n.ctx, (ast.Store, ast.Del)))
        elem_names = set(n.id for r in rows for x in r for n in ast.walk(x) if isinstance(n, ast.Name))
        if stored & (set(names) | elem_names):
            return node
        self.count += 1
        out = []
        for r in rows:
            mapping = dict(zip(names, r))
            for st in node.body:
                out.append(_AliasSubstMany(mapping).visit(copy.deepcopy(st)))
        for st in out:
            ast.fix_missing_locations(st)
        return out

    def visit_Lambda(self, node):
        return node


class _AliasSubstMany(ast.NodeTransformer):
    def __init__(self, mapping):
        self.mapping = mapping

    def visit_Name(self, node):
        if node.id in self.mapping and isinstance(node.ctx, ast.Load):
            return ast.copy_location(copy.deepcopy(self.mapping[node.id]), node)
        return node


# ---------------------------------------------------------------------------
# local aliases of final fields / never-rebound names:  `pool = self.__request_pool` ... `pool.stop()`
# ---------------------------------------------------------------------------
def _final_fields(cls):
    """attributes of self that are bound only in __init__ (plain assignment), nowhere else in the class"""
    in_init, elsewhere = set(), set()
    for m in cls.body:
        if not isinstance(m, ast.FunctionDef):
            continue
        for n in ast.walk(m):
            tgt = None
            if isinstance(n, ast.Attribute) and isinstance(n.ctx, (ast.Store, ast.Del)) and isinstance(n.value, ast.Name) and n.value.id == "self":
                tgt = n.attr
            elif isinstance(n, ast.Call) and isinstance(n.func, ast.Name) and n.func.id in ("setattr", "delattr"):
                elsewhere.add("*")
            if tgt is not None:
                (in_init if m.name == "__init__" else elsewhere).add(tgt)
    if "*" in elsewhere:
        return set()
    return in_init - elsewhere


class _AliasSubst(ast.NodeTransformer):
    def __init__(self, name, expr):
        self.name, self.expr = name, expr

    def visit_Name(self, node):
        if node.id == self.name and isinstance(node.ctx, ast.Load):
            return ast.copy_location(copy.deepcopy(self.expr), node)
        return node


def _propagate_in_function(fn, final):
    """`a = self.F` (F final) or `a = p` (p a parameter never rebound) as a top-level statement of the body, `a` bound
    nowhere else: later uses of `a` are replaced by the right-hand side.  -> number of aliases removed"""
    params = set(x.arg for x in fn.args.posonlyargs + fn.args.args + fn.args.kwonlyargs)
    stores = {}
    for n in ast.walk(fn):
        if isinstance(n, ast.Name) and isinstance(n.ctx, (ast.Store, ast.Del)):
            stores[n.id] = stores.get(n.id, 0) + 1
        elif isinstance(n, ast.ExceptHandler) and n.name:
            stores[n.name] = stores.get(n.name, 0) + 1
        elif isinstance(n, (ast.Global, ast.Nonlocal)):
            for x in n.names:
                stores[x] = stores.get(x, 0) + 2
    done = 0
    i = 0
    while i < len(fn.body):
        st = fn.body[i]
        if isinstance(st, ast.Assign) and len(st.targets) == 1 and isinstance(st.targets[0], ast.Name):
            a = st.targets[0].id
            v = st.value
            def _final_chain(x):
                # self.F, or self.F.g (an attribute of the object held in a final field: never rebound by the package)
                if isinstance(x, ast.Attribute) and isinstance(x.value, ast.Name) and x.value.id == "self":
                    return x.attr in final
                if isinstance(x, ast.Attribute) and isinstance(x.value, ast.Attribute):
                    return _final_chain(x.value) and not any(
                        isinstance(n, ast.Attribute) and n.attr == x.attr and isinstance(n.ctx, (ast.Store, ast.Del)) for n in ast.walk(fn))
                return False
            ok_value = (_final_chain(v) and "self" in params and stores.get("self", 0) == 0) or \
                       (isinstance(v, ast.Name) and v.id in params and stores.get(v.id, 0) == 0)
            # `add = items.append` for a local `items` bound once: a bound-method alias, only ever called
            if not ok_value and isinstance(v, ast.Attribute) and isinstance(v.value, ast.Name) and v.value.id not in params and \
                    stores.get(v.value.id, 0) == 1 and stores.get(a, 0) == 1:
                uses_ = [n_ for b in fn.body for n_ in ast.walk(b) if isinstance(n_, ast.Name) and n_.id == a and isinstance(n_.ctx, ast.Load)]
                calls_ = [n_ for b in fn.body for n_ in ast.walk(b) if isinstance(n_, ast.Call) and isinstance(n_.func, ast.Name) and n_.func.id == a]
                ok_value = bool(uses_) and len(uses_) == len(calls_)
            # `t = (x, y)` used only as `*t` in calls: the elements are passed directly
            if isinstance(v, ast.Tuple) and all(_simple(x) for x in v.elts) and stores.get(a, 0) == 1 and a not in params and \
                    not any(stores.get(n_.id, 0) for x in v.elts for n_ in ast.walk(x) if isinstance(n_, ast.Name) and n_.id not in params):
                uses = [n_ for b in fn.body for n_ in ast.walk(b) if isinstance(n_, ast.Name) and n_.id == a and isinstance(n_.ctx, ast.Load)]
                starred = [n_ for b in fn.body for n_ in ast.walk(b) if isinstance(n_, ast.Starred) and isinstance(n_.value, ast.Name) and n_.value.id == a]
                before_ = any(isinstance(n_, ast.Name) and n_.id == a for b in fn.body[:i] for n_ in ast.walk(b))
                if uses and len(uses) == len(starred) and not before_:
                    class _Spread(ast.NodeTransformer):
                        def visit_Call(self_, node):
                            self_.generic_visit(node)
                            args = []
                            for x in node.args:
                                if isinstance(x, ast.Starred) and isinstance(x.value, ast.Name) and x.value.id == a:
                                    args.extend(copy.deepcopy(e_) for e_ in v.elts)
                                else:
                                    args.append(x)
                            node.args = args
                            return node
                    for k in range(i + 1, len(fn.body)):
                        fn.body[k] = _Spread().visit(fn.body[k])
                    del fn.body[i]
                    done += 1
                    continue
            # `d = {"k": v, ...}` used only as `**d` in calls: passed as keyword arguments
            if isinstance(v, ast.Dict) and v.keys and all(isinstance(k_, ast.Constant) and isinstance(k_.value, str) and k_.value.isidentifier() for k_ in v.keys) \
                    and stores.get(a, 0) == 1 and a not in params:
                uses = [n_ for b in fn.body for n_ in ast.walk(b) if isinstance(n_, ast.Name) and n_.id == a and isinstance(n_.ctx, ast.Load)]
                spreads = [k_ for b in fn.body[i + 1:] for c_ in ast.walk(b) if isinstance(c_, ast.Call) for k_ in c_.keywords
                           if k_.arg is None and isinstance(k_.value, ast.Name) and k_.value.id == a]
                touched = any(isinstance(n_, ast.Subscript) and isinstance(n_.value, ast.Name) and n_.value.id == a for b in fn.body for n_ in ast.walk(b))
                if uses and len(uses) == len(spreads) == 1 and not touched:
                    class _SpreadKw(ast.NodeTransformer):
                        def visit_Call(self_, node):
                            self_.generic_visit(node)
                            kws = []
                            for k_ in node.keywords:
                                if k_.arg is None and isinstance(k_.value, ast.Name) and k_.value.id == a:
                                    kws.extend(ast.keyword(arg=kk.value, value=copy.deepcopy(vv)) for kk, vv in zip(v.keys, v.values))
                                else:
                                    kws.append(k_)
                            node.keywords = kws
                            return node
                    for k in range(i + 1, len(fn.body)):
                        fn.body[k] = _SpreadKw().visit(fn.body[k])
                    del fn.body[i]
                    done += 1
                    continue
            # `t = (<display>)` used once, as the iterable of a for loop: the display is iterated directly (and then unrolled)
            if isinstance(v, (ast.Tuple, ast.List)) and stores.get(a, 0) == 1 and a not in params:
                uses = [n_ for b in fn.body for n_ in ast.walk(b) if isinstance(n_, ast.Name) and n_.id == a and isinstance(n_.ctx, ast.Load)]
                loops = [n_ for b in fn.body[i + 1:] for n_ in ast.walk(b) if isinstance(n_, ast.For) and isinstance(n_.iter, ast.Name) and n_.iter.id == a]
                between_ok = len(uses) == 1 and len(loops) == 1 and i + 1 < len(fn.body) and any(fn.body[i + 1] is l_ for l_ in loops)
                if between_ok:
                    loops[0].iter = v
                    del fn.body[i]
                    done += 1
                    continue
            if ok_value and stores.get(a, 0) == 1 and a not in params:
                used_before = any(isinstance(n, ast.Name) and n.id == a for b in fn.body[:i] for n in ast.walk(b))
                if not used_before:
                    for k in range(i + 1, len(fn.body)):
                        fn.body[k] = _AliasSubst(a, v).visit(fn.body[k])
                    del fn.body[i]
                    done += 1
                    continue
        i += 1
    # the same alias taken inside a nested block (`with self.__lock: tasks = self._queue ...`): bound once in the whole function
    def _final_chain2(x):
        if isinstance(x, ast.Attribute) and isinstance(x.value, ast.Name) and x.value.id == "self":
            return x.attr in final
        return False
    if "self" in params and stores.get("self", 0) == 0:
        for holder in ast.walk(fn):
            for fld in ("body", "orelse", "finalbody"):
                blk = getattr(holder, fld, None)
                if not isinstance(blk, list) or holder is fn:
                    continue
                for st in list(blk):
                    if isinstance(st, ast.Assign) and len(st.targets) == 1 and isinstance(st.targets[0], ast.Name) and _final_chain2(st.value):
                        a = st.targets[0].id
                        if stores.get(a, 0) != 1 or a in params:
                            continue
                        # every use of the alias comes after the assignment, in the same block (otherwise a path exists on
                        # which the name is read unbound: that behaviour must stay visible)
                        idx = [k for k, x in enumerate(blk) if x is st][0]
                        later = set(id(n) for b in blk[idx + 1:] for n in ast.walk(b) if isinstance(n, ast.Name) and n.id == a)
                        every = set(id(n) for n in ast.walk(fn) if isinstance(n, ast.Name) and n.id == a and n is not st.targets[0])
                        if every != later:
                            continue
                        blk.remove(st)
                        if not blk:
                            blk.append(ast.Pass())
                        for k in range(len(fn.body)):
                            fn.body[k] = _AliasSubst(a, st.value).visit(fn.body[k])
                        done += 1
    if done:
        ast.fix_missing_locations(fn)
    return done


def propagate_aliases(tree):
    n = 0
    for st in tree.body:
        if isinstance(st, ast.ClassDef):
            final = _final_fields(st)
            for m in st.body:
                if isinstance(m, ast.FunctionDef) and m.name != "__init__":
                    n += _propagate_in_function(m, final)
        elif isinstance(st, ast.FunctionDef):
            n += _propagate_in_function(st, set())
    return n


class _CallLambda(ast.NodeTransformer):
    """(lambda a, b=E: BODY)(X) -> BODY with the parameters replaced by their arguments, when every argument is a plain name,
    constant or attribute chain (evaluating it where the parameter is used changes nothing)."""

    def visit_Call(self, node):
        self.generic_visit(node)
        f = node.func
        if not isinstance(f, ast.Lambda) or any(isinstance(a, ast.Starred) for a in node.args) or any(k.arg is None for k in node.keywords):
            return node
        a = f.args
        if a.vararg or a.kwarg or a.kwonlyargs or a.posonlyargs:
            return node
        params = [x.arg for x in a.args]
        defaults = [None] * (len(params) - len(a.defaults)) + list(a.defaults)
        bound = {}
        for i, v in enumerate(node.args):
            if i >= len(params):
                return node
            bound[params[i]] = v
        for k in node.keywords:
            if k.arg not in params or k.arg in bound:
                return node
            bound[k.arg] = k.value
        for p_, d_ in zip(params, defaults):
            if p_ not in bound:
                if d_ is None:
                    return node
                bound[p_] = d_

        def plain(e):
            while isinstance(e, ast.Attribute):
                e = e.value
            return isinstance(e, (ast.Name, ast.Constant))
        if not all(plain(v) for v in bound.values()):
            return node

        class Sub(ast.NodeTransformer):
            def visit_Name(self_, n):
                if isinstance(n.ctx, ast.Load) and n.id in bound:
                    return copy.deepcopy(bound[n.id])
                return n

            def visit_Lambda(self_, n):
                return n          # inner lambdas may rebind the names: left alone
        return ast.copy_location(Sub().visit(copy.deepcopy(f.body)), node)


def _sink_flags(fn):
    """Result flags left by the expansion of a predicate helper with a side effect:

        with L:                                   with L:
            ...                                       ...
            if C: _hN_x = False          ==>          if C: pass
            else: S; _hN_x = True                     else: S; T
        if _hN_x: T

    when T only binds locals to names / constants and ends the path (return / break / continue) or is empty of effects: running
    it one statement earlier, still inside the block, changes nothing the rules (or the program) can observe."""
    done = 0

    def simple_tail(stmts):
        for st in stmts:
            if isinstance(st, ast.Assign) and all(isinstance(t, ast.Name) for t in st.targets) and isinstance(st.value, (ast.Constant, ast.Name)):
                continue
            if isinstance(st, ast.Return) and (st.value is None or isinstance(st.value, (ast.Constant, ast.Name))):
                continue
            if isinstance(st, (ast.Break, ast.Continue, ast.Pass)):
                continue
            return False
        return True

    def last_if(st):
        body = getattr(st, "body", None)
        while isinstance(st, (ast.With,)) and body:
            inner = body[-1]
            if isinstance(inner, ast.If):
                return inner
            if isinstance(inner, ast.With):
                st, body = inner, inner.body
                continue
            return None
        return None

    for holder in ast.walk(fn):
        for fld in ("body", "orelse", "finalbody"):
            blk = getattr(holder, fld, None)
            if not isinstance(blk, list):
                continue
            i = 0
            while i + 1 < len(blk):
                a, b = blk[i], blk[i + 1]
                i += 1
                if not (isinstance(b, ast.If) and not b.orelse and isinstance(b.test, ast.Name) and b.test.id.startswith("_h") and simple_tail(b.body)):
                    continue
                flag = b.test.id
                inner = last_if(a) if isinstance(a, ast.With) else None
                if inner is None or not inner.orelse:
                    continue
                def flag_set(stmts):
                    if stmts and isinstance(stmts[-1], ast.Assign) and len(stmts[-1].targets) == 1 and isinstance(stmts[-1].targets[0], ast.Name) \
                            and stmts[-1].targets[0].id == flag and isinstance(stmts[-1].value, ast.Constant) and isinstance(stmts[-1].value.value, bool):
                        return stmts[-1].value.value
                    return None
                tv, fv = flag_set(inner.body), flag_set(inner.orelse)
                if tv is None or fv is None or tv == fv:
                    continue
                uses = [n for n in ast.walk(fn) if isinstance(n, ast.Name) and n.id == flag]
                if len(uses) != 3:
                    continue
                true_branch, false_branch = (inner.body, inner.orelse) if tv else (inner.orelse, inner.body)
                true_branch[-1:] = copy.deepcopy(b.body)
                false_branch[-1:] = [ast.Pass()] if len(false_branch) == 1 else []
                blk.remove(b)
                done += 1
                i -= 1
    if done:
        ast.fix_missing_locations(fn)
    return done


_TAGGED = re.compile(r"^_h\d+_(.+)$")


def _untag_locals(fn):
    """locals of an expanded helper carry a `_hN_` prefix; where the helper's own name for the local is free in the host
    function (no parameter, local, global or attribute-less name of that spelling, no second expansion claiming it) the prefix is
    dropped, so that a block moved into a helper and back reads as it did"""
    names = {}
    plain = set(a.arg for a in fn.args.args + fn.args.kwonlyargs)
    if fn.args.vararg:
        plain.add(fn.args.vararg.arg)
    if fn.args.kwarg:
        plain.add(fn.args.kwarg.arg)
    for n in ast.walk(fn):
        if isinstance(n, ast.Name):
            m = _TAGGED.match(n.id)
            if m:
                names.setdefault(m.group(1), set()).add(n.id)
            else:
                plain.add(n.id)
        elif isinstance(n, ast.ExceptHandler) and n.name:
            m = _TAGGED.match(n.name)
            if m:
                names.setdefault(m.group(1), set()).add(n.name)
            else:
                plain.add(n.name)
        elif isinstance(n, (ast.FunctionDef, ast.ClassDef)) and n is not fn:
            plain.add(n.name)
        elif isinstance(n, (ast.Global, ast.Nonlocal)):
            plain.update(n.names)
    ren = dict((list(tagged)[0], base) for base, tagged in names.items()
               if len(tagged) == 1 and base not in plain and base not in ("arg", "test", "item") and base.isidentifier())
    if not ren:
        return 0
    for n in ast.walk(fn):
        if isinstance(n, ast.Name) and n.id in ren:
            n.id = ren[n.id]
        elif isinstance(n, ast.ExceptHandler) and n.name in ren:
            n.name = ren[n.name]
    return len(ren)


def _sink_flag_tests(fn):
    """A boolean result flag tested right after the statement that sets it:

        try:                                        try:
            F = True; X = E1                            F = True; X = E1
        except ...:                        ==>      except ...:
            ...; F = False; X = E2                      ...; F = False; X = E2; return X
        if not F: return X

    F is a local bound only to True / False constants, read only by that one test; every path that completes the first
    statement normally ends with a run of simple assignments containing `F = <const>`.  The `if` is decided per path: the
    chosen branch is appended to the path, or nothing when it is empty.  Appending is exact at the end of an if-branch and of
    an except handler or `else:` of a try without `finally` when the branch only binds locals to names / constants and
    returns / breaks / continues (no `raise`, nothing that can raise); nothing is ever moved *into* a protected try body or a
    `with` body (there the chosen branch must be empty)."""
    done = 0

    def simple_tail(stmts):
        for st in stmts:
            if isinstance(st, ast.Assign) and all(isinstance(t, ast.Name) for t in st.targets) and isinstance(st.value, (ast.Constant, ast.Name)):
                continue
            if isinstance(st, ast.Return) and (st.value is None or isinstance(st.value, (ast.Constant, ast.Name))):
                continue
            if isinstance(st, (ast.Break, ast.Continue, ast.Pass)):
                continue
            return False
        return True

    def terminal(st):
        return isinstance(st, (ast.Return, ast.Raise, ast.Break, ast.Continue))

    def tails(stmts, flag, protected):
        """-> list of (block, const, protected) for the normally-completing ends of `stmts`, None when not decidable"""
        if not stmts:
            return None
        last = stmts[-1]
        if terminal(last):
            return []
        j = len(stmts)
        while j > 0 and isinstance(stmts[j - 1], ast.Assign) and len(stmts[j - 1].targets) == 1 and isinstance(stmts[j - 1].targets[0], ast.Name):
            st = stmts[j - 1]
            if st.targets[0].id == flag:
                if isinstance(st.value, ast.Constant) and isinstance(st.value.value, bool):
                    return [(stmts, st.value.value, protected)]
                return None
            j -= 1
        if isinstance(last, ast.If):
            if not last.orelse:
                return None
            a, b = tails(last.body, flag, protected), tails(last.orelse, flag, protected)
            return None if a is None or b is None else a + b
        if isinstance(last, ast.Try):
            if last.finalbody:
                return None
            out = tails(last.orelse, flag, protected) if last.orelse else tails(last.body, flag, True)
            if out is None:
                return None
            for h in last.handlers:
                t = tails(h.body, flag, protected)
                if t is None:
                    return None
                out = out + t
            return out
        if isinstance(last, ast.With):
            return tails(last.body, flag, True)
        return None

    changed = True
    while changed:
        changed = False
        for holder in ast.walk(fn):
            for fld in ("body", "orelse", "finalbody"):
                blk = getattr(holder, fld, None)
                if not isinstance(blk, list):
                    continue
                for i in range(len(blk) - 1):
                    a, b = blk[i], blk[i + 1]
                    if not (isinstance(b, ast.If) and isinstance(a, (ast.If, ast.Try, ast.With))):
                        continue
                    t = b.test
                    neg = False
                    if isinstance(t, ast.UnaryOp) and isinstance(t.op, ast.Not):
                        t, neg = t.operand, True
                    if not isinstance(t, ast.Name):
                        continue
                    flag = t.id
                    loads = [n for n in ast.walk(fn) if isinstance(n, ast.Name) and n.id == flag and isinstance(n.ctx, ast.Load)]
                    if len(loads) != 1:
                        continue
                    stores_ok = True
                    for n in ast.walk(fn):
                        if isinstance(n, ast.Assign) and any(isinstance(x, ast.Name) and x.id == flag for tg in n.targets for x in ast.walk(tg)):
                            if not (len(n.targets) == 1 and isinstance(n.targets[0], ast.Name) and isinstance(n.value, ast.Constant) and isinstance(n.value.value, bool)):
                                stores_ok = False
                        elif isinstance(n, (ast.AugAssign, ast.AnnAssign, ast.For, ast.comprehension, ast.NamedExpr, ast.withitem, ast.ExceptHandler, ast.Global, ast.Nonlocal, ast.Delete)):
                            for x in ast.walk(n.target if hasattr(n, "target") else n):
                                if isinstance(x, ast.Name) and x.id == flag and isinstance(getattr(x, "ctx", None), (ast.Store, ast.Del)) and not isinstance(n, (ast.For, ast.ExceptHandler, ast.withitem)):
                                    stores_ok = False
                            if isinstance(n, ast.ExceptHandler) and n.name == flag:
                                stores_ok = False
                            if isinstance(n, (ast.Global, ast.Nonlocal)) and flag in n.names:
                                stores_ok = False
                    if not stores_ok or flag in [x.arg for x in fn.args.args]:
                        continue
                    tl = tails([a], flag, False)
                    if not tl:
                        continue
                    plan = []
                    ok = True
                    for (tb, const, prot) in tl:
                        chosen = b.body if (const != neg) else b.orelse
                        if not chosen:
                            plan.append((tb, []))
                            continue
                        if prot or not simple_tail(chosen):
                            ok = False
                            break
                        plan.append((tb, chosen))
                    if not ok:
                        continue
                    for tb, chosen in plan:
                        tb.extend(copy.deepcopy(chosen))
                    del blk[i + 1]
                    done += 1
                    changed = True
                    break
                if changed:
                    break
            if changed:
                break
    if done:
        ast.fix_missing_locations(fn)
    return done


class _LiteralAttr(ast.NodeTransformer):
    """getattr(x, "name") -> x.name ; setattr(x, "name", v) as a statement -> x.name = v   (literal identifier that is not
    class-private: inside a class body `x.__n` would be mangled while the string is not)"""

    @staticmethod
    def _ok(e):
        return isinstance(e, ast.Constant) and isinstance(e.value, str) and e.value.isidentifier() and not e.value.startswith("__")

    def visit_Call(self, node):
        self.generic_visit(node)
        if isinstance(node.func, ast.Name) and node.func.id == "getattr" and len(node.args) == 2 and not node.keywords and self._ok(node.args[1]):
            return ast.copy_location(ast.Attribute(value=node.args[0], attr=node.args[1].value, ctx=ast.Load()), node)
        return node

    def visit_Expr(self, node):
        self.generic_visit(node)
        c = node.value
        if isinstance(c, ast.Call) and isinstance(c.func, ast.Name) and c.func.id == "setattr" and len(c.args) == 3 and not c.keywords and self._ok(c.args[1]):
            return ast.copy_location(ast.Assign(targets=[ast.Attribute(value=c.args[0], attr=c.args[1].value, ctx=ast.Store())], value=c.args[2]), node)
        return node


def _merge_conditional_defs(fn):
    """A parameterless local function defined differently in the arms of an if / elif / else and called afterwards:

        if A:   def f(): return X                 if A:   REST[f() := X]
        elif B: def f(): return Y        ==>      elif B: REST[f() := Y]
        else:   raise E                           else:   raise E
        REST  (calls f())

    Duplicating the continuation into the arms is exact; replacing `f()` by the returned expression is exact because f takes no
    argument, is bound only by these definitions, is only ever called, and a closure reads its free variables when called."""
    done = 0
    for holder in ast.walk(fn):
        for fld in ("body", "orelse", "finalbody"):
            blk = getattr(holder, fld, None)
            if not isinstance(blk, list):
                continue
            for i, st in enumerate(blk):
                if not isinstance(st, ast.If) or i + 1 >= len(blk):
                    continue
                arms, cur, ok = [], st, True
                while True:
                    arms.append(cur.body)
                    if len(cur.orelse) == 1 and isinstance(cur.orelse[0], ast.If):
                        cur = cur.orelse[0]
                        continue
                    if not cur.orelse:
                        ok = False
                    else:
                        arms.append(cur.orelse)
                    break
                if not ok:
                    continue
                name, defs = None, []
                for arm in arms:
                    if arm and isinstance(arm[-1], (ast.Raise, ast.Return)) and not any(isinstance(x, ast.FunctionDef) for s_ in arm for x in ast.walk(s_)):
                        continue
                    if len(arm) == 1 and isinstance(arm[0], ast.FunctionDef):
                        d = arm[0]
                        body = [b for b in d.body if not (isinstance(b, ast.Expr) and isinstance(b.value, ast.Constant))]
                        a = d.args
                        if not (a.args or a.vararg or a.kwarg or a.kwonlyargs or a.posonlyargs or d.decorator_list) and len(body) == 1 and \
                                isinstance(body[0], ast.Return) and body[0].value is not None and (name is None or name == d.name) and \
                                not any(isinstance(x, (ast.Yield, ast.YieldFrom, ast.Await, ast.Lambda, ast.NamedExpr)) for x in ast.walk(body[0])):
                            name = d.name
                            defs.append((arm, body[0].value))
                            continue
                    ok = False
                    break
                if not ok or not defs:
                    continue
                rest = blk[i + 1:]
                if sum(1 for r in rest for _x in ast.walk(r) if isinstance(_x, ast.stmt)) > 15:
                    continue
                loads = [n for n in ast.walk(fn) if isinstance(n, ast.Name) and n.id == name and isinstance(n.ctx, ast.Load)]
                calls = [n for r in rest for n in ast.walk(r) if isinstance(n, ast.Call) and isinstance(n.func, ast.Name) and n.func.id == name
                         and not n.args and not n.keywords]
                stores = [n for n in ast.walk(fn) if (isinstance(n, ast.Name) and n.id == name and isinstance(n.ctx, (ast.Store, ast.Del))) or
                          (isinstance(n, ast.FunctionDef) and n.name == name) or (isinstance(n, ast.arg) and n.arg == name)]
                if not calls or len(loads) != len(calls) or len(stores) != len(defs):
                    continue
                # the free variables of the returned expressions must not be rebound in REST before the call: keep it simple and
                # require that REST does not store any of them at all
                free = set(x.id for (_a, e) in defs for x in ast.walk(e) if isinstance(x, ast.Name))
                if free & _names_stored(rest):
                    continue
                for (arm, e) in defs:
                    new_rest = [copy.deepcopy(r) for r in rest]

                    class _R(ast.NodeTransformer):
                        def visit_Call(self_, node):
                            self_.generic_visit(node)
                            if isinstance(node.func, ast.Name) and node.func.id == name and not node.args and not node.keywords:
                                return ast.copy_location(copy.deepcopy(e), node)
                            return node
                    arm[:] = [_R().visit(r) for r in new_rest]
                del blk[i + 1:]
                done += 1
                break
    if done:
        ast.fix_missing_locations(fn)
    return done


_BOOL_METHODS = ("is_alive", "isAlive", "is_set", "isSet", "empty", "full", "locked")


class _IterSentinel(ast.NodeTransformer):
    """`for _ in iter(x.is_alive, False): BODY` -> `while x.is_alive(): BODY` (the two-argument iter calls the bound method before
    every round and stops when the result equals False; for a method that returns a bool that is the while loop), the loop
    variable being unused"""

    def visit_For(self, node):
        self.generic_visit(node)
        it = node.iter
        if isinstance(it, ast.Call) and isinstance(it.func, ast.Name) and it.func.id == "iter" and len(it.args) == 2 and not it.keywords and \
                isinstance(it.args[1], ast.Constant) and it.args[1].value is False and isinstance(it.args[0], ast.Attribute) and \
                it.args[0].attr in _BOOL_METHODS and isinstance(node.target, ast.Name):
            used = [n for st in node.body + node.orelse for n in ast.walk(st) if isinstance(n, ast.Name) and n.id == node.target.id]
            if not used:
                call = ast.Call(func=it.args[0], args=[], keywords=[])
                return ast.fix_missing_locations(ast.copy_location(ast.While(test=call, body=node.body, orelse=node.orelse), node))
        return node


def deselect_module(tree):
    """Rewrite calls through a (callable, arguments) pair chosen by an if/else into the two direct calls (in place)."""
    n = 0
    counter = [0]
    _CallLambda().visit(tree)
    _IterSentinel().visit(tree)
    for fn_ in [x for x in ast.walk(tree) if isinstance(x, ast.FunctionDef)]:
        _merge_conditional_defs(fn_)
    _LiteralAttr().visit(tree)
    ast.fix_missing_locations(tree)
    _ReturnIfExp().visit(tree)
    for st in ast.walk(tree):
        if isinstance(st, ast.FunctionDef):
            if _deselect_block(st.body, st, counter):
                n += 1
    return n


# ---------------------------------------------------------------------------
# new helpers living in another module of the package
# ---------------------------------------------------------------------------
PKG_NAME = "jsonrpclib"


def _module_aliases(tree):
    """local name -> package module it denotes (import jsonrpclib.utils as utils / from jsonrpclib import utils)"""
    out = {}
    for st in ast.walk(tree):
        if isinstance(st, ast.Import):
            for al in st.names:
                parts = al.name.split(".")
                if parts[0] == PKG_NAME and len(parts) == 2 and al.asname:
                    out[al.asname] = parts[1]
        elif isinstance(st, ast.ImportFrom) and st.module == PKG_NAME and st.level == 0:
            for al in st.names:
                out[al.asname or al.name] = al.name
    return out


def _top_level_bindings(tree, imports=False):
    """names bound at module level by def / class / assignment (and, on request, by import: `import inspect` makes
    `<module>.inspect` an attribute of the module as well)"""
    out = set()
    stack = list(tree.body)
    while stack:
        st = stack.pop()
        if imports and isinstance(st, ast.Import):
            for al in st.names:
                out.add((al.asname or al.name).split(".")[0])
        elif imports and isinstance(st, ast.ImportFrom):
            for al in st.names:
                if al.name != "*":
                    out.add(al.asname or al.name)
        if isinstance(st, (ast.FunctionDef, ast.ClassDef)):
            out.add(st.name)
        elif isinstance(st, ast.Assign):
            for t in st.targets:
                for n in ast.walk(t):
                    if isinstance(n, ast.Name):
                        out.add(n.id)
        elif isinstance(st, (ast.If, ast.Try)):
            stack.extend(st.body)
            stack.extend(st.orelse)
            if isinstance(st, ast.Try):
                for h in st.handlers:
                    stack.extend(h.body)
    return out


class _Qualify(ast.NodeTransformer):
    def __init__(self, names, alias, local):
        self.names, self.alias, self.local = names, alias, local

    def visit_Name(self, node):
        if isinstance(node.ctx, ast.Load) and node.id in self.names and node.id not in self.local:
            base = copy.deepcopy(self.alias) if isinstance(self.alias, ast.AST) else ast.Name(id=self.alias, ctx=ast.Load())
            return ast.copy_location(ast.Attribute(value=base, attr=node.id, ctx=ast.Load()), node)
        return node


def import_foreign_helpers(trees):
    """A call `alias.h(...)` of a *new* module-level function h of another package module gets a private copy of h in the
    calling module (its references to its own module's globals qualified with the alias), so that the same-module helper
    expansion applies to it.  -> {caller module: [copied helper names]}"""
    known = known_functions()
    done = {}
    for mname, tree in trees.items():
        aliases = _module_aliases(tree)
        pkg_imported = any(isinstance(st, ast.Import) and any(al.name.split(".")[0] == PKG_NAME and not al.asname for al in st.names)
                           for st in ast.walk(tree))
        if not aliases and not pkg_imported:
            continue
        copies = {}
        for call in [n for n in ast.walk(tree) if isinstance(n, ast.Call)]:
            f = call.func
            if not isinstance(f, ast.Attribute):
                continue
            if isinstance(f.value, ast.Name) and f.value.id in aliases:
                src_mod = aliases[f.value.id]
            elif pkg_imported and isinstance(f.value, ast.Attribute) and isinstance(f.value.value, ast.Name) and f.value.value.id == PKG_NAME \
                    and f.value.attr in trees:
                src_mod = f.value.attr          # jsonrpclib.<module>.h(...)
            else:
                continue
            if src_mod == mname or src_mod not in trees or f.attr in known.get(src_mod, set()):
                continue
            fn = next((st for st in trees[src_mod].body if isinstance(st, ast.FunctionDef) and st.name == f.attr), None)
            if fn is None or fn.decorator_list or _has_yield(fn) or fn.args.vararg or fn.args.kwarg or fn.args.kwonlyargs or fn.args.posonlyargs:
                continue
            new_name = "_x_%s_%s" % (src_mod, fn.name)
            if new_name not in copies:
                local = set(a.arg for a in fn.args.args)
                for n in ast.walk(fn):
                    if isinstance(n, ast.Name) and isinstance(n.ctx, (ast.Store, ast.Del)):
                        local.add(n.id)
                    elif isinstance(n, ast.ExceptHandler) and n.name:
                        local.add(n.name)
                cp = copy.deepcopy(fn)
                cp.name = new_name
                # names the helper takes from its own module's top level: definitions, and imports the calling module does not
                # have under the same name
                dest_imports = _top_level_bindings(tree, imports=True) - _top_level_bindings(tree)
                src_names = _top_level_bindings(trees[src_mod]) | ((_top_level_bindings(trees[src_mod], imports=True) - _top_level_bindings(trees[src_mod])) - dest_imports)
                cp.body = [_Qualify(src_names, f.value, local).visit(st) for st in cp.body]
                cp.args.defaults = [_Qualify(_top_level_bindings(trees[src_mod]), f.value, set()).visit(d) for d in cp.args.defaults]
                ast.fix_missing_locations(cp)
                copies[new_name] = cp
            call.func = ast.copy_location(ast.Name(id=new_name, ctx=ast.Load()), f)
        if copies:
            tree.body.extend(copies.values())
            done[mname] = sorted(copies)
    return done


def _hoist_static_methods(tree, known):
    """`K.m(...)` where K is a new top-level class and m one of its static methods -> `_K_m(...)`, a module-level copy of m (a
    namespace class used as a bag of helpers); the class itself stays for whatever else refers to it."""
    done = 0
    classes = {}
    for st in tree.body:
        if isinstance(st, ast.ClassDef) and not any(k.startswith(st.name + ".") or k == st.name for k in known):
            ms = dict((m.name, m) for m in st.body if isinstance(m, ast.FunctionDef) and
                      [ast.unparse(d) for d in m.decorator_list] == ["staticmethod"])
            if ms:
                classes[st.name] = ms
    if not classes:
        return 0
    taken = set(n.id for n in ast.walk(tree) if isinstance(n, ast.Name)) | set(n.name for n in ast.walk(tree) if isinstance(n, (ast.FunctionDef, ast.ClassDef)))
    made = {}
    again = True
    while again:
        again = False
        for n in list(ast.walk(tree)):
            if isinstance(n, ast.Call) and isinstance(n.func, ast.Attribute) and isinstance(n.func.value, ast.Name) and \
                    n.func.value.id in classes and n.func.attr in classes[n.func.value.id]:
                key = (n.func.value.id, n.func.attr)
                nm = "_%s_%s" % (key[0].strip("_"), key[1].strip("_"))
                if key not in made:
                    if nm in taken:
                        continue
                    cp = copy.deepcopy(classes[key[0]][key[1]])
                    cp.name = nm
                    cp.decorator_list = []
                    made[key] = cp
                    tree.body.append(cp)          # (its own calls of static methods are rewritten on the next round)
                    again = True
                n.func = ast.copy_location(ast.Name(id=nm, ctx=ast.Load()), n.func)
                done += 1
    if made:
        # the originals no expression refers to any more are dead definitions
        for st in tree.body:
            if isinstance(st, ast.ClassDef) and st.name in classes:
                refs = set(n.attr for n in ast.walk(tree) if isinstance(n, ast.Attribute) and isinstance(n.value, ast.Name) and
                           n.value.id in (st.name, "self", "cls"))
                dyn = any(isinstance(n, ast.Call) and isinstance(n.func, ast.Name) and n.func.id in ("getattr", "vars", "dir") and n.args and
                          isinstance(n.args[0], ast.Name) and n.args[0].id == st.name for n in ast.walk(tree))
                inst = any(isinstance(n, ast.Name) and n.id == st.name and isinstance(n.ctx, ast.Load) for n in ast.walk(tree)
                           if not any(isinstance(p_, ast.Attribute) and p_.value is n for p_ in ast.walk(tree)))
                if inst:
                    continue        # the class object itself is used as a value (instantiated, passed on): keep everything
                keep = [m for m in st.body if not (isinstance(m, ast.FunctionDef) and (st.name, m.name) in made and m.name not in refs and not dyn)]
                st.body = keep or [ast.Pass()]
        ast.fix_missing_locations(tree)
    return done


def inline_module(module_name, tree):
    """Expand new same-module helpers in `tree` (in place).  -> dict(expanded=..., removed=...) for evidence."""
    _hoist_static_methods(tree, known_functions().get(module_name, set()))
    deselect_module(tree)
    if propagate_aliases(tree):
        _ReturnIfExp().visit(tree)          # a display substituted for its alias may now be unrolled
        ast.fix_missing_locations(tree)
    known = known_functions().get(module_name, set())
    inl = _Inliner(module_name, tree, known)
    did = inl.run()
    if did:
        # the expanded bodies may contain the idioms the earlier passes normalise (aliases, displays spread into calls, ...)
        _IterSentinel().visit(tree)
        _ReturnIfExp().visit(tree)
        _LiteralAttr().visit(tree)
        for fn_ in [n for n in ast.walk(tree) if isinstance(n, ast.FunctionDef)]:
            _sink_flags(fn_)
            _sink_flag_tests(fn_)
            _untag_locals(fn_)
        ast.fix_missing_locations(tree)
        counter = [1000]
        for st in ast.walk(tree):
            if isinstance(st, ast.FunctionDef):
                _deselect_block(st.body, st, counter)
        if propagate_aliases(tree):
            _ReturnIfExp().visit(tree)
            ast.fix_missing_locations(tree)
    return {"expanded": dict(("%s.%s" % k if k[0] else k[1], v) for k, v in inl.expanded.items()),
            "removed": ["%s.%s" % k if k[0] else k[1] for k in getattr(inl, "removed", [])],
            "left": dict(("%s.%s" % k if k[0] else k[1], v) for k, v in inl.left.items())} if did or inl.left else None
