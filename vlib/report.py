"""E8 -- findings, obligations, evidence, known findings."""
import json
import os
import time

VERIF = os.path.dirname(os.path.dirname(os.path.abspath(__file__)))
KNOWN_FILE = os.path.join(VERIF, "known_findings.json")


class Finding(object):
    def __init__(self, prop, rule, construct, what, loc, path=None):
        self.prop = prop
        self.rule = rule
        self.construct = construct      # stable key: function + construct kind + callee/field (no line numbers)
        self.what = what
        self.loc = loc                  # file:line for the reader
        self.path = path

    @property
    def key(self):
        return (self.prop, self.rule, self.construct)

    def as_dict(self):
        d = {"property": self.prop, "rule": self.rule, "construct": self.construct,
             "what": self.what, "loc": self.loc}
        if self.path:
            d["path"] = self.path
        return d

    def line(self):
        s = "%s %s at %s: %s -- %s" % (self.prop, self.rule, self.loc, self.construct, self.what)
        if self.path:
            s += " [path: %s]" % self.path
        return s


class Check(object):
    """Collects the obligations examined by the rules of one property."""

    def __init__(self, prog, prop, tier="quick"):
        self.prog = prog
        self.prop = prop
        self.tier = tier
        self.findings = []
        self.obligations = []     # dicts {rule, construct, fact, loc, ok}
        self.stats = {}
        self.rules_run = []
        self.floor_failures = []
        self.deferred_errors = []
        self.analysis_error = None

    def guard(self, what):
        """`with ck.guard("C18.2 truth table"):` - an AnalysisError raised inside (construct outside the modelled subset)
        is kept for finish() instead of ending the run, so that the rules that follow still examine the code: a finding
        they establish stands (ANALYSIS-INCOMPLETE), and without any finding the run still ends as an analysis error."""
        ck = self

        class _G(object):
            def __enter__(self_):
                return self_

            def __exit__(self_, et, ev, tb):
                from .model import AnalysisError
                if et is not None and issubclass(et, AnalysisError):
                    ck.deferred_errors.append(AnalysisError("%s: %s" % (what, ev)))
                    return True
                return False
        return _G()

    def finish(self):
        """called after all rules ran: a floor failure without any finding is an analysis error"""
        from .model import AnalysisError
        if getattr(self, "deferred_errors", None):
            if not self.findings:
                raise self.deferred_errors[0]
            if self.analysis_error is None:
                self.analysis_error = self.deferred_errors[0]
        if self.floor_failures:
            if not self.findings:
                raise AnalysisError(self.floor_failures[0])
            if self.analysis_error is None:
                self.analysis_error = AnalysisError(self.floor_failures[0])

    def ok(self, rule, construct, fact, loc=""):
        self.obligations.append({"rule": rule, "construct": construct, "fact": fact, "loc": loc, "ok": True})

    def bad(self, rule, construct, what, loc="", path=None):
        self.obligations.append({"rule": rule, "construct": construct, "fact": what, "loc": loc, "ok": False})
        f = Finding(self.prop, rule, construct, what, loc, path)
        if f.key not in [x.key for x in self.findings]:
            self.findings.append(f)

    def require(self, cond, rule, construct, fact_ok, what_bad, loc="", path=None):
        if cond:
            self.ok(rule, construct, fact_ok, loc)
        else:
            self.bad(rule, construct, what_bad, loc, path)
        return cond

    def floor(self, rule, minimum):
        """Fail closed (analysis error) if a rule matched fewer instances than confirmed by hand."""
        from .model import AnalysisError
        n = len([o for o in self.obligations if o["rule"] == rule])
        if any(o["rule"] == rule and not o["ok"] for o in self.obligations):
            return    # the rule already reports a construct: that report stands
        if n < minimum:
            # deferred: evaluated by finish() once every rule has run, so that a violation found by a later
            # rule is still reported (the floor failure then only marks the analysis as incomplete)
            self.floor_failures.append("rule %s matched %d instance(s), floor is %d: the rule would pass vacuously"
                                       % (rule, n, minimum))

    def stat(self, key, value):
        self.stats[key] = self.stats.get(key, 0) + value


def run_rules(ck, mod):
    """Run the rules of the property, then the closed-world rules shared by all properties (rules/closed_world.py), then
    finish().  An AnalysisError of either part is raised only if no finding was established (findings stand, the run is
    then marked incomplete)."""
    from .model import AnalysisError
    err = None
    ov = ck.prog.unmodelled_overrides()
    if ov:
        raise AnalysisError("new method override(s) in the class hierarchy are not modelled: %s" % "; ".join(ov[:3]))
    try:
        mod.check(ck)
    except AnalysisError as ex:
        err = ex
    try:
        from rules import closed_world
        closed_world.check(ck)
    except AnalysisError as ex:
        err = err or ex
    try:
        ck.finish()
    except AnalysisError as ex:
        err = err or ex
    if err is not None:
        if not ck.findings:
            raise err
        if ck.analysis_error is None:
            ck.analysis_error = err


def load_known():
    if not os.path.exists(KNOWN_FILE):
        return []
    with open(KNOWN_FILE) as fh:
        return json.load(fh).get("findings", [])


def split_known(prop, findings):
    """-> (violations, known) ; a `known` entry matches on (property, rule, construct)."""
    known = [k for k in load_known() if k.get("property") == prop and k.get("status") == "known"]
    keys = set((k["property"], k["rule"], k["construct"]) for k in known)
    viol = [f for f in findings if f.key not in keys]
    kn = [f for f in findings if f.key in keys]
    stale = [k for k in known if (k["property"], k["rule"], k["construct"]) not in set(f.key for f in findings)]
    return viol, kn, stale


def write_evidence(prop, tier, check, meta, wall, violations, known, extra=None):
    obl = check.obligations
    distinct = len(set((o["rule"], o["construct"]) for o in obl))
    samples = []
    seen_rules = set()
    for o in obl:
        if o["rule"] not in seen_rules:
            seen_rules.add(o["rule"])
            samples.append({"rule": o["rule"], "construct": o["construct"], "derived": o["fact"], "at": o["loc"],
                            "holds": o["ok"]})
    try:
        from rules import closed_world as _cw
        meta = dict(meta)
        meta["explanation"] = meta["explanation"] + _cw.EXPLANATION
        meta["rules"] = dict(meta.get("rules", {}))
        for k_, v_ in _cw.RULE_METHODS.items():
            meta["rules"]["%s.%s" % (prop, k_)] = v_
    except ImportError:
        pass
    cov = {
        "explanation": meta["explanation"],
        "does_not_decide": meta.get("does_not_decide", ""),
        "rule": "one obligation per (rule, construct) instance found in /repo's current sources by the "
                "static rules named in `rules`; distinct_nontrivial counts distinct (rule, construct) pairs; "
                "an obligation is non-trivial because it names a concrete construct of the analysed code",
        "rules": meta.get("rules", {}),
        "evaluations": len(obl),
        "distinct_nontrivial": distinct,
        "obligations": len(obl),
        "discharged": len([o for o in obl if o["ok"]]),
        "known_findings": [f.as_dict() for f in known],
        "violations": [f.as_dict() for f in violations],
        "samples": samples,
        "instances": obl if len(obl) <= 400 else obl[:400],
        "analysed": check.stats,
        "checker_cmd": "/venv/bin/python bin/vcheck %s --tier %s" % (prop, tier),
        "trusted_base": meta.get("trusted_base", ["CPython ast module (parser)", "the E6 spec tables in vlib/spec.py",
                                                   "the stdlib facts listed under assumptions"]),
        "exhaustive": False,
    }
    import hashlib
    prog = check.prog
    cov["program"] = {
        "source": "/repo/jsonrpclib/*.py as found on disk at the start of this run (parsed with ast; nothing imported or executed)",
        "modules": dict((name, hashlib.sha1(m.text.encode("utf-8")).hexdigest()[:12]) for name, m in sorted(prog.modules.items())),
        "functions": len(prog.funcs), "classes": len(prog.classes),
        "helpers_expanded_inline": dict((name, m.inlined) for name, m in prog.modules.items() if getattr(m, "inlined", None)),
    }
    cov["rules_with_counts"] = dict((r, {"instances": len([o for o in obl if o["rule"] == r]),
                                         "discharged": len([o for o in obl if o["rule"] == r and o["ok"]])})
                                    for r in sorted(set(o["rule"] for o in obl)))
    if extra:
        cov.update(extra)
    ev = {
        "property_id": prop,
        "tier": tier,
        "seed": int(os.environ.get("VERIF_SEED", "0") or 0),
        "level": "other",
        "coverage": cov,
        "assumptions": meta.get("assumptions", []),
        "wall_s": round(wall, 3),
        "violations": len(violations),
    }
    os.makedirs(os.path.join(VERIF, "evidence"), exist_ok=True)
    path = os.path.join(VERIF, "evidence", "%s.json" % prop)
    with open(path, "w") as fh:
        json.dump(ev, fh, indent=1, sort_keys=True, default=str)
    return path


def write_replay(finding, n):
    d = os.path.join(VERIF, "replay")
    os.makedirs(d, exist_ok=True)
    path = os.path.join(d, "%s-%s-%d.json" % (finding.prop, finding.rule, n))
    with open(path, "w") as fh:
        json.dump(finding.as_dict(), fh, indent=1)
    return path
