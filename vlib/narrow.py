"""E4 -- JSON-type narrowing and may-raise analysis (forward abstract interpretation over E1 graphs).

Abstract value = set of type tags + keys known present (dict) + known non-empty + optional class name.
Every operation is classified: total for the narrowed operand types, or raising a named exception.
Exceptions are routed along the CFG's exception edges by class (hierarchy table below).
Calls to package functions are analysed with the abstract arguments (memoised summaries, with
return-correlated narrowing: `r = f(x)` followed by a test on r refines x to what f established on
the matching return sites).  Calls outside the package raise anything unless listed as total.
"""
import ast
from collections import deque
from .model import AnalysisError, dump, FuncInfo, mangle, is_logging_call
from .cfg import cfg_of, node_exprs
from . import q

ALL = frozenset(["none", "bool", "int", "float", "str", "bytes", "list", "tuple", "dict", "set", "frozenset",
                 "obj", "func", "class", "view"])
JSON = frozenset(["none", "bool", "int", "float", "str", "list", "dict"])
NUM = frozenset(["int", "float", "bool"])
SIZED = frozenset(["str", "bytes", "list", "tuple", "dict", "set", "frozenset", "view"])
CONTAINERS = frozenset(["str", "bytes", "list", "tuple", "dict", "set", "frozenset", "view"])
HASHED = frozenset(["dict", "set", "frozenset"])
UNHASHABLE = frozenset(["list", "dict", "set"])
ANYEXC = "Exception*"      # an exception of unknown class (subclass of Exception)

PARENT = {
    "Exception": "BaseException", "ArithmeticError": "Exception", "ZeroDivisionError": "ArithmeticError",
    "OverflowError": "ArithmeticError", "LookupError": "Exception", "KeyError": "LookupError",
    "IndexError": "LookupError", "TypeError": "Exception", "ValueError": "Exception", "UnicodeError": "ValueError",
    "UnicodeDecodeError": "UnicodeError", "UnicodeEncodeError": "UnicodeError", "AttributeError": "Exception",
    "OSError": "Exception", "IOError": "Exception", "RuntimeError": "Exception", "RecursionError": "RuntimeError",
    "NotImplementedError": "RuntimeError", "ImportError": "Exception", "AssertionError": "Exception",
    "NameError": "Exception", "StopIteration": "Exception", "queue.Full": "Exception", "queue.Empty": "Exception",
    "ProtocolError": "Exception", "AppError": "ProtocolError", "TransportError": "ProtocolError",
    "TranslationError": "Exception", "NoMulticallResult": "Exception", ANYEXC: "Exception",
}


_EXTRA_PARENTS = {}      # exception classes defined by the analysed program: name -> tuple of base names (set by Analyzer)


def program_exception_parents(prog):
    """{class name: (base names)} for the classes of the package that derive, directly or not, from a known exception class"""
    cache = prog.__dict__.get("_exc_parents")
    if cache is not None:
        return cache
    import builtins
    out = {}
    changed = True
    while changed:
        changed = False
        for ci in prog.classes.values():
            if ci.name in out or ci.name in PARENT:
                continue
            bases = [str(b).split(":")[-1].split(".")[-1] for b in ci.bases]
            known = [b for b in bases if b in PARENT or b in out or
                     (isinstance(getattr(builtins, b, None), type) and issubclass(getattr(builtins, b), BaseException))]
            if known:
                out[ci.name] = tuple(known)
                changed = True
    prog.__dict__["_exc_parents"] = out
    return out


def is_sub(exc, anc):
    import builtins
    seen, todo = set(), [exc]
    while todo:
        e = todo.pop()
        if e is None or e in seen:
            continue
        seen.add(e)
        if e == anc:
            return True
        if e in _EXTRA_PARENTS:
            todo.extend(_EXTRA_PARENTS[e])
        elif e in PARENT:
            todo.append(PARENT[e])
        else:
            k = getattr(builtins, e, None) if isinstance(e, str) else None
            if isinstance(k, type) and issubclass(k, BaseException) and k.__mro__[1:2]:
                todo.append(k.__mro__[1].__name__)       # a builtin exception outside the table (TimeoutError -> OSError)
    return False


class AV(object):
    __slots__ = ("types", "keys", "nonempty", "cls", "truthy")

    def __init__(self, types, keys=frozenset(), nonempty=False, cls=None, truthy=None):
        self.types = frozenset(types)
        self.keys = frozenset(keys)
        self.nonempty = nonempty
        self.cls = cls
        self.truthy = truthy

    def key(self):
        return (self.types, self.keys, self.nonempty, self.cls, self.truthy)

    def __eq__(self, o):
        return isinstance(o, AV) and self.key() == o.key()

    def __hash__(self):
        return hash(self.key())

    def __repr__(self):
        s = "|".join(sorted(self.types)) if self.types != ALL else "ANY"
        if self.cls:
            s += ":" + self.cls
        if self.keys:
            s += "{%s}" % ",".join(sorted(self.keys))
        if self.nonempty:
            s += "+"
        return s

    def join(self, o):
        if o is None:
            return self
        return AV(self.types | o.types, self.keys & o.keys, self.nonempty and o.nonempty,
                  self.cls if self.cls == o.cls else None, self.truthy if self.truthy == o.truthy else None)

    def only(self, types):
        t = self.types & frozenset(types)
        return AV(t, self.keys if "dict" in t else frozenset(), self.nonempty, self.cls if "obj" in t else None, self.truthy)

    def without(self, types):
        return self.only(self.types - frozenset(types))


def T(*types):
    return AV(types)


def obj(cls):
    return AV(["obj"], cls=cls)


ANY = AV(ALL)
JSONV = AV(JSON | frozenset(["obj"]))     # a parsed JSON value, possibly a translated object
BOOL = T("bool")
NONE = T("none")
STR = T("str")

# attributes of modelled classes: class -> attr -> AV (or 'method')
ATTRS = {
    "Config": {"version": T("int", "float"), "use_jsonclass": T("bool"), "content_type": STR, "user_agent": STR,
               "classes": T("dict"), "serialize_method": STR, "ignore_attribute": STR, "serialize_handlers": T("dict")},
    "SimpleJSONRPCDispatcher": {"json_config": obj("Config"), "encoding": STR, "funcs": T("dict"), "instance": ANY,
                                "_SimpleJSONRPCDispatcher__notification_pool": AV(["none", "obj"], cls=None)},
    "Fault": {"faultCode": T("int"), "faultString": STR, "rpcid": ANY, "config": obj("Config"), "data": ANY},
    "Payload": {"id": ANY, "version": T("float")},
}
# external / dynamic calls that cannot raise in the property's domain, one line of reason each
TOTAL_CALLS = {
    "isinstance": "type test", "type": "type of a value", "str": "str() assumed total (assumption)",
    "repr": "as str", "bool": "truthiness assumed total", "id": "identity", "callable": "test", "hasattr": "test",
    "print": "output", "format": "str.format on str()-able values (assumption)",
    "format_exception": "traceback.format_exception of the live exception", "exc_info": "sys.exc_info",
    "getLogger": "logging", "uuid4": "uuid", "Lock": "threading", "RLock": "threading", "Event": "threading",
}
LOGGER_METHODS = ("debug", "info", "warning", "error", "exception", "critical", "log")
STR_METHODS = ("format", "lower", "upper", "strip", "lstrip", "rstrip", "startswith", "endswith", "splitlines",
               "split", "join", "replace", "rpartition", "partition", "encode", "decode", "find", "count")


# values of the standard library whose type is fixed (one line of reason each)
EXT_VALUES = {
    "ext:sys.version_info": AV(["tuple"], nonempty=True),      # a named tuple of five fields
    "ext:sys.version": AV(["str"], nonempty=True),
    "ext:sys.maxsize": AV(["int"]),
}


class Summary(object):
    def __init__(self):
        self.ret = None
        self.escapes = []       # (exc, fi, node, why)
        self.ret_cases = []     # (ret AV, {param: AV})
        self.store_notes = []


class Analyzer(object):
    def __init__(self, prog, max_depth=12, total_in=()):
        self.total_in = set(total_in)     # (function fq, callee name) pairs trusted total, justified by the calling rule
        self.prog = prog
        global _EXTRA_PARENTS
        _EXTRA_PARENTS = program_exception_parents(prog)
        self.summaries = {}
        self.in_progress = set()
        self.n_ops = 0
        self.sample_ops = []
        self.max_depth = max_depth
        self.depth = 0
        self.observers = []     # callbacks (fi, node, state) for rules that inspect states

    # ------------------------------------------------------------------------------------------
    def analyze(self, fi, args):
        key = (fi.fq, tuple(sorted((k, v.key()) for k, v in args.items())))
        if key in self.summaries:
            return self.summaries[key]
        if key in self.in_progress or self.depth >= self.max_depth:
            s = Summary()
            s.ret = ANY
            return s
        self.in_progress.add(key)
        self.depth += 1
        try:
            s = _Run(self, fi, args).run()
        finally:
            self.depth -= 1
            self.in_progress.discard(key)
        self.summaries[key] = s
        return s

    def op(self, fi, node, desc):
        self.n_ops += 1
        if len(self.sample_ops) < 40:
            self.sample_ops.append((fi, node, desc))


def _join_state(a, b):
    if a is None:
        return dict(b)
    out = {}
    for k in set(a) | set(b):
        if k.startswith("$"):
            va, vb = a.get(k), b.get(k)
            if k == "$pending":
                out[k] = (va or frozenset()) | (vb or frozenset())
            elif k in ("$alias", "$corr"):
                if va is not None and vb is not None:
                    out[k] = dict((n, v) for n, v in va.items() if vb.get(n) is v or vb.get(n) == v)
                else:
                    out[k] = {}
            else:
                out[k] = va if va == vb else None
            continue
        va, vb = a.get(k), b.get(k)
        if va is None or vb is None:
            out[k] = ANY if (va is None and k not in a) or (vb is None and k not in b) else (va or vb)
            if va is None and k not in a:
                out[k] = ANY
            if vb is None and k not in b:
                out[k] = ANY
        else:
            out[k] = va.join(vb)
            # two paths that each established one (different) key of the same dictionary: the join keeps "one of the two is present"
            if "dict" in va.types and "dict" in vb.types:
                ea, eb = va.keys - vb.keys, vb.keys - va.keys
                if len(ea) == 1 and len(eb) == 1:
                    extra = dict(out.get("$either_new") or {})
                    extra[k] = ea | eb
                    out["$either_new"] = extra
    if out.get("$either_new"):
        cur_e = dict(out.get("$either") or ())
        cur_e.update(out["$either_new"])
        out["$either"] = tuple(sorted(cur_e.items(), key=lambda kv: kv[0]))
    out.pop("$either_new", None)
    return out


def _state_eq(a, b):
    if a is None or b is None:
        return a is b
    if set(a) != set(b):
        return False
    for k in a:
        if a[k] != b[k]:
            return False
    return True


class _Run(object):
    def __init__(self, an, fi, args):
        self.an = an
        self.prog = an.prog
        self.fi = fi
        self.g = cfg_of(fi)
        self.args = args
        self.summary = Summary()
        self.raises = []

    # ---- driver ------------------------------------------------------------------------------
    def run(self):
        g = self.g
        init = {}
        for p in self.fi.params:
            init[p] = self.args.get(p, ANY)
        a = self.fi.node.args
        params = a.args
        defaults = [None] * (len(params) - len(a.defaults)) + list(a.defaults)
        for p, d in zip(params, defaults):
            if p.arg not in self.args and d is not None:
                self.raises = []
                init[p.arg] = self.ev(d, {}, g.entry)
        if a.kwarg is not None:
            init[a.kwarg.arg] = self.args.get("**", T("dict"))       # (empty when the call site gives no extra keyword)
        if a.vararg is not None:
            init[a.vararg.arg] = self.args.get("*", T("tuple"))
        init["$pending"] = frozenset()
        init["$alias"] = {}
        init["$corr"] = {}
        IN = {g.entry.id: init}
        work = deque([g.entry.id])
        iters = 0
        while work:
            nid = work.popleft()
            iters += 1
            if iters > 20000:
                raise AnalysisError("E4 did not converge in %s" % self.fi.fq)
            node = g.nodes[nid]
            state = IN[nid]
            outs = self.transfer(node, state)     # list of (succ id, state)
            for (b, st) in outs:
                if st is None:
                    continue
                old = IN.get(b)
                new = _join_state(old, st) if old is not None else dict(st)
                if old is None or not _state_eq(old, new):
                    IN[b] = new
                    if b not in work:
                        work.append(b)
        self.IN = IN
        # results
        rets = []
        for n in g.live_nodes():
            if n.kind == "return" and n.id in IN:
                self.raises = []
                st = IN[n.id]
                if n.ast is not None and n.ast.value is not None:
                    v = self.ev(n.ast.value, st, n, record=False)
                else:
                    v = NONE
                rets.append(v)
                self.summary.ret_cases.append((v, dict((p, st.get(p, ANY)) for p in self.fi.params)))
        r = None
        for v in rets:
            r = v if r is None else r.join(v)
        self.summary.ret = r if r is not None else NONE
        st = IN.get(g.raise_exit.id)
        if st is not None:
            seen = set()
            for (exc, origin) in sorted(st.get("$pending", ()), key=lambda x: (x[0], x[1][0], x[1][1], x[1][2], x[1][3])):
                if (exc, origin) in seen:
                    continue
                seen.add((exc, origin))
                ofi = self.prog.funcs.get(origin[0], self.fi)
                onode = _NodeRef(origin[1], origin[2], origin[4] if len(origin) > 4 else -1)
                self.summary.escapes.append((exc, ofi, onode, origin[3]))
        for cb in self.an.observers:
            cb(self.fi, self.g, IN, self)
        return self.summary

    # ---- transfer ------------------------------------------------------------------------------
    def transfer(self, node, state):
        g = self.g
        succ = g.succ[node.id]
        k = node.kind
        outs = []
        self.raises = []
        post = state
        if k in ("entry", "join", "with_exit", "for_exit"):
            post = state
        elif k == "stmt":
            post = self.exec_stmt(node, state)
        elif k == "return":
            if node.ast is not None and node.ast.value is not None:
                self.ev(node.ast.value, state, node)
        elif k == "raise":
            exc = node.ast.exc
            if exc is None:
                for (e, o) in state.get("$caught", frozenset()) or frozenset([(ANYEXC, self.origin(node, "re-raise"))]):
                    self.raises.append((e, o))
            else:
                names = None
                if isinstance(exc, ast.Name):
                    # `e = SomeError(...)` on every path, then `raise e`: the classes of the instances that reach the statement
                    from . import prov as _prov
                    alts = _prov.value_alts(_prov.origin(self.g, node, exc))
                    got = []
                    for a in alts:
                        nm = a[1][1] if a[0] == "call" and a[1][0] == "global" else None
                        cls_ = nm.split(".")[-1] if isinstance(nm, str) else None
                        if cls_ and (cls_ in PARENT or cls_ in _EXTRA_PARENTS):
                            got.append(cls_)
                        else:
                            got = None
                            break
                    names = got
                for name in (names or [self.exc_name(exc, state, node)]):
                    self.raises.append((name, self.origin(node, "explicit raise")))
        elif k == "test":
            self.ev(node.ast, state, node)
        elif k == "iter":
            v = self.ev(node.ast, state, node)
            bad = v.types - CONTAINERS - frozenset(["obj"])
            if bad:
                self.raise_("TypeError", node, "iteration over %s" % "|".join(sorted(bad)))
            post = dict(state)
            post["$iter:%d" % node.id] = v
        elif k == "with_enter":
            self.ev(node.ast.context_expr, state, node)
            post = dict(state)
            for d in node.defs:
                post[d] = ANY
        elif k == "handler":
            post = dict(state)
            post["$caught"] = state.get("$pending", frozenset())
            post["$pending"] = frozenset()
            if node.ast.name:
                post[node.ast.name] = AV(["obj"], cls="exception")
        elif k == "for_body":
            post = dict(state)
            for d in node.defs:
                post[d] = ANY
                self.drop_alias(post, d)
            itv0 = None
            for key, v in state.items():
                if key.startswith("$iter:") and g.nodes[int(key[6:])].ast is node.ast.iter:
                    itv0 = v
            if itv0 is not None and itv0.truthy is False and itv0.types <= CONTAINERS and itv0.types:
                post = None          # a container known to be empty: the body is never entered
            if post is not None and isinstance(node.ast.target, ast.Name):
                itv = None
                # element type of the iterable
                for key, v in state.items():
                    if key.startswith("$iter:") and g.nodes[int(key[6:])].ast is node.ast.iter:
                        itv = v
                post[node.ast.target.id] = JSONV if (itv is not None and itv.types <= JSON | frozenset(["obj"])) else ANY
            # iteration over a module-level constant (tuple of scalars / of equal-length tuples): element types are known
            try:
                cv = self.prog.const(self.fi.module, node.ast.iter) if post is not None and isinstance(node.ast.iter, (ast.Name, ast.Attribute, ast.Tuple)) else None
            except AnalysisError:
                cv = None

            def _tag(x):
                return {str: "str", bool: "bool", int: "int", float: "float", type(None): "none", tuple: "tuple"}.get(type(x))
            if isinstance(cv, tuple) and cv:
                tgt = node.ast.target
                if isinstance(tgt, ast.Name) and all(_tag(x) for x in cv):
                    post[tgt.id] = AV(sorted(set(_tag(x) for x in cv)), nonempty=all(bool(x) for x in cv))
                elif isinstance(tgt, ast.Tuple) and all(isinstance(e, ast.Name) for e in tgt.elts) and \
                        all(isinstance(x, tuple) and len(x) == len(tgt.elts) and all(_tag(y) for y in x) for x in cv):
                    for i_, e in enumerate(tgt.elts):
                        post[e.id] = AV(sorted(set(_tag(x[i_]) for x in cv)), nonempty=all(bool(x[i_]) for x in cv))
        if post is not None and any(kk.startswith("self.") for kk in post) and k in ("stmt", "test", "iter", "with_enter") \
                and getattr(self, "_heap_call", False):
            post = dict((kk, vv) for kk, vv in post.items() if not kk.startswith("self."))
        self._heap_call = False
        # exceptions raised by this node
        exc_targets = [(b, l) for (b, l) in succ if l == "exc"]
        normal = [(b, l) for (b, l) in succ if l != "exc"]
        if self.raises and k not in ("dispatch",):
            if not exc_targets and k != "join":
                # node was built as non-raising: make the graph sound by escaping to the function
                tgt = g.raise_exit.id
            else:
                tgt = exc_targets[0][0] if exc_targets else g.raise_exit.id
            st = dict(state)
            st["$pending"] = frozenset(self.raises)
            outs.append((tgt, st))
        if k == "join" and exc_targets and not self.raises:
            # re-raise point at the end of an exceptional finally copy
            if state.get("$pending"):
                outs.append((exc_targets[0][0], state))
            normal = [x for x in normal]
        if k == "dispatch":
            return self.dispatch(node, state)
        if k == "test":
            for (b, l) in normal:
                bn = g.nodes[b]
                outs.append((b, self.narrow(bn.test, bn.polarity, post, bn)))
            return outs
        if k == "for":
            for (b, l) in normal:
                outs.append((b, post))
            return outs
        for (b, l) in normal:
            outs.append((b, post))
        return outs

    def dispatch(self, node, state):
        outs = []
        remaining = set(state.get("$pending", frozenset()))
        for (types, hid) in node.handlers:
            caught = set()
            if types is None:
                caught = set(remaining)
                remaining = set()
            else:
                names = [self.exc_name(t, state, node) for t in types]
                for (e, o) in list(remaining):
                    if any(is_sub(e, n) for n in names):
                        caught.add((e, o))
                        remaining.discard((e, o))
                    elif e == ANYEXC and not any(n in ("Exception", "BaseException") for n in names):
                        caught.add((e, o))     # may be caught, may pass
            if caught:
                st = dict(state)
                st["$pending"] = frozenset(caught)
                outs.append((hid, st))
        if remaining and node.outer is not None:
            st = dict(state)
            st["$pending"] = frozenset(remaining)
            outs.append((node.outer, st))
        elif remaining:
            # catch-all present but typed exceptions remain (cannot happen) -> outward for soundness
            st = dict(state)
            st["$pending"] = frozenset(remaining)
            outs.append((self.g.raise_exit.id, st))
        return outs

    # ---- helpers -------------------------------------------------------------------------------
    def origin(self, node, why):
        return (self.fi.fq, getattr(node, "lineno", None) or 0, q.stmt_text(node) if node is not None and hasattr(node, "kind") else "", why,
                getattr(node, "id", -1))

    def raise_(self, exc, node, why):
        self.raises.append((exc, self.origin(node, why)))

    def exc_name(self, e, state, node):
        if isinstance(e, ast.Call):
            e = e.func
        txt = dump(e)
        if txt in PARENT or txt in ("BaseException",):
            return txt
        last = txt.split(".")[-1]
        if txt in ("queue.Full", "queue.Empty"):
            return txt
        if last in PARENT:
            return last
        if last in _EXTRA_PARENTS:
            return last
        import builtins
        k = getattr(builtins, last, None)
        if isinstance(k, type) and issubclass(k, BaseException):
            return last
        if isinstance(e, ast.Name) and e.id in state and state[e.id].cls == "exception":
            return ANYEXC
        return ANYEXC

    def drop_alias(self, st, name):
        for kk in [kk for kk in st if kk.startswith(name + "[")]:
            del st[kk]
        if st.get("$either"):
            st["$either"] = tuple(kv for kv in st["$either"] if kv[0] != name)
        if st.get("$haskey"):
            st["$haskey"] = frozenset(p_ for p_ in st["$haskey"] if name not in p_)
        al = st.get("$alias") or {}
        if al:
            st["$alias"] = dict((k, v) for k, v in al.items() if k != name and name not in v[1])
        co = st.get("$corr") or {}
        if co:
            st["$corr"] = dict((k, v) for k, v in co.items() if k != name and name not in v[1].values())

    # ---- statements -------------------------------------------------------------------------------
    def exec_stmt(self, node, state):
        a = node.ast
        st = state
        if isinstance(a, ast.Expr):
            if isinstance(a.value, ast.Constant):
                return st
            v = self.ev(a.value, st, node)
            return self.after_call_effects(a.value, st, node)
        if isinstance(a, ast.Assign):
            v = self.ev(a.value, st, node)
            st = dict(st)
            for t in a.targets:
                self.assign(t, v, a.value, st, node)
            return st
        if isinstance(a, ast.AugAssign):
            rhs = self.ev(a.value, st, node)
            st = dict(st)
            if isinstance(a.target, ast.Name):
                cur = st.get(a.target.id, ANY)
                self.an.op(self.fi, node, "augmented assignment on %r" % cur)
                tuples = cur.types <= frozenset(["tuple"]) and rhs.types <= frozenset(["tuple"]) and isinstance(a.op, ast.Add)
                if not (tuples or cur.types <= NUM or cur.types <= frozenset(["str"]) or cur.types <= frozenset(["list"])):
                    self.raise_("TypeError", node, "augmented assignment on %r" % cur)
                self.drop_alias(st, a.target.id)
                st.pop("$arity:" + a.target.id, None)
            else:
                self.ev(a.target, st, node)
            return st
        if isinstance(a, ast.Delete):
            for t in a.targets:
                if isinstance(t, ast.Subscript):
                    self.ev(ast.Subscript(value=t.value, slice=t.slice, ctx=ast.Load()), st, node)
            return st
        if isinstance(a, (ast.Pass, ast.Global, ast.Nonlocal)):
            return st
        if isinstance(a, (ast.FunctionDef, ast.ClassDef)):
            st = dict(st)
            st[a.name] = T("func") if isinstance(a, ast.FunctionDef) else T("class")
            return st
        if isinstance(a, (ast.Import, ast.ImportFrom)):
            self.raise_("ImportError", node, "import")
            st = dict(st)
            for d in node.defs:
                st[d] = ANY
            return st
        if isinstance(a, ast.Assert):
            # An assertion states an invariant of the code: its test is evaluated (the operations in it can raise) and the
            # invariant is assumed afterwards; whether it can fail is decided where values are known (the E7 tables run the
            # same statement on their representatives), not by this type-level analysis.
            self.ev(a.test, st, node)
            try:
                t_ = self.narrow(a.test, True, st, node)
                return t_ if t_ is not None else st
            except AnalysisError:
                return st
        if isinstance(a, ast.AnnAssign):
            if a.value is not None:
                v = self.ev(a.value, st, node)
                st = dict(st)
                self.assign(a.target, v, a.value, st, node)
            return st
        raise AnalysisError("E4: statement %s not modelled (%s)" % (type(a).__name__, self.fi.fq))

    def assign(self, t, v, value_expr, st, node):
        if isinstance(t, ast.Name):
            st[t.id] = v
            self.drop_alias(st, t.id)
            st.pop("$arity:" + t.id, None)
            if isinstance(value_expr, ast.Tuple) and not any(isinstance(x, ast.Starred) for x in value_expr.elts):
                st["$arity:" + t.id] = len(value_expr.elts)      # a tuple display of known length
            if isinstance(value_expr, (ast.Compare, ast.BoolOp)) or (
                    isinstance(value_expr, ast.UnaryOp) and isinstance(value_expr.op, ast.Not)) or (
                    isinstance(value_expr, ast.Call) and dump(value_expr.func) == "isinstance"):
                names = frozenset(n.id for n in ast.walk(value_expr) if isinstance(n, ast.Name))
                if t.id not in names:
                    al = dict(st.get("$alias") or {})
                    al[t.id] = (value_expr, names)
                    st["$alias"] = al
            if isinstance(value_expr, ast.Call) and not value_expr.keywords and value_expr.args and \
                    all(isinstance(x, ast.Name) for x in value_expr.args):
                # `flag = predicate(x)` where the package function is one `return <test over its parameters>`: the flag stands for
                # that test on x (narrowing on the flag narrows x)
                try:
                    r_ = self.prog.resolve_call(self.fi, value_expr)
                except Exception:
                    r_ = None
                node_ = getattr(r_, "node", None)
                if isinstance(node_, ast.FunctionDef) and not getattr(r_, "cls", None):
                    body_ = [b for b in node_.body if not (isinstance(b, ast.Expr) and isinstance(b.value, ast.Constant))]
                    params_ = [x.arg for x in node_.args.args]
                    if len(body_) == 1 and isinstance(body_[0], ast.Return) and isinstance(body_[0].value, (ast.Compare, ast.BoolOp, ast.UnaryOp)) and \
                            len(params_) == len(value_expr.args) and not (node_.args.vararg or node_.args.kwarg or node_.args.kwonlyargs):
                        mp_ = dict(zip(params_, [x.id for x in value_expr.args]))
                        used_ = set(n.id for n in ast.walk(body_[0].value) if isinstance(n, ast.Name))
                        import builtins as _bi
                        if all(u in mp_ or hasattr(_bi, u) for u in used_):
                            import copy as _copy

                            class _Sub(ast.NodeTransformer):
                                def visit_Name(self_, nd):
                                    return ast.copy_location(ast.Name(id=mp_.get(nd.id, nd.id), ctx=nd.ctx), nd)
                            cache_ = self.an.__dict__.setdefault("_pred_alias", {})
                            if id(value_expr) not in cache_:       # (one stable object per call site: states are compared by identity)
                                cache_[id(value_expr)] = (_Sub().visit(_copy.deepcopy(body_[0].value)), value_expr)
                            test_ = cache_[id(value_expr)][0]
                            names = frozenset(n.id for n in ast.walk(test_) if isinstance(n, ast.Name))
                            if t.id not in names:
                                al = dict(st.get("$alias") or {})
                                al[t.id] = (test_, names)
                                st["$alias"] = al
            if isinstance(value_expr, ast.Call) and getattr(self, "_last_call", None) is not None \
                    and self._last_call[0] is value_expr:
                summ, amap = self._last_call[1], self._last_call[2]
                if amap and t.id not in amap.values():
                    co = dict(st.get("$corr") or {})
                    co[t.id] = (summ, amap)
                    st["$corr"] = co
            return
        if isinstance(t, (ast.Tuple, ast.List)):
            self.an.op(self.fi, node, "unpack %r into %d names" % (v, len(t.elts)))
            if not (v.types <= frozenset(["tuple", "list"]) and getattr(self, "_last_tuple_len", None) == len(t.elts)):
                if not v.types <= frozenset(["tuple"]) or True:
                    # arity unknown unless the value is a display of the same length
                    if not (isinstance(value_expr, (ast.Tuple, ast.List)) and len(value_expr.elts) == len(t.elts)) \
                            and not (isinstance(value_expr, ast.Name) and st.get("$arity:" + value_expr.id) == len(t.elts)) \
                            and not self.unpack_ok(value_expr, len(t.elts), st):
                        self.raise_("ValueError" if v.types <= CONTAINERS else "TypeError", node, "unpacking %r" % v)
            for e in t.elts:
                self.assign(e, ANY, None, st, node)
            return
        if isinstance(t, ast.Attribute):
            base = self.ev(t.value, st, node)
            if not (isinstance(t.value, ast.Name) and t.value.id == "self") and not base.types <= frozenset(["obj"]):
                self.raise_("AttributeError", node, "attribute store on %r" % base)
            return
        if isinstance(t, ast.Subscript):
            base = self.ev(t.value, st, node)
            self.ev(t.slice, st, node)
            self.an.op(self.fi, node, "item store on %r" % base)
            if not base.types <= frozenset(["dict", "list", "obj"]):
                self.raise_("TypeError", node, "item store on %r" % base)
            elif "list" in base.types:
                self.raise_("IndexError", node, "list item store")
            if isinstance(t.value, ast.Name) and isinstance(t.slice, ast.Constant) and "dict" in base.types:
                nv = st.get(t.value.id, ANY)
                st[t.value.id] = AV(nv.types, nv.keys | frozenset([t.slice.value]), True, nv.cls)
                st["%s[%r]" % (t.value.id, t.slice.value)] = v
            return
        if isinstance(t, ast.Starred):
            self.assign(t.value, T("list"), None, st, node)
            return
        raise AnalysisError("E4: assignment target %s not modelled" % dump(t))

    def unpack_ok(self, value_expr, n, st):
        """known-arity producers: who-may-put facts and tuple-returning stdlib calls"""
        if isinstance(value_expr, ast.IfExp):
            return all((isinstance(x, (ast.Tuple, ast.List)) and len(x.elts) == n and not any(isinstance(y, ast.Starred) for y in x.elts))
                       or self.unpack_ok(x, n, st) for x in (value_expr.body, value_expr.orelse))
        if isinstance(value_expr, ast.Call):
            name = q.call_name(value_expr) if hasattr(q, "call_name") else None
            f = value_expr.func
            nm = f.attr if isinstance(f, ast.Attribute) else (f.id if isinstance(f, ast.Name) else None)
            if nm in ("rpartition", "partition") and n == 3:
                return True
            if nm in ("get_host_info",) and n == 3:
                return True
            if nm in ("get_handler_methods", "get_methods", "getparser") and n == 2:
                return True
        return False

    def after_call_effects(self, e, st, node):
        """x.setdefault(k, d) / x.update(...) make a key present."""
        if isinstance(e, ast.Call) and isinstance(e.func, ast.Attribute) and isinstance(e.func.value, ast.Name):
            name = e.func.value.id
            cur = st.get(name)
            if cur is not None and cur.types <= frozenset(["dict"]) and e.func.attr == "setdefault" and e.args \
                    and isinstance(e.args[0], ast.Constant):
                st = dict(st)
                st[name] = AV(cur.types, cur.keys | frozenset([e.args[0].value]), True, cur.cls)
            elif cur is not None and e.func.attr in ("pop", "clear", "popitem") and "dict" in cur.types:
                st = dict(st)
                st[name] = AV(cur.types, frozenset(), False, cur.cls)
                if st.get("$haskey"):
                    st["$haskey"] = frozenset(p_ for p_ in st["$haskey"] if p_[0] != name)
        return st

    # ---- narrowing ---------------------------------------------------------------------------------
    def narrow(self, test, pol, st, node, depth=0):
        """state after `test` evaluated to `pol`; None if infeasible"""
        if depth > 6:
            return st
        if isinstance(test, ast.UnaryOp) and isinstance(test.op, ast.Not):
            return self.narrow(test.operand, not pol, st, node, depth + 1)
        if isinstance(test, ast.BoolOp):
            is_and = isinstance(test.op, ast.And)
            if (is_and and pol) or (not is_and and not pol):
                cur = st
                for v in test.values:
                    cur = self.narrow(v, pol, cur, node, depth + 1)
                    if cur is None:
                        return None
                return cur
            # disjunction of outcomes: no refinement - except "one of these keys is present" (`"a" in d or "b" in d`), kept as a
            # fact that a later failed membership test of one key turns into the presence of the other
            if not is_and and pol:
                names, keys_ = set(), set()
                for v in test.values:
                    if isinstance(v, ast.Compare) and len(v.ops) == 1 and isinstance(v.ops[0], ast.In) and isinstance(v.left, ast.Constant) and \
                            isinstance(v.left.value, str) and isinstance(v.comparators[0], ast.Name):
                        names.add(v.comparators[0].id)
                        keys_.add(v.left.value)
                    else:
                        names = None
                        break
                if names and len(names) == 1:
                    st2 = dict(st)
                    cur_e = dict(st.get("$either") or ())
                    cur_e[list(names)[0]] = frozenset(keys_)
                    st2["$either"] = tuple(sorted(cur_e.items(), key=lambda kv: kv[0]))
                    return st2
            return st
        if isinstance(test, ast.Name):
            st2 = st
            al = (st.get("$alias") or {}).get(test.id)
            if al is not None:
                st2 = self.narrow(al[0], pol, st, node, depth + 1)
                if st2 is None:
                    return None
            v = st2.get(test.id)
            if v is not None:
                nv = self.truth_narrow(v, pol)
                if nv is None:
                    return None
                st2 = dict(st2)
                st2[test.id] = nv
            return st2
        if isinstance(test, ast.Call) and dump(test.func) == "isinstance" and len(test.args) == 2 \
                and isinstance(test.args[0], ast.Name):
            name = test.args[0].id
            ts = self.typeset(test.args[1], st)
            v = st.get(name, ANY)
            if ts is None:
                return st
            tags, classes = ts
            st2 = dict(st)
            # return-correlated narrowing
            corr = (st.get("$corr") or {}).get(name)
            if corr is not None:
                summ, amap = corr
                sel = []
                for (rv, pstate) in summ.ret_cases:
                    is_match = bool(rv.types & tags) or (rv.cls is not None and rv.cls in classes) if pol else \
                        not (rv.types <= tags and (("obj" not in rv.types) or (rv.cls in classes)))
                    if pol:
                        m = (rv.types & (tags - frozenset(["obj"]))) or ("obj" in rv.types and (rv.cls in classes or (rv.cls is None and "obj" in tags)))
                    else:
                        m = (rv.types - tags) or ("obj" in rv.types and "obj" in tags and rv.cls is not None and rv.cls not in classes) \
                            or ("obj" in rv.types and "obj" in tags and rv.cls is None)
                    if m:
                        sel.append((rv, pstate))
                if not sel:
                    return None
                for p, argname in amap.items():
                    j = None
                    for (_rv, pstate) in sel:
                        j = pstate.get(p, ANY) if j is None else j.join(pstate.get(p, ANY))
                    cur = st2.get(argname, ANY)
                    st2[argname] = self.meet(cur, j)
            if pol:
                keep = set(v.types & tags)
                if "obj" in v.types and classes and (v.cls is None or v.cls in classes):
                    keep.add("obj")
                if not keep:
                    return None
                st2[name] = AV(keep, v.keys if "dict" in keep else (), v.nonempty,
                               (v.cls or (sorted(classes)[0] if len(classes) == 1 else None)) if "obj" in keep else None, v.truthy)
            else:
                drop = set(tags - frozenset(["obj"]))
                keep = set(v.types - drop)
                if "obj" in v.types and v.cls is not None and v.cls in classes:
                    keep.discard("obj")
                if not keep:
                    return None
                st2[name] = AV(keep, v.keys if "dict" in keep else (), v.nonempty, v.cls if "obj" in keep else None, v.truthy)
            return st2
        if isinstance(test, ast.Compare) and len(test.ops) == 1:
            op = test.ops[0]
            left, right = test.left, test.comparators[0]
            if isinstance(op, (ast.Is, ast.IsNot)) and _selfkey(left) and isinstance(right, ast.Constant) and right.value is None:
                self.raises_backup = list(self.raises)
                v = self.ev(left, st, node)
                self.raises = self.raises_backup
                isnone = pol if isinstance(op, ast.Is) else not pol
                nv = v.only(["none"]) if isnone else v.without(["none"])
                if not nv.types:
                    return None
                st2 = dict(st)
                st2[_selfkey(left)] = nv
                return st2
            if isinstance(op, (ast.Is, ast.IsNot)) and isinstance(left, ast.Name) and isinstance(right, ast.Constant) and right.value is None:
                v = st.get(left.id, ANY)
                isnone = pol if isinstance(op, ast.Is) else not pol
                nv = v.only(["none"]) if isnone else v.without(["none"])
                if not nv.types:
                    return None
                st2 = dict(st)
                st2[left.id] = nv
                return st2
            # X.get("k") in (None, ...) is false / X.get("k") is not None  =>  "k" is present in X
            if isinstance(left, ast.Call) and isinstance(left.func, ast.Attribute) and left.func.attr == "get" and isinstance(left.func.value, ast.Name) \
                    and left.args and isinstance(left.args[0], ast.Constant) and (len(left.args) == 1 or (isinstance(left.args[1], ast.Constant) and left.args[1].value is None)):
                present = None
                if isinstance(op, (ast.In, ast.NotIn)) and isinstance(right, (ast.Tuple, ast.List, ast.Set)) and \
                        any(isinstance(x, ast.Constant) and x.value is None for x in right.elts):
                    present = (not pol) if isinstance(op, ast.In) else pol
                elif isinstance(op, (ast.Is, ast.IsNot)) and isinstance(right, ast.Constant) and right.value is None:
                    present = (not pol) if isinstance(op, ast.Is) else pol
                if present:
                    v = st.get(left.func.value.id, ANY)
                    if "dict" in v.types and isinstance(left.args[0].value, str):
                        st2 = dict(st)
                        st2[left.func.value.id] = AV(v.types, v.keys | frozenset([left.args[0].value]), True, v.cls)
                        return st2
                return st
            if isinstance(op, (ast.In, ast.NotIn)) and isinstance(left, ast.Name) and isinstance(right, ast.Name):
                if (pol if isinstance(op, ast.In) else not pol):
                    v_ = st.get(right.id, ANY)
                    if v_.truthy is False and v_.types <= CONTAINERS:
                        return None          # nothing is a member of a container known to be empty
                    nv_ = v_.only(CONTAINERS | frozenset(["obj"]))
                    if not nv_.types:
                        return None
                    st2 = dict(st)
                    st2[right.id] = AV(nv_.types, nv_.keys, True, nv_.cls)
                    st2["$haskey"] = frozenset(st.get("$haskey") or ()) | frozenset([(right.id, left.id)])
                    return st2
                return st
            if isinstance(op, (ast.In, ast.NotIn)) and isinstance(left, ast.Constant) and isinstance(right, ast.Name):
                v = st.get(right.id, ANY)
                present = pol if isinstance(op, ast.In) else not pol
                if present:
                    if v.truthy is False and v.types <= CONTAINERS:
                        return None          # a container known to be empty (no keyword argument was given) has no member
                    nv = v.only(CONTAINERS | frozenset(["obj"]))
                    if not nv.types:
                        return None
                    if isinstance(left.value, str):
                        nv = AV(nv.types, (nv.keys | frozenset([left.value])) if "dict" in nv.types else (), True, nv.cls)
                    st2 = dict(st)
                    st2[right.id] = nv
                    return st2
                if isinstance(left.value, str) and left.value in v.keys and v.types <= frozenset(["dict"]):
                    return None          # the key is known to be present: this outcome of the test is infeasible
                either = dict(st.get("$either") or ())
                if right.id in either and left.value in either[right.id]:
                    # one of the keys was known present and this one is absent: with one candidate left, that one is present
                    rest = either[right.id] - frozenset([left.value])
                    st2 = dict(st)
                    if len(rest) == 1 and "dict" in v.types:
                        st2[right.id] = AV(v.types, v.keys | rest, True, v.cls, v.truthy)
                        del either[right.id]
                    elif rest:
                        either[right.id] = rest
                    st2["$either"] = tuple(sorted(either.items(), key=lambda kv: kv[0]))
                    return st2
                return st
            if isinstance(op, (ast.Eq, ast.NotEq)) and isinstance(left, ast.Call) and dump(left.func) == "len" \
                    and isinstance(left.args[0], ast.Name) and isinstance(right, ast.Constant):
                eq = pol if isinstance(op, ast.Eq) else not pol
                if eq and isinstance(right.value, int) and right.value > 0:
                    v = st.get(left.args[0].id, ANY)
                    st2 = dict(st)
                    st2[left.args[0].id] = AV(v.types, v.keys, True, v.cls)
                    return st2
            if isinstance(op, (ast.Eq, ast.NotEq)) and isinstance(left, ast.Name) and isinstance(right, ast.Constant):
                eq = pol if isinstance(op, ast.Eq) else not pol
                v = st.get(left.id, ANY)
                if eq:
                    tag = _tag_of(right.value)
                    nv = v.only([tag] + (["int", "float", "bool"] if tag in NUM else []))
                    if not nv.types:
                        return None
                    st2 = dict(st)
                    st2[left.id] = nv
                    return st2
        return st

    def truth_narrow(self, v, pol):
        if pol and v.truthy is False:
            return None              # known falsy (an empty container established earlier): the true outcome is infeasible
        if not pol and v.truthy is True and v.types and v.types <= SIZED:
            return None
        if pol:
            nv = v.without(["none"])
            if not nv.types:
                return None
            return AV(nv.types, nv.keys, True if nv.types <= SIZED else nv.nonempty, nv.cls, True)
        else:
            nv = v.without(["func", "class"])
            if "obj" in nv.types and nv.cls in ("Fault", "Config", "exception", "Payload"):
                nv = nv.without(["obj"])
            if not nv.types:
                return None
            return AV(nv.types, frozenset(), False, nv.cls, False)

    def meet(self, a, b):
        t = a.types & b.types
        if not t:
            return b
        return AV(t, a.keys | b.keys if "dict" in t else (), a.nonempty or b.nonempty, a.cls or b.cls, a.truthy)

    def typeset(self, e, st):
        """(builtin type tags, package class names) of the 2nd isinstance argument"""
        ts = self.prog.typeset(self.fi.module, e)
        if ts is None and isinstance(e, ast.Name) and e.id in st and ("$tuple:" + e.id) in st:
            ts = st["$tuple:" + e.id]
        if ts is None and isinstance(e, ast.Call) and dump(e.func) == "tuple" and e.args and isinstance(e.args[0], ast.Name) \
                and ("$tuple:" + e.args[0].id) in st:
            ts = st["$tuple:" + e.args[0].id]
        if ts is None:
            return None
        tags, classes = set(), set()
        for t in ts:
            if isinstance(t, str) and t.startswith("class:"):
                classes.add(t.split(".")[-1])
                tags.add("obj")
            elif isinstance(t, str) and t.startswith("ext:"):
                classes.add(t.split(".")[-1])
                tags.add("obj")
            elif t in ("dict", "list", "tuple", "str", "bytes", "int", "float", "bool", "set", "frozenset"):
                tags.add(t)
                if t == "int":
                    tags.add("bool")
            elif t == "NoneType":
                tags.add("none")
            elif t == "object":
                return (set(ALL), set())
            else:
                classes.add(str(t))
                tags.add("obj")
        return (frozenset(tags), classes)

    # ---- expressions --------------------------------------------------------------------------------
    def ev(self, e, st, node, record=True):
        if e is None:
            return NONE
        m = getattr(self, "ev_" + type(e).__name__, None)
        if m is None:
            raise AnalysisError("E4: expression %s not modelled (%s)" % (type(e).__name__, self.fi.fq))
        return m(e, st, node)

    def ev_Constant(self, e, st, node):
        if isinstance(e.value, bool):
            return AV(["bool"], truthy=e.value)        # (a flag parameter left at its literal default decides its tests)
        return T(_tag_of(e.value))

    def ev_Name(self, e, st, node):
        if e.id in st:
            v = st[e.id]
            return v if v is not None else ANY
        if e.id in ("True", "False"):
            return BOOL
        if e.id == "None":
            return NONE
        r = self.prog.resolve(self.fi.module, e)
        if r is None:
            return ANY
        return self.global_av(r)

    def global_av(self, r, depth=0):
        if r.startswith("builtin:"):
            return T("class") if r[8:] in ("dict", "list", "tuple", "str", "int", "float", "bool", "set", "frozenset",
                                           "bytes", "object", "type") or r[8:].endswith("Error") or r[8:] == "Exception" else T("func")
        if r in self.prog.funcs:
            return T("func")
        if r in self.prog.classes:
            return T("class")
        if r in EXT_VALUES:
            return EXT_VALUES[r]
        if r.startswith("ext:"):
            return ANY
        mod, _, name = r.partition(".")
        if mod in self.prog.modules and name in self.prog.modules[mod].assigns and depth < 4:
            val = self.prog.modules[mod].assigns[name]
            sub = _Run(self.an, FuncInfo(mod, "<module>", ast.FunctionDef(name="<module>", args=ast.arguments(
                posonlyargs=[], args=[], kwonlyargs=[], kw_defaults=[], defaults=[]), body=[ast.Pass()],
                decorator_list=[], lineno=0)), {})
            sub.raises = []
            try:
                return sub.ev(val, {}, node=None)
            except AnalysisError:
                return ANY
        return ANY

    def ev_Attribute(self, e, st, node):
        key = _selfkey(e)
        if key is not None and key in st and st[key] is not None:
            return st[key]
        root = e
        while isinstance(root, ast.Attribute):
            root = root.value
        if isinstance(root, ast.Name) and root.id not in st:
            r = self.prog.resolve(self.fi.module, e)
            if r is not None:
                return self.global_av(r)
        # self.<attr> of modelled classes
        base = self.ev(e.value, st, node)
        if base.types <= frozenset(["obj"]) and base.cls in ATTRS:
            name = e.attr
            if self.fi.cls is not None and isinstance(e.value, ast.Name) and e.value.id == "self":
                name = mangle(self.fi.cls.name, e.attr)
            tab = ATTRS[base.cls]
            if name in tab:
                return tab[name]
            if e.attr in tab:
                return tab[e.attr]
            return ANY          # method or unmodelled attribute of a modelled class
        if isinstance(e.value, ast.Name) and e.value.id == "self":
            return ANY
        if base.types <= frozenset(["obj", "class", "func"]):
            if base.cls == "exception" and e.attr in ("args",):
                return T("tuple")
            return ANY          # attribute of an arbitrary object: resolved at the call, see ev_Call
        if e.attr == "__name__" and base.types <= frozenset(["class", "func"]):
            return STR
        # attribute on builtin values: methods only
        ok_for = _method_types(e.attr)
        bad = base.types - ok_for - frozenset(["obj", "class"])
        if node is not None:
            self.an.op(self.fi, node, "attribute .%s on %r" % (e.attr, base))
        if bad:
            self.raise_("AttributeError", node, "attribute .%s on %s" % (e.attr, "|".join(sorted(bad))))
        return T("func")

    def ev_Subscript(self, e, st, node):
        base = self.ev(e.value, st, node)
        if isinstance(e.slice, ast.Slice):
            for x in (e.slice.lower, e.slice.upper, e.slice.step):
                if x is not None:
                    self.ev(x, st, node)
            self.an.op(self.fi, node, "slice of %r" % base)
            bad = base.types - frozenset(["str", "bytes", "list", "tuple", "obj"])
            if bad:
                self.raise_("TypeError", node, "slicing %s" % "|".join(sorted(bad)))
            return base.only(["str", "bytes", "list", "tuple"]) if base.types & frozenset(["str", "bytes", "list", "tuple"]) else ANY
        idx = self.ev(e.slice, st, node)
        self.an.op(self.fi, node, "item %s of %r" % (dump(e.slice), base))
        if isinstance(e.value, ast.Name) and isinstance(e.slice, ast.Constant):
            mk = "%s[%r]" % (e.value.id, e.slice.value)
            if st.get(mk) is not None and base.types <= frozenset(["dict"]):
                return st[mk]
        bad = base.types - frozenset(["dict", "list", "tuple", "str", "bytes", "obj"])
        if bad:
            self.raise_("TypeError", node, "subscript on %s" % "|".join(sorted(bad)))
        if "dict" in base.types:
            known = isinstance(e.slice, ast.Constant) and e.slice.value in base.keys
            if not known and isinstance(e.slice, ast.Name) and isinstance(e.value, ast.Name) and \
                    (e.value.id, e.slice.id) in (st.get("$haskey") or ()):
                known = True        # `k in d` held on this path and neither name was rebound since
            if not known:
                self.raise_("KeyError", node, "key %s not known present" % dump(e.slice))
            if idx.types & UNHASHABLE:
                self.raise_("TypeError", node, "unhashable key")
        if base.types & frozenset(["list", "tuple", "str", "bytes"]):
            if not idx.types <= NUM:
                self.raise_("TypeError", node, "sequence index of type %r" % idx)
            zero = isinstance(e.slice, ast.Constant) and e.slice.value in (0, -1)
            if not (zero and base.nonempty):
                # constant indices into sequences of unknown length
                self.raise_("IndexError", node, "index %s of a sequence of unknown length" % dump(e.slice))
        if "obj" in base.types:
            self.raise_(ANYEXC, node, "item access on an arbitrary object")
        if "view" in base.types:
            self.raise_("TypeError", node, "subscript on a dictionary view")
        if base.types <= frozenset(["str"]):
            return STR
        if base.cls == "exc_info":
            return ANY
        return JSONV if base.types <= JSON | frozenset(["obj"]) else ANY

    def ev_Tuple(self, e, st, node):
        for x in e.elts:
            self.ev(x, st, node)
        return AV(["tuple"], nonempty=bool(e.elts))

    def ev_List(self, e, st, node):
        for x in e.elts:
            self.ev(x, st, node)
        return AV(["list"], nonempty=bool(e.elts))

    def ev_Set(self, e, st, node):
        for x in e.elts:
            v = self.ev(x, st, node)
            if v.types & UNHASHABLE:
                self.raise_("TypeError", node, "unhashable set member")
        return AV(["set"], nonempty=True)

    def ev_Dict(self, e, st, node):
        keys = []
        for k, v in zip(e.keys, e.values):
            if k is not None:
                kv = self.ev(k, st, node)
                if kv.types & UNHASHABLE:
                    self.raise_("TypeError", node, "unhashable key")
                if isinstance(k, ast.Constant):
                    keys.append(k.value)
            self.ev(v, st, node)
        return AV(["dict"], keys=[k for k in keys if isinstance(k, str)], nonempty=bool(e.keys))

    def ev_JoinedStr(self, e, st, node):
        for v in e.values:
            if isinstance(v, ast.FormattedValue):
                self.ev(v.value, st, node)
        return STR

    def ev_FormattedValue(self, e, st, node):
        self.ev(e.value, st, node)
        return STR

    def ev_IfExp(self, e, st, node):
        self.ev(e.test, st, node)
        s1 = self.narrow(e.test, True, st, node)
        s2 = self.narrow(e.test, False, st, node)
        a = self.ev(e.body, s1, node) if s1 is not None else None
        b = self.ev(e.orelse, s2, node) if s2 is not None else None
        if a is None:
            return b or ANY
        return a.join(b)

    def ev_BoolOp(self, e, st, node):
        cur = st
        res = None
        is_and = isinstance(e.op, ast.And)
        for i, v in enumerate(e.values):
            if cur is None:
                break
            val = self.ev(v, cur, node)
            last = i == len(e.values) - 1
            # the value of the whole expression may be this operand
            if is_and:
                contrib = val if last else self.truth_narrow(val, False)
            else:
                contrib = val if last else self.truth_narrow(val, True)
            if contrib is not None:
                res = contrib if res is None else res.join(contrib)
            cur = self.narrow(v, is_and, cur, node)
        return res or ANY

    def ev_UnaryOp(self, e, st, node):
        v = self.ev(e.operand, st, node)
        if isinstance(e.op, ast.Not):
            return BOOL
        self.an.op(self.fi, node, "unary %s on %r" % (type(e.op).__name__, v))
        if not v.types <= NUM:
            self.raise_("TypeError", node, "unary operator on %r" % v)
        return v.only(NUM) if v.types & NUM else T("int")

    def ev_BinOp(self, e, st, node):
        a = self.ev(e.left, st, node)
        b = self.ev(e.right, st, node)
        self.an.op(self.fi, node, "%s %s %s" % (a, type(e.op).__name__, b))
        if isinstance(e.op, ast.Mod) and a.types <= frozenset(["str"]):
            return STR     # %-formatting with str()-able operands (assumption: arity matches the literal)
        if a.types <= NUM and b.types <= NUM:
            if isinstance(e.op, (ast.Div, ast.FloorDiv, ast.Mod)):
                self.raise_("ZeroDivisionError", node, "division")
            return T("int", "float")
        for same in (["str"], ["list"], ["tuple"], ["bytes"]):
            if a.types <= frozenset(same) and b.types <= frozenset(same) and isinstance(e.op, ast.Add):
                return AV(same, nonempty=a.nonempty or b.nonempty)
        if isinstance(e.op, ast.Mult) and ((a.types <= frozenset(["str", "list", "tuple"]) and b.types <= NUM)):
            return a
        if isinstance(e.op, ast.BitOr) and a.types <= frozenset(["set", "frozenset"]) and b.types <= frozenset(["set", "frozenset"]):
            return a
        self.raise_("TypeError", node, "operands %r and %r" % (a, b))
        return ANY

    def ev_Compare(self, e, st, node):
        left = self.ev(e.left, st, node)
        for op, r in zip(e.ops, e.comparators):
            right = self.ev(r, st, node)
            if isinstance(op, (ast.Is, ast.IsNot, ast.Eq, ast.NotEq)):
                pass
            elif isinstance(op, (ast.In, ast.NotIn)):
                self.an.op(self.fi, node, "%r in %r" % (left, right))
                bad = right.types - CONTAINERS - frozenset(["obj"])
                if bad:
                    self.raise_("TypeError", node, "membership test in %s" % "|".join(sorted(bad)))
                if right.types & HASHED and left.types & UNHASHABLE:
                    self.raise_("TypeError", node, "unhashable left operand of a hashed membership test")
                if right.types & frozenset(["str", "bytes"]) and not left.types <= frozenset(["str", "bytes"]):
                    self.raise_("TypeError", node, "non-string in string")
                if "obj" in right.types:
                    self.raise_(ANYEXC, node, "membership in an arbitrary object")
            else:
                self.an.op(self.fi, node, "%r %s %r" % (left, type(op).__name__, right))
                okk = (left.types <= NUM and right.types <= NUM) or \
                      (left.types <= frozenset(["str"]) and right.types <= frozenset(["str"]))
                if not okk:
                    self.raise_("TypeError", node, "ordering comparison of %r and %r" % (left, right))
            left = right
        return BOOL

    def ev_Lambda(self, e, st, node):
        return T("func")

    def ev_Starred(self, e, st, node):
        v = self.ev(e.value, st, node)
        bad = v.types - CONTAINERS - frozenset(["obj"])
        if bad:
            self.raise_("TypeError", node, "star-unpacking %s" % "|".join(sorted(bad)))
        return v

    def _comp(self, e, st, node, result):
        cur = dict(st)
        for gen in e.generators:
            it = self.ev(gen.iter, cur, node)
            if it.truthy is False and it.types and it.types <= CONTAINERS:
                # a container known to be empty: nothing is evaluated per element, the result is empty
                return AV(result.types, cls=result.cls, truthy=False)
            bad = it.types - CONTAINERS - frozenset(["obj"])
            if bad:
                self.raise_("TypeError", node, "iteration over %s" % "|".join(sorted(bad)))
            for nm in ast.walk(gen.target):
                if isinstance(nm, ast.Name):
                    cur[nm.id] = ANY
            if isinstance(gen.target, ast.Tuple) and not (isinstance(gen.iter, ast.Call) and isinstance(gen.iter.func, ast.Attribute)
                                                          and gen.iter.func.attr == "items"):
                self.raise_("ValueError", node, "unpacking in a comprehension")
            for c in gen.ifs:
                self.ev(c, cur, node)
        for x in (getattr(e, "elt", None), getattr(e, "key", None), getattr(e, "value", None)):
            if x is not None:
                self.ev(x, cur, node)
        return result

    def _getattr_of_own_fields(self, e):
        """getattr(self, <v>) where v is the variable of a comprehension over a constant tuple of names, each of them an attribute the
        class's __init__ assigns unconditionally at its top level: the attribute always exists"""
        if not (len(e.args) == 2 and isinstance(e.args[0], ast.Name) and e.args[0].id == "self" and isinstance(e.args[1], ast.Name) and
                self.fi.cls is not None):
            return False
        v = e.args[1].id
        names = None
        for comp in ast.walk(self.fi.node):
            if isinstance(comp, (ast.ListComp, ast.DictComp, ast.SetComp, ast.GeneratorExp)) and any(x is e for x in ast.walk(comp)):
                for ge in comp.generators:
                    if isinstance(ge.target, ast.Name) and ge.target.id == v:
                        it = ge.iter
                        if isinstance(it, ast.Attribute) and isinstance(it.value, ast.Name) and it.value.id == "self":
                            cb = [st_ for st_ in self.fi.cls.node.body if isinstance(st_, ast.Assign) and
                                  any(isinstance(t, ast.Name) and t.id == it.attr for t in st_.targets)]
                            it = cb[0].value if len(cb) == 1 else None
                        if isinstance(it, (ast.Tuple, ast.List)) and it.elts and all(isinstance(x, ast.Constant) and isinstance(x.value, str) for x in it.elts):
                            names = [x.value for x in it.elts]
        if not names:
            return False
        init = self.prog.mro_lookup(self.fi.cls, "__init__")
        if init is None:
            return False
        assigned = set()
        for st_ in init.node.body:
            if isinstance(st_, ast.Assign):
                for t in st_.targets:
                    if isinstance(t, ast.Attribute) and isinstance(t.value, ast.Name) and t.value.id == "self":
                        assigned.add(t.attr)
        return all(n in assigned for n in names)

    def ev_ListComp(self, e, st, node):
        return self._comp(e, st, node, T("list"))

    def ev_GeneratorExp(self, e, st, node):
        return self._comp(e, st, node, AV(["obj"], cls="generator"))

    def ev_DictComp(self, e, st, node):
        return self._comp(e, st, node, T("dict"))

    def ev_SetComp(self, e, st, node):
        return self._comp(e, st, node, T("set"))

    def ev_Yield(self, e, st, node):
        if e.value is not None:
            self.ev(e.value, st, node)
        self.raise_(ANYEXC, node, "exception thrown into the generator at yield")
        return ANY

    # ---- calls ------------------------------------------------------------------------------------------
    def ev_Call(self, e, st, node):
        f = e.func
        argv = [self.ev(a, st, node) for a in e.args]
        kwv = dict((k.arg, self.ev(k.value, st, node)) for k in e.keywords)
        self._last_call = None
        name = f.id if isinstance(f, ast.Name) else (f.attr if isinstance(f, ast.Attribute) else None)
        # local callable variables (dispatch_method, func, callback ...)
        if isinstance(f, ast.Name) and f.id in st:
            self.an.op(self.fi, node, "call of the local callable `%s`" % f.id)
            v = st[f.id]
            if not v.types <= frozenset(["func", "class", "obj"]):
                self.raise_("TypeError", node, "calling %r" % v)
            self.raise_(ANYEXC, node, "call of an arbitrary callable `%s`" % f.id)
            return ANY
        # builtins
        if isinstance(f, ast.Name):
            r = self.prog.resolve(self.fi.module, f)
            if r is not None and r.startswith("builtin:"):
                return self.builtin(r[8:], e, argv, kwv, st, node)
        # logger
        if is_logging_call(e):
            self.an.op(self.fi, node, "logging call")
            from .model import unsafe_log_extra
            if unsafe_log_extra(e):
                self.raise_("KeyError", node, "logging call with an `extra` mapping that may name a LogRecord attribute (Logger.makeRecord raises in the caller)")
            return NONE
        if isinstance(f, ast.Attribute) and f.attr in ("isEnabledFor", "getEffectiveLevel", "getChild", "setLevel") and \
                ("logger" in dump(f.value).lower() or dump(f.value).lower().startswith("logging")):
            self.an.op(self.fi, node, "logger query")
            return BOOL if f.attr == "isEnabledFor" else ANY      # same assumption as for the logging calls: they do not raise
        # package functions / classes
        r = self.prog.resolve_call(self.fi, e)
        if isinstance(r, FuncInfo):
            return self.call_package(r, e, argv, kwv, st, node, bound=isinstance(f, ast.Attribute) and r.cls is not None)
        if isinstance(r, str) and r.startswith("class:") and r[6:] in self.prog.classes:
            ci = self.prog.classes[r[6:]]
            init = self.prog.mro_lookup(ci, "__init__")
            self.an.op(self.fi, node, "constructor %s(...)" % ci.name)
            if init is not None:
                self.call_package(init, e, argv, kwv, st, node, bound=True, selfv=obj(ci.name))
            elif any(b.endswith("Exception") or b.endswith("Error") for b in ci.bases):
                pass
            if any(is_sub(ci.name, "Exception") for _ in [0]) or ci.name in PARENT:
                return AV(["obj"], cls="exception")
            return obj(ci.name)
        if isinstance(r, str) and r.split(".")[-1] in ("jdumps", "jloads") and (self.fi.fq, name) not in self.an.total_in:
            self.an.op(self.fi, node, "JSON backend call %s" % r)
            self.raise_(ANYEXC, node, "the JSON backend may reject the value (%s)" % r.split(".")[-1])
            return STR if r.endswith("jdumps") else JSONV
        # functions of the math module on numbers: total for finite / infinite / NaN floats and ints (TypeError for anything else)
        if isinstance(f, ast.Attribute) and isinstance(f.value, ast.Name) and f.value.id == "math" and f.value.id not in st and \
                f.attr in ("isnan", "isinf", "isfinite", "fabs", "copysign") and isinstance(r, str) and "math" in r:
            for a_ in argv:
                if not a_.types <= NUM:
                    self.raise_("TypeError", node, "math.%s() of %r" % (f.attr, a_))
            return BOOL if f.attr.startswith("is") else T("float")
        # methods on typed receivers
        if isinstance(f, ast.Attribute):
            base = self.ev(f.value, st, node)
            return self.method(base, f.attr, e, argv, kwv, st, node)
        if (self.fi.fq, name) in self.an.total_in:
            self.an.op(self.fi, node, "call %s trusted total by the calling rule" % name)
            return ANY
        if isinstance(r, str) and r.split(".")[-1] in TOTAL_CALLS:
            self.an.op(self.fi, node, "total call %s" % r)
            return ANY
        self.an.op(self.fi, node, "external call %s" % dump(f))
        self.raise_(ANYEXC, node, "call of %s (outside the package, not listed as total)" % dump(f))
        return ANY

    def builtin(self, name, e, argv, kwv, st, node):
        self.an.op(self.fi, node, "builtin %s(%s)" % (name, ", ".join(repr(a) for a in argv)))
        a0 = argv[0] if argv else None
        if name in ("isinstance", "type", "str", "repr", "bool", "id", "callable", "hasattr", "print"):
            if name in ("str", "repr"):
                return STR
            if name == "type":
                return T("class")
            return BOOL if name != "print" else NONE
        if name == "len":
            bad = a0.types - SIZED - frozenset(["obj"])
            if bad:
                self.raise_("TypeError", node, "len() of %s" % "|".join(sorted(bad)))
            if "obj" in a0.types:
                self.raise_(ANYEXC, node, "len() of an arbitrary object")
            return T("int")
        if name in ("float", "int"):
            if a0 is None:
                return T(name)
            if name == "float" and "int" in a0.types and not a0.types <= NUM | frozenset(["none"]):
                # (a value of any JSON type - a member of the request - as opposed to a numeric setting of the configuration)
                # an integer of arbitrary size (a JSON integer literal has no bound) does not always fit a float
                self.raise_("OverflowError", node, "float() of an integer too large for a float")
            if a0.types <= NUM:
                return T(name)
            if a0.types & frozenset(["str", "bytes"]):
                self.raise_("ValueError", node, "%s() of a non-numeric string" % name)
            bad = a0.types - NUM - frozenset(["str", "bytes"])
            if bad:
                self.raise_("TypeError", node, "%s() of %s" % (name, "|".join(sorted(bad))))
            return T(name)
        if name in ("list", "tuple", "set", "frozenset", "dict", "sorted", "reversed", "enumerate", "zip", "iter"):
            if a0 is not None:
                bad = a0.types - CONTAINERS - frozenset(["obj"])
                if bad:
                    self.raise_("TypeError", node, "%s() of %s" % (name, "|".join(sorted(bad))))
                if "obj" in a0.types and a0.cls != "generator":
                    self.raise_(ANYEXC, node, "%s() of an arbitrary object" % name)
                if name in ("set", "frozenset", "dict"):
                    pass
            tag = name if name in ("list", "tuple", "set", "frozenset", "dict") else ("list" if name == "sorted" else "obj")
            empty_ = a0 is None or (a0.truthy is False and a0.types <= CONTAINERS)      # (no argument, or a container known to be empty)
            return AV([tag], nonempty=bool(a0 is not None and a0.nonempty), cls="generator" if tag == "obj" else None,
                      truthy=False if (empty_ and tag != "obj") else None)
        if name == "map" and len(e.args) == 2 and isinstance(e.args[0], ast.Name) and e.args[0].id in ("str", "repr", "bool", "type", "id") \
                and not e.keywords and len(argv) == 2:
            # map(str, X): lazy, and its function is one of the total builtins; X must be iterable
            a1 = argv[1]
            bad = a1.types - CONTAINERS - frozenset(["obj"])
            if bad:
                self.raise_("TypeError", node, "map() over %s" % "|".join(sorted(bad)))
            if "obj" in a1.types and a1.cls != "generator":
                self.raise_(ANYEXC, node, "map() over an arbitrary object")
            return AV(["obj"], cls="generator")
        if name in ("min", "max", "sum", "abs", "round", "range"):
            for a in argv:
                if not a.types <= NUM:
                    self.raise_("TypeError", node, "%s() of %r" % (name, a))
            return T("int", "float") if name != "range" else AV(["obj"], cls="generator")
        if name == "vars" and len(argv) == 1 and a0 is not None and a0.types <= frozenset(["obj"]) and a0.cls in self.prog_class_names():
            return T("dict")         # the instance dictionary of an object of a package class (none of them is slotted)
        if name == "getattr":
            if len(argv) < 3 and not self._getattr_of_own_fields(e):
                self.raise_("AttributeError", node, "getattr without default")
            self.raise_(ANYEXC, node, "getattr on an arbitrary object may run user code") if a0 is not None and "obj" in a0.types and a0.cls not in ATTRS else None
            return ANY
        if name in ("setattr", "delattr"):
            self.raise_(ANYEXC, node, "%s on an arbitrary object" % name)
            return NONE
        if name == "super":
            return AV(["obj"], cls="super")
        if name == "bytes":
            if a0 is not None and not a0.types <= frozenset(["str", "bytes", "int"]):
                self.raise_("TypeError", node, "bytes() of %r" % a0)
            self.raise_("UnicodeEncodeError", node, "encoding")
            return T("bytes")
        if name == "__import__":
            self.raise_("ImportError", node, "__import__")
            self.raise_(ANYEXC, node, "module import runs arbitrary code")
            return ANY
        if name.endswith("Error") or name == "Exception":
            return AV(["obj"], cls="exception")
        self.raise_(ANYEXC, node, "builtin %s not modelled" % name)
        return ANY

    def method(self, base, attr, e, argv, kwv, st, node):
        self.an.op(self.fi, node, ".%s() on %r" % (attr, base))
        if attr in ("acquire", "release") and "lock" in dump(e.func.value).lower():
            return BOOL          # threading.Lock / RLock methods do not raise
        if base.types <= frozenset(["obj"]) and base.cls is not None:
            for ci in self.prog.classes.values():
                if ci.name == base.cls:
                    m = self.prog.mro_lookup(ci, attr)
                    if m is not None:
                        return self.call_package(m, e, argv, kwv, st, node, bound=True, selfv=base)
        if "obj" in base.types or "func" in base.types:
            self._heap_call = True
        # receiver must support the method
        ok_for = _method_types(attr)
        if base.types <= frozenset(["obj", "class", "func"]):
            if base.cls == "Config" and attr == "copy":
                return obj("Config")
            if base.cls == "super":
                self.raise_(ANYEXC, node, "base class method %s" % attr)
                return ANY
            if attr in LOGGER_METHODS:
                return NONE
            if attr in ("acquire", "release") and "lock" in dump(e.func.value).lower():
                return BOOL          # threading.Lock / RLock methods do not raise
            if attr == "enqueue":
                # listed exception: raises only queue.Full on a bounded queue after the timeout (outside the domain)
                return obj("FutureResult")
            if attr in TOTAL_CALLS:
                return ANY if attr != "format_exception" else AV(["list"], nonempty=True)
            self.raise_(ANYEXC, node, "method .%s() of an arbitrary object" % attr)
            return ANY
        bad = base.types - ok_for - frozenset(["obj", "class", "func"])
        if bad:
            self.raise_("AttributeError", node, ".%s() on %s" % (attr, "|".join(sorted(bad))))
        if "obj" in base.types:
            self.raise_(ANYEXC, node, ".%s() on a possibly arbitrary object" % attr)
        good = base.types & ok_for
        if good <= frozenset(["dict"]) and good:
            if attr in ("get", "setdefault", "pop"):
                if argv and argv[0].types & UNHASHABLE:
                    self.raise_("TypeError", node, "unhashable key")
                if attr == "pop" and len(argv) < 2 and not (e.args and isinstance(e.args[0], ast.Constant) and e.args[0].value in base.keys):
                    self.raise_("KeyError", node, "dict.pop without default")
                d = argv[1] if len(argv) > 1 else NONE
                return JSONV.join(d) if base.cls is None else ANY
            if attr in ("keys", "values", "items"):
                return AV(["view"], nonempty=base.nonempty, truthy=False if base.truthy is False and base.types <= frozenset(["dict"]) else None)
            if attr == "copy":
                return base
            if attr == "update":
                return NONE
            return ANY
        if good <= frozenset(["str", "bytes"]) and good:
            if attr in ("split", "splitlines", "rpartition", "partition"):
                # "".splitlines() and "".split() are empty lists; split(<separator>) / partition always yield at least one item
                some = attr in ("rpartition", "partition") or (attr == "split" and bool(argv))
                return AV(["list"] if attr.startswith("split") else ["tuple"], nonempty=some)
            if attr in ("startswith", "endswith"):
                # str.startswith(bytes) / bytes.startswith(str) raise TypeError: receiver and argument must be of one kind
                if argv and "bytes" in good and "str" in argv[0].types and not ("bytes" in argv[0].types):
                    self.raise_("TypeError", node, "bytes.%s(str): the receiver may be bytes" % attr)
                if argv and "str" in good and argv[0].types <= frozenset(["bytes"]):
                    self.raise_("TypeError", node, "str.%s(bytes)" % attr)
                return BOOL
            if attr == "encode":
                self.raise_("UnicodeEncodeError", node, "encode")
                return T("bytes")
            if attr == "decode":
                self.raise_("UnicodeDecodeError", node, "decode")
                return STR
            if attr == "join":
                if argv and not argv[0].types <= CONTAINERS | frozenset(["obj"]):
                    self.raise_("TypeError", node, "join of %r" % argv[0])
                return good and AV(good)
            if attr == "format":
                self._format_fields(e, argv, node)
            return STR if attr not in ("find", "count") else T("int")
        if good <= frozenset(["list"]) and good:
            if attr in ("pop",):
                self.raise_("IndexError", node, "pop from a list of unknown length") if not base.nonempty else None
                return ANY
            if attr in ("remove", "index"):
                self.raise_("ValueError", node, "list.%s" % attr)
            return NONE if attr in ("append", "extend", "insert", "sort", "reverse", "clear", "remove") else ANY
        if good <= frozenset(["set", "frozenset"]) and good:
            if argv and argv[0].types & UNHASHABLE and attr in ("add", "discard", "remove"):
                self.raise_("TypeError", node, "unhashable member")
            if attr in ("difference", "union", "intersection", "symmetric_difference", "issubset", "issuperset", "isdisjoint",
                        "difference_update", "intersection_update", "update"):
                # the operand is iterated and its members hashed: dictionaries (their string keys), sets and strings are fine
                for a_ in argv:
                    if a_.types and a_.types <= frozenset(["int", "float", "bool", "none"]):
                        self.raise_("TypeError", node, "set.%s() of %r" % (attr, a_))      # (a scalar is not iterable)
                    elif a_.types & UNHASHABLE and a_.types <= frozenset(["list"]) and False:
                        pass
                if attr in ("issubset", "issuperset", "isdisjoint"):
                    return BOOL
                if attr in ("difference", "intersection") and base.truthy is False:
                    return AV(["set"], truthy=False)        # (of an empty set: empty)
                if attr in ("difference", "union", "intersection", "symmetric_difference"):
                    return T("set")
            return NONE if attr in ("add", "discard", "update", "difference_update", "intersection_update") else ANY
        return ANY

    def _format_fields(self, e, argv, node):
        """str.format on a literal: a replacement field with a presentation type calls __format__ with that type - `{:d}` on a
        float or a str raises ValueError, any format spec on None / a container raises TypeError; plain `{}` / `{!r}` fields
        only need str() / repr() (assumed total).  Starred arguments of unknown length can leave a field without a value."""
        import string
        lit = e.func.value
        if any(isinstance(a, ast.Starred) for a in e.args):
            self.raise_("IndexError", node, "format(*args): a field may have no argument")
        if not (isinstance(lit, ast.Constant) and isinstance(lit.value, str)):
            return
        try:
            fields = list(string.Formatter().parse(lit.value))
        except ValueError:
            self.raise_("ValueError", node, "malformed format string")
            return
        auto = 0
        for (_text, name, spec, conv) in fields:
            if name is None:
                continue
            idx = None
            head = name.split(".")[0].split("[")[0]
            if head == "":
                idx, auto = auto, auto + 1
            elif head.isdigit():
                idx = int(head)
            if not spec or conv is not None or idx is None or "{" in spec:
                continue
            if any(isinstance(a, ast.Starred) for a in e.args):
                continue
            if idx >= len(argv):
                self.raise_("IndexError", node, "format field {%s} has no argument" % name)
                continue
            v = argv[idx]
            kind = spec[-1]
            if kind in "dxXobcn":
                if not v.types <= frozenset(["int", "bool"]):
                    self.raise_("ValueError", node, "format spec %r applied to %r (needs an integer)" % (spec, v))
                    if not v.types <= NUM | frozenset(["str"]):
                        self.raise_("TypeError", node, "format spec %r applied to %r" % (spec, v))
            elif kind in "eEfFgG%":
                if not v.types <= NUM:
                    self.raise_("ValueError", node, "format spec %r applied to %r (needs a number)" % (spec, v))
                    if not v.types <= NUM | frozenset(["str"]):
                        self.raise_("TypeError", node, "format spec %r applied to %r" % (spec, v))
            else:
                if not v.types <= NUM | frozenset(["str"]):
                    self.raise_("TypeError", node, "format spec %r applied to %r" % (spec, v))

    def prog_class_names(self):
        return set(ci.name for ci in self.prog.classes.values() if not any(isinstance(st_, ast.Assign) and any(
            isinstance(t_, ast.Name) and t_.id == "__slots__" for t_ in st_.targets) for st_ in ci.node.body))

    def call_package(self, callee, e, argv, kwv, st, node, bound=False, selfv=None):
        params = list(callee.params)
        args = {}
        f = e.func
        amap = {}
        explicit_self = False
        if params[:1] == ["self"]:
            if selfv is not None:
                args["self"] = selfv
                params = params[1:]
            elif isinstance(f, ast.Attribute) and isinstance(f.value, ast.Name) and f.value.id == "self" and self.fi.cls is not None:
                args["self"] = st.get("self", obj(self.fi.cls.name))
                params = params[1:]
            elif isinstance(f, ast.Attribute) and self.prog.resolve(self.fi.module, f.value) in self.prog.classes:
                explicit_self = True       # Base.method(self, ...)
            elif isinstance(f, ast.Attribute):
                args["self"] = self.ev(f.value, st, node)
                params = params[1:]
        has_star = any(isinstance(a, ast.Starred) for a in e.args) or any(k.arg is None for k in e.keywords)
        for i, a in enumerate(e.args):
            if isinstance(a, ast.Starred):
                break
            if i < len(params):
                args[params[i]] = argv[i]
                if isinstance(a, ast.Name):
                    amap[params[i]] = a.id
        for k in e.keywords:
            if k.arg is not None and k.arg in callee.params:
                args[k.arg] = kwv[k.arg]
                if isinstance(k.value, ast.Name):
                    amap[k.arg] = k.value.id
        ca_ = callee.node.args
        if not has_star:
            if ca_.kwarg is not None and all(k.arg in callee.params for k in e.keywords):
                args["**"] = AV(["dict"], truthy=False)           # no extra keyword: the **kwargs dictionary is empty
            n_pos = len(params) if not explicit_self else len(params) - 1
            if ca_.vararg is not None and len(e.args) <= n_pos:
                args["*"] = AV(["tuple"], truthy=False)
        self._heap_call = True
        self.an.op(self.fi, node, "package call %s" % callee.fq)
        summ = self.an.analyze(callee, args)
        for (exc, ofi, onode, why) in summ.escapes:
            self.raises.append((exc, (ofi.fq, onode.lineno, onode.text, why + " [via %s]" % callee.qual, onode.id)))
        self._last_call = (e, summ, amap)
        return summ.ret if summ.ret is not None else NONE


class _NodeRef(object):
    """(line, text) stand-in for a CFG node of another function, for reports."""
    kind = "ref"

    def __init__(self, lineno, text, nid=-1):
        self.lineno = lineno
        self.text = text
        self.id = nid
        self.ast = None

    def __repr__(self):
        return self.text


def _selfkey(e):
    if isinstance(e, ast.Attribute) and isinstance(e.value, ast.Name) and e.value.id == "self":
        return "self." + e.attr
    return None


def _tag_of(v):
    if v is None:
        return "none"
    if isinstance(v, bool):
        return "bool"
    if isinstance(v, int):
        return "int"
    if isinstance(v, float):
        return "float"
    if isinstance(v, str):
        return "str"
    if isinstance(v, bytes):
        return "bytes"
    if isinstance(v, tuple):
        return "tuple"
    if v is Ellipsis:
        return "obj"
    return "obj"


def _method_types(attr):
    m = {
        "get": ["dict"], "keys": ["dict"], "values": ["dict"], "items": ["dict"], "setdefault": ["dict"],
        "update": ["dict", "set"], "pop": ["dict", "list", "set"], "popitem": ["dict"], "copy": ["dict", "list", "set"],
        "clear": ["dict", "list", "set"], "append": ["list"], "extend": ["list"], "insert": ["list"], "remove": ["list", "set"],
        "sort": ["list"], "reverse": ["list"], "index": ["list", "tuple", "str"], "add": ["set"], "discard": ["set"],
        "difference_update": ["set"], "difference": ["set", "frozenset"], "union": ["set", "frozenset"], "intersection": ["set", "frozenset"],
        "symmetric_difference": ["set", "frozenset"], "issubset": ["set", "frozenset"], "issuperset": ["set", "frozenset"],
        "isdisjoint": ["set", "frozenset"], "intersection_update": ["set"],
    }
    if attr in m:
        return frozenset(m[attr])
    if attr in STR_METHODS:
        return frozenset(["str", "bytes"])
    return frozenset()
