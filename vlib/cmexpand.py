"""Normaliser pass: `with` over a *new* context manager of the package is rewritten into the try statement it stands for.

A clean-up commit may replace `x = d.pop(k); try: BODY; finally: d[k] = x` by `with _Detached(d, k): BODY`, or
`try: BODY; except: self.close(); raise` by `with _CloseOnError(self): BODY`, or an inner `finally` by a small
@contextmanager helper.  The rules anchor on the try statements; for context managers that are not part of the analysed
tree (vlib/known_functions.json) and have one of the simple shapes below, the `with` is expanded in place:

  class K:                                   with K(A, B) as v:            _cmN_a = A; _cmN_b = B
      def __init__(self, a, b):                  BODY              ==>     <enter statements>; v = <enter result>
          self._a = a; self._b = b                                         try:
      def __enter__(self): ...; return E                                       BODY
      def __exit__(self, et, ev, tb):                                      except BaseException:      (the `if et is not None:` part)
          [if et is not None: X]                                               X; raise
          [unconditional statements U]                                     finally:                   (the unconditional part)
          return False                                                         U

  @contextmanager                            with [self.]cm(A):            <PRE>
  def cm([self,] a):                             BODY              ==>     try:
      PRE                                                                      BODY
      try:                                                                 finally:
          yield [E]                                                            <POST>
      finally:
          POST

Anything else (an __exit__ that may return a true value or tests the exception in another way, both a conditional and an
unconditional part, a generator with several yields or an except clause around the yield, `self` escaping from __enter__)
is left as it is: the closed-world rule W3 and the property rules then judge or refuse it."""
import ast
import copy

from .inline import known_functions

PKG_NAME = "jsonrpclib"


def _doc_stripped(body):
    if body and isinstance(body[0], ast.Expr) and isinstance(body[0].value, ast.Constant) and isinstance(body[0].value.value, str):
        return body[1:]
    return body


def _module_aliases(tree):
    out = {}
    for st in ast.walk(tree):
        if isinstance(st, ast.Import):
            for al in st.names:
                parts = al.name.split(".")
                if parts[0] == PKG_NAME and len(parts) == 2 and al.asname:
                    out[al.asname] = parts[1]
        elif isinstance(st, ast.ImportFrom) and st.module == PKG_NAME and st.level == 0:
            for al in st.names:
                out[al.asname or al.name] = al.name
        elif isinstance(st, ast.ImportFrom) and st.level == 1 and not st.module:
            for al in st.names:
                out[al.asname or al.name] = al.name
    return out


class _SelfFields(ast.NodeTransformer):
    """self.<f> -> local name; any other use of self makes the expansion impossible"""

    def __init__(self, prefix):
        self.prefix = prefix
        self.bad = False

    def visit_Attribute(self, node):
        if isinstance(node.value, ast.Name) and node.value.id == "self":
            return ast.copy_location(ast.Name(id=self.prefix + node.attr.lstrip("_"), ctx=node.ctx), node)
        self.generic_visit(node)
        return node

    def visit_Name(self, node):
        if node.id == "self":
            self.bad = True
        return node


def _class_shape(cls):
    """-> dict(init_params, field_inits, enter_body, enter_result, exc_part, always_part, exc_param) or None"""
    meths = dict((m.name, m) for m in cls.body if isinstance(m, ast.FunctionDef))
    if "__enter__" not in meths or "__exit__" not in meths:
        return None
    if any(m.decorator_list for m in meths.values()):
        return None
    init = meths.get("__init__")
    params, field_inits = [], []
    if init is not None:
        a = init.args
        if a.vararg or a.kwarg or a.kwonlyargs or a.posonlyargs:
            return None
        params = [(x.arg, d) for x, d in zip(a.args[1:], [None] * (len(a.args) - 1 - len(a.defaults)) + list(a.defaults))]
        for st in _doc_stripped(init.body):
            if isinstance(st, ast.Assign) and len(st.targets) == 1 and isinstance(st.targets[0], ast.Attribute) and \
                    isinstance(st.targets[0].value, ast.Name) and st.targets[0].value.id == "self" and \
                    (isinstance(st.value, ast.Constant) or (isinstance(st.value, ast.Name) and st.value.id in [p for p, _d in params])):
                field_inits.append((st.targets[0].attr, st.value))
            elif isinstance(st, ast.Pass):
                continue
            else:
                return None
    ent = meths["__enter__"]
    if len(ent.args.args) != 1:
        return None
    ebody = list(_doc_stripped(ent.body))
    eres = None
    if ebody and isinstance(ebody[-1], ast.Return):
        eres = ebody[-1].value
        ebody = ebody[:-1]
    if any(isinstance(x, (ast.Return, ast.Yield, ast.YieldFrom)) for st in ebody for x in ast.walk(st)):
        return None
    ex = meths["__exit__"]
    if len(ex.args.args) != 4 or ex.args.vararg or ex.args.kwarg:
        return None
    et, ev_, tb = [x.arg for x in ex.args.args[1:]]
    xbody = list(_doc_stripped(ex.body))
    if xbody and isinstance(xbody[-1], ast.Return):
        rv = xbody[-1].value
        if not (rv is None or (isinstance(rv, ast.Constant) and rv.value in (None, False))):
            return None
        xbody = xbody[:-1]
    if any(isinstance(x, ast.Return) for st in xbody for x in ast.walk(st)):
        return None
    exc_part, always = [], []
    for st in xbody:
        names = set(x.id for x in ast.walk(st) if isinstance(x, ast.Name))
        if isinstance(st, ast.If) and not st.orelse and isinstance(st.test, ast.Compare) and len(st.test.ops) == 1 and \
                isinstance(st.test.ops[0], ast.IsNot) and isinstance(st.test.left, ast.Name) and st.test.left.id in (et, ev_) and \
                isinstance(st.test.comparators[0], ast.Constant) and st.test.comparators[0].value is None:
            exc_part.extend(st.body)
        elif not (names & set((et, ev_, tb))):
            always.append(st)
        else:
            return None
    if exc_part and always:
        return None
    return {"params": params, "fields": field_inits, "enter_body": ebody, "enter_result": eres, "exc_part": exc_part, "always": always,
            "exc_names": (et, ev_, tb)}


def _gen_shape(fn):
    """@contextmanager def cm(...): PRE; try: yield [E] finally: POST   -> (params, PRE, E, POST) or None"""
    decos = [ast.unparse(d) for d in fn.decorator_list]
    if not decos or not all(d in ("contextmanager", "contextlib.contextmanager", "staticmethod") for d in decos) or \
            not any(d.endswith("contextmanager") for d in decos):
        return None
    a = fn.args
    if a.vararg or a.kwarg or a.kwonlyargs or a.posonlyargs:
        return None
    body = list(_doc_stripped(fn.body))
    yields = [x for st in body for x in ast.walk(st) if isinstance(x, (ast.Yield, ast.YieldFrom))]
    if len(yields) != 1 or isinstance(yields[0], ast.YieldFrom) or not body:
        return None
    last = body[-1]
    if not (isinstance(last, ast.Try) and not last.handlers and not last.orelse and last.finalbody and len(last.body) == 1 and
            isinstance(last.body[0], ast.Expr) and last.body[0].value is yields[0]):
        return None
    pre = body[:-1]
    if any(isinstance(x, (ast.Return,)) for st in pre + last.finalbody for x in ast.walk(st)):
        return None
    return {"params": [x.arg for x in a.args], "defaults": [None] * (len(a.args) - len(a.defaults)) + list(a.defaults),
            "pre": pre, "value": yields[0].value, "post": last.finalbody, "static": "staticmethod" in decos}


class _Rename(ast.NodeTransformer):
    def __init__(self, mapping):
        self.mapping = mapping

    def visit_Name(self, node):
        if node.id in self.mapping:
            v = self.mapping[node.id]
            if isinstance(v, str):
                return ast.copy_location(ast.Name(id=v, ctx=node.ctx), node)
            if isinstance(node.ctx, ast.Load):
                return ast.copy_location(copy.deepcopy(v), node)
        return node


def _plain(e):
    while isinstance(e, ast.Attribute):
        e = e.value
    return isinstance(e, (ast.Name, ast.Constant))


class _Expander(ast.NodeTransformer):
    def __init__(self, mname, trees, aliases, known):
        self.mname, self.trees, self.aliases, self.known = mname, trees, aliases, known
        self.counter = 0
        self.cls_stack = [None]
        self.done = 0
        self.expanded_defs = []

    def visit_ClassDef(self, node):
        self.cls_stack.append(node)
        self.generic_visit(node)
        self.cls_stack.pop()
        return node

    def _new_class(self, e):
        """the class object a call expression instantiates, if it is a new class of the package"""
        f = e.func
        if isinstance(f, ast.Name):
            mod, name = self.mname, f.id
        elif isinstance(f, ast.Attribute) and isinstance(f.value, ast.Name) and f.value.id in self.aliases:
            mod, name = self.aliases[f.value.id], f.attr
        else:
            return None, None
        tree = self.trees.get(mod)
        if tree is None or any(k.startswith(name + ".") for k in self.known.get(mod, set())):
            return None, None
        for st in tree.body:
            if isinstance(st, ast.ClassDef) and st.name == name:
                return st, mod
        return None, None

    def _new_gen(self, e):
        f = e.func
        cur = self.cls_stack[-1]
        if isinstance(f, ast.Attribute) and isinstance(f.value, ast.Name) and f.value.id == "self" and cur is not None:
            if ("%s.%s" % (cur.name, f.attr)) in self.known.get(self.mname, set()):
                return None, False
            for m in cur.body:
                if isinstance(m, ast.FunctionDef) and m.name == f.attr:
                    return m, True
        if isinstance(f, ast.Name) and f.id not in self.known.get(self.mname, set()):
            for st in self.trees[self.mname].body:
                if isinstance(st, ast.FunctionDef) and st.name == f.id:
                    return st, False
        return None, False

    def visit_With(self, node):
        self.generic_visit(node)
        if len(node.items) != 1:
            return node
        item = node.items[0]
        e = item.context_expr
        if not isinstance(e, ast.Call) or any(isinstance(a, ast.Starred) for a in e.args) or any(k.arg is None for k in e.keywords):
            return node
        target = item.optional_vars
        if target is not None and not isinstance(target, ast.Name):
            return node
        out = self._expand_class(node, e, target) or self._expand_gen(node, e, target)
        if out is None:
            return node
        self.done += 1
        return [ast.copy_location(st, node) for st in out]

    def _bind(self, params, defaults, e, skip_self):
        bound = {}
        names = [p for p in params]
        if skip_self and names[:1] == ["self"]:
            names, defaults = names[1:], defaults[1:]
        for i, a in enumerate(e.args):
            if i >= len(names):
                return None
            bound[names[i]] = a
        for k in e.keywords:
            if k.arg not in names or k.arg in bound:
                return None
            bound[k.arg] = k.value
        for p, d in zip(names, defaults):
            if p not in bound:
                if d is None:
                    return None
                bound[p] = d
        return bound

    def _expand_class(self, node, e, target):
        cls, mod = self._new_class(e)
        if cls is None:
            return None
        sh = _class_shape(cls)
        if sh is None:
            return None
        self.expanded_defs.append((mod, cls))
        bound = self._bind([p for p, _d in sh["params"]], [d for _p, d in sh["params"]], e, False)
        if bound is None:
            return None
        self.counter += 1
        prefix = "_cm%d_" % self.counter
        sf = _SelfFields(prefix)
        pre = []
        # fields written only by __init__ and initialised from a plain argument (a name, constant or attribute chain that the
        # block does not rebind) are replaced by that argument; the others become locals
        rewritten = set(x.attr for m in cls.body if isinstance(m, ast.FunctionDef) and m.name != "__init__" for x in ast.walk(m)
                        if isinstance(x, ast.Attribute) and isinstance(x.ctx, (ast.Store, ast.Del)) and isinstance(x.value, ast.Name) and x.value.id == "self")
        stored_in_block = set(x.id for st in node.body for x in ast.walk(st) if isinstance(x, ast.Name) and isinstance(x.ctx, (ast.Store, ast.Del)))
        direct = {}
        for (fld, v) in sh["fields"]:
            val = copy.deepcopy(bound[v.id]) if isinstance(v, ast.Name) else copy.deepcopy(v)
            roots = set(x.id for x in ast.walk(val) if isinstance(x, ast.Name))
            if fld not in rewritten and _plain(val) and not (roots & stored_in_block):
                direct[prefix + fld.lstrip("_")] = val
            else:
                pre.append(ast.Assign(targets=[ast.Name(id=prefix + fld.lstrip("_"), ctx=ast.Store())], value=val))
        rn = _Rename(direct)
        enter = [rn.visit(sf.visit(copy.deepcopy(st))) for st in sh["enter_body"]]
        # (`return self` of an __enter__ whose result the `with` does not bind is of no consequence)
        res = rn.visit(sf.visit(copy.deepcopy(sh["enter_result"]))) if sh["enter_result"] is not None and target is not None else None
        exc_part = [rn.visit(sf.visit(copy.deepcopy(st))) for st in sh["exc_part"]]
        always = [rn.visit(sf.visit(copy.deepcopy(st))) for st in sh["always"]]
        if sf.bad:
            return None
        # the exception parameters of __exit__ may be used for logging inside the conditional part: bind them from sys.exc_info()
        et, ev_, tb = sh["exc_names"]
        uses_exc = any(isinstance(x, ast.Name) and x.id in (et, ev_, tb) for st in exc_part for x in ast.walk(st))
        if mod != self.mname:
            # names of the defining module are not visible here
            glob = set(x.id for st in enter + exc_part + always for x in ast.walk(st) if isinstance(x, ast.Name)) - \
                set(x.targets[0].id for x in pre) - set((et, ev_, tb))
            import builtins
            if any(not hasattr(builtins, g) for g in glob):
                return None
        out = list(pre) + enter
        if target is not None:
            out.append(ast.Assign(targets=[ast.Name(id=target.id, ctx=ast.Store())], value=res if res is not None else ast.Constant(value=None)))
        handlers = []
        if exc_part:
            hb = []
            hname = None
            if uses_exc:
                hname = prefix + "exc"
                hb.append(ast.parse("%s = type(%s)" % (et, hname)).body[0])
                hb.append(ast.parse("%s = %s" % (ev_, hname)).body[0])
                hb.append(ast.parse("%s = None" % tb).body[0])
            hb += exc_part + [ast.Raise(exc=None, cause=None)]
            handlers = [ast.ExceptHandler(type=ast.Name(id="BaseException", ctx=ast.Load()) if hname else None, name=hname, body=hb)]
        if not handlers and not always:
            out.extend(node.body)
        else:
            out.append(ast.Try(body=node.body, handlers=handlers, orelse=[], finalbody=always))
        return out

    def _expand_gen(self, node, e, target):
        fn, is_method = self._new_gen(e)
        if fn is None:
            return None
        sh = _gen_shape(fn)
        if sh is None:
            return None
        bound = self._bind(sh["params"], sh["defaults"], e, is_method and not sh["static"])
        if bound is None or not all(_plain(v) for v in bound.values()):
            return None
        self.expanded_defs.append((self.mname, fn))
        self.counter += 1
        prefix = "_cm%d_" % self.counter
        local = set()
        for st in sh["pre"] + sh["post"]:
            for x in ast.walk(st):
                if isinstance(x, ast.Name) and isinstance(x.ctx, ast.Store):
                    local.add(x.id)
        mapping = dict((n, prefix + n) for n in local)
        mapping.update(bound)
        rn = _Rename(mapping)
        pre = [rn.visit(copy.deepcopy(st)) for st in sh["pre"]]
        post = [rn.visit(copy.deepcopy(st)) for st in sh["post"]]
        out = list(pre)
        if target is not None:
            val = rn.visit(copy.deepcopy(sh["value"])) if sh["value"] is not None else ast.Constant(value=None)
            out.append(ast.Assign(targets=[ast.Name(id=target.id, ctx=ast.Store())], value=val))
        out.append(ast.Try(body=node.body, handlers=[], orelse=[], finalbody=post))
        return out


def expand(trees):
    """in place; -> {module: number of with statements expanded}"""
    known = known_functions()
    done = {}
    defs = []
    for mname, tree in trees.items():
        ex = _Expander(mname, trees, _module_aliases(tree), known)
        ex.visit(tree)
        if ex.done:
            ast.fix_missing_locations(tree)
            done[mname] = ex.done
            defs.extend(ex.expanded_defs)
    # a context manager every use of which was expanded is dead code now: drop its definition (rules that scan all
    # functions of a class would otherwise examine statements that never run in that form)
    for (mod, d) in defs:
        name = d.name
        still = False
        for t in trees.values():
            for x in ast.walk(t):
                if x is d:
                    continue
                if (isinstance(x, ast.Name) and x.id == name) or (isinstance(x, ast.Attribute) and x.attr == name):
                    if not any(x is y for y in ast.walk(d)):
                        still = True
        if still:
            continue
        for t in trees.values():
            for holder in ast.walk(t):
                body = getattr(holder, "body", None)
                if isinstance(body, list) and any(b is d for b in body):
                    holder.body = [b for b in body if b is not d] or [ast.Pass()]
    return done
