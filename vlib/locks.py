"""E5 -- roles, locksets, field accesses, blocking calls for classes with a lock field."""
import ast
from .model import AnalysisError, dump, mangle, FuncInfo
from .cfg import cfg_of, node_calls, node_exprs

MUTATING = {"append", "extend", "insert", "pop", "remove", "clear", "update", "setdefault", "add", "discard", "sort", "reverse"}


def queue_call_bounds(c):
    """(block expression, timeout expression) of a queue.Queue put(item, block, timeout) / get(block, timeout) call
    (None where the argument is not given)"""
    base = 1 if c.func.attr == "put" else 0
    if any(isinstance(a, ast.Starred) for a in c.args) or any(k.arg is None for k in c.keywords):
        raise AnalysisError("queue call with unpacked arguments: %s" % dump(c))
    blk = c.args[base] if len(c.args) > base else None
    tmo = c.args[base + 1] if len(c.args) > base + 1 else None
    for k in c.keywords:
        if k.arg == "block":
            blk = k.value
        elif k.arg == "timeout":
            tmo = k.value
    return blk, tmo


class ClassLocks(object):
    def __init__(self, prog, ci):
        self.prog = prog
        self.ci = ci
        self.field_types = {}      # attr (as written) -> constructor dotted name, from __init__
        init = ci.methods.get("__init__")
        if init is None:
            raise AnalysisError("anchor vanished: %s.__init__" % ci.fq)
        for st in ast.walk(init.node):
            if isinstance(st, ast.Assign):
                for t in st.targets:
                    if isinstance(t, ast.Attribute) and dump(t.value) == "self":
                        v = st.value
                        if isinstance(v, ast.Call):
                            self.field_types[t.attr] = prog.resolve(ci.module, v.func) or dump(v.func)
                        else:
                            self.field_types.setdefault(t.attr, "value")
        self.lock_fields = [a for a, ty in self.field_types.items() if ty in ("ext:threading.RLock", "ext:threading.Lock")]
        self.entry_locks = {}
        self._compute_entry_locks()

    def held(self, fi, node):
        """lock attrs (as written, e.g. '__lock') held at node, including locks held by all callers"""
        out = set(self.entry_locks.get(fi.name, ()))
        for w in node.withs:
            for lf in self.lock_fields:
                if w == "self." + lf:
                    out.add(lf)
        return out

    def _compute_entry_locks(self):
        methods = self.ci.methods
        calls = {}      # callee name -> list of (caller fi, node)
        targets = set()
        for fi in methods.values():
            g = cfg_of(fi)
            for n in g.live_nodes():
                deferred = set()      # calls written inside a lambda are not made here: the method is handed over as a value
                for e in node_exprs(n):
                    for lam in [x for x in ast.walk(e) if isinstance(x, ast.Lambda)]:
                        for c in [x for x in ast.walk(lam.body) if isinstance(x, ast.Call)]:
                            deferred.add(id(c))
                            if isinstance(c.func, ast.Attribute) and dump(c.func.value) == "self" and c.func.attr in methods:
                                targets.add(c.func.attr)
                for c in node_calls(n):
                    f = c.func
                    if id(c) in deferred:
                        continue
                    if isinstance(f, ast.Attribute) and dump(f.value) == "self" and f.attr in methods:
                        calls.setdefault(f.attr, []).append((fi, n))
                    for a in list(c.args) + [k.value for k in c.keywords]:
                        if isinstance(a, ast.Attribute) and dump(a.value) == "self" and a.attr in methods:
                            targets.add(a.attr)      # passed as a value (thread target, callback): no lock at entry
        self.thread_targets = targets
        cur = dict((m, set(self.lock_fields)) for m in methods)
        for m in methods:
            if not m.startswith("_") or m.startswith("__") and m.endswith("__") or m in targets or m not in calls:
                cur[m] = set()
            if not (m.startswith("__") and not m.endswith("__")) and not m.startswith("_"):
                cur[m] = set()
        changed = True
        while changed:
            changed = False
            for m in methods:
                if m not in calls or m in targets or not m.startswith("_") or (m.startswith("__") and m.endswith("__")):
                    continue
                new = None
                for (caller, n) in calls[m]:
                    h = set(cur.get(caller.name, set()))
                    for w in n.withs:
                        for lf in self.lock_fields:
                            if w == "self." + lf:
                                h.add(lf)
                    new = h if new is None else (new & h)
                new = new or set()
                if new != cur[m]:
                    cur[m] = new
                    changed = True
        self.entry_locks = cur

    def accesses(self, fi):
        """[(node, attr, 'r'|'w', text)] for self.<attr> accesses in fi (writes: stores, augmented assignments,
        del, mutating method calls and slice deletion on the field)"""
        g = cfg_of(fi)
        out = []
        for n in g.live_nodes():
            for e in node_exprs(n):
                writes = set()
                if isinstance(e, (ast.Assign, ast.AugAssign, ast.Delete)):
                    tg = e.targets if not isinstance(e, ast.AugAssign) else [e.target]
                    for t in tg:
                        base = t
                        while isinstance(base, ast.Subscript):
                            base = base.value
                        if isinstance(base, ast.Attribute) and dump(base.value) == "self":
                            writes.add(id(base))
                            out.append((n, base.attr, "w", dump(e)[:60]))
                            if isinstance(e, ast.AugAssign):
                                out.append((n, base.attr, "r", dump(e)[:60]))
                for sub in ast.walk(e):
                    if isinstance(sub, ast.Call) and isinstance(sub.func, ast.Attribute) and sub.func.attr in MUTATING:
                        b = sub.func.value
                        if isinstance(b, ast.Attribute) and dump(b.value) == "self":
                            writes.add(id(b))
                            out.append((n, b.attr, "w", dump(sub)[:60]))
                    if isinstance(sub, ast.Attribute) and dump(sub.value) == "self" and id(sub) not in writes \
                            and isinstance(sub.ctx, ast.Load):
                        out.append((n, sub.attr, "r", dump(sub)))
        return out

    def blocking_calls(self, fi):
        """[(node, call, kind)] calls of blocking primitives on typed fields / locals"""
        g = cfg_of(fi)
        out = []
        for n in g.live_nodes():
            for c in node_calls(n):
                f = c.func
                if not isinstance(f, ast.Attribute):
                    continue
                recv = f.value
                ty = None
                if isinstance(recv, ast.Attribute) and dump(recv.value) == "self":
                    ty = self.field_types.get(recv.attr)
                if isinstance(recv, ast.Attribute) and isinstance(recv.value, ast.Attribute) and dump(recv.value.value) == "self" \
                        and self.field_types.get(recv.value.attr) == "ext:queue.Queue" and recv.attr == "all_tasks_done":
                    ty = "ext:threading.Condition"
                kind = None
                if ty == "ext:queue.Queue" and f.attr in ("put", "get"):
                    blk, tmo = queue_call_bounds(c)
                    if blk is None or not (isinstance(blk, ast.Constant) and blk.value is False):
                        # put(item, block=True, timeout=None): without a timeout the wait has no bound
                        if tmo is None or (isinstance(tmo, ast.Constant) and tmo.value is None):
                            kind = "Queue.%s (blocking, no timeout)" % f.attr
                        else:
                            kind = "Queue.%s (blocking)" % f.attr
                elif ty == "ext:queue.Queue" and f.attr == "join":
                    kind = "Queue.join"
                elif ty == "ext:threading.Event" and f.attr == "wait":
                    kind = "Event.wait"
                elif ty == "ext:threading.Condition" and f.attr == "wait":
                    kind = "Condition.wait"
                elif f.attr == "join" and isinstance(recv, ast.Name) and "thread" in recv.id.lower():
                    kind = "Thread.join"
                elif f.attr in ("shutdown", "serve_forever") and dump(recv) in ("self", "SimpleJSONRPCServer"):
                    kind = "BaseServer.%s" % f.attr
                if kind:
                    out.append((n, c, kind))
        return out
