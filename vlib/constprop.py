"""Normaliser pass: new named constants are replaced by their values.

A clean-up commit often gives a literal a name (`_HTTP_OK = 200`, `_JSONCLASS_KEY = "__jsonclass__"`, `_NO_ID = (None, "")`,
a class attribute `_JSONRPC_2 = 2`, `utils.ERROR_PARSE = -32700`).  The rules compare literals, fold constants and anchor on
the names that exist in the analysed tree; a *new* name bound exactly once, at module or class level, to a literal (or to a
tuple of literals / of attribute chains such as `utils.ListType`) and never stored to again is therefore substituted by its
value before anything else runs.  Names of the pinned tree (vlib/known_constants.json) are left alone: rules anchor on
them (SUPPORTED_TYPES, readonly_headers, ...).  Subscripts of literal tuples with a literal index are folded afterwards
(`(-32700, -32000)[0]` -> `-32700`)."""
import ast
import copy
import json
import os

_HERE = os.path.dirname(os.path.abspath(__file__))
_KNOWN = None
PKG_NAME = "jsonrpclib"


def known_constants():
    global _KNOWN
    if _KNOWN is None:
        with open(os.path.join(_HERE, "known_constants.json")) as fh:
            _KNOWN = dict((k, set(v)) for k, v in json.load(fh).items())
    return _KNOWN


DICT_TABLES = {}      # module -> {name: ast.Dict} read-only lookup tables found by _collect (reset by propagate)


def _literal(e, depth=0):
    if isinstance(e, ast.Call) and depth == 0 and ast.unparse(e.func) == "re.compile" and len(e.args) == 1 and not e.keywords and \
            (isinstance(e.args[0], ast.Name) or _literal(e.args[0], 1)):
        return True           # a precompiled pattern: `_RX = re.compile(P)` ... `_RX.sub(...)` is re.sub(P, ...)
    if isinstance(e, ast.Constant):
        return not isinstance(e.value, type(Ellipsis))
    if depth == 0 and _builtin_name(e):
        return True           # `_DICT = dict`: another name of a builtin type
    if _none_type(e):
        return True
    if isinstance(e, ast.UnaryOp) and isinstance(e.op, (ast.USub, ast.UAdd)) and isinstance(e.operand, ast.Constant) and \
            isinstance(e.operand.value, (int, float)):
        return True
    if isinstance(e, ast.Tuple) and depth < 2:
        return all(_literal(x, depth + 1) or _chain(x) or _builtin_name(x) for x in e.elts)
    if isinstance(e, ast.BinOp) and isinstance(e.op, (ast.Mult, ast.Add, ast.Sub)) and _literal(e.left, depth + 1) and _literal(e.right, depth + 1) \
            and not isinstance(e.left, ast.Tuple) and not isinstance(e.right, ast.Tuple):
        return True          # 10 * 1024 * 1024
    return False


def _none_type(e):
    return isinstance(e, ast.Call) and isinstance(e.func, ast.Name) and e.func.id == "type" and len(e.args) == 1 and not e.keywords and \
        isinstance(e.args[0], ast.Constant) and e.args[0].value is None


def _builtin_name(e):
    """TypeError, ValueError, int, str ...: a builtin type / exception used in an `except` or isinstance tuple"""
    import builtins
    return isinstance(e, ast.Name) and isinstance(getattr(builtins, e.id, None), type)


def _chain(e):
    """utils.ListType, jsonrpclib.utils.DictType: an attribute chain rooted at a name (a type alias of another module)"""
    if not isinstance(e, ast.Attribute):
        return False
    while isinstance(e, ast.Attribute):
        e = e.value
    return isinstance(e, ast.Name)


def _module_aliases(tree):
    out = {}
    for st in ast.walk(tree):
        if isinstance(st, ast.Import):
            for al in st.names:
                parts = al.name.split(".")
                if parts[0] == PKG_NAME and len(parts) == 2:
                    if al.asname:
                        out[al.asname] = parts[1]
                    else:
                        out["%s.%s" % (PKG_NAME, parts[1])] = parts[1]
        elif isinstance(st, ast.ImportFrom) and st.module == PKG_NAME and st.level == 0:
            for al in st.names:
                out[al.asname or al.name] = al.name
        elif isinstance(st, ast.ImportFrom) and st.level == 1 and not st.module:
            for al in st.names:
                out[al.asname or al.name] = al.name
    return out


def _collect(mname, tree):
    """-> (module constants {name: expr}, class constants {(class, name): expr})"""
    known = known_constants().get(mname, set())
    stores = {}
    for x in ast.walk(tree):
        if isinstance(x, ast.Name) and isinstance(x.ctx, (ast.Store, ast.Del)):
            stores[x.id] = stores.get(x.id, 0) + 1
        elif isinstance(x, (ast.Global, ast.Nonlocal)):
            for nm in x.names:
                stores[nm] = stores.get(nm, 0) + 10
        elif isinstance(x, (ast.FunctionDef, ast.ClassDef)):
            stores[x.name] = stores.get(x.name, 0) + 10
        elif isinstance(x, ast.arg):
            stores[x.arg] = stores.get(x.arg, 0) + 0      # parameters shadow, handled per function
        elif isinstance(x, (ast.Import, ast.ImportFrom)):
            for al in x.names:
                nm = (al.asname or al.name).split(".")[0]
                stores[nm] = stores.get(nm, 0) + 10
    mod_c = {}
    for st in tree.body:
        if isinstance(st, ast.Assign) and len(st.targets) == 1 and isinstance(st.targets[0], ast.Name):
            nm = st.targets[0].id
            if nm not in known and not (nm.startswith("__") and nm.endswith("__")) and stores.get(nm, 0) == 1 and _literal(st.value):
                mod_c[nm] = st.value
            elif nm not in known and stores.get(nm, 0) == 1 and isinstance(st.value, ast.Dict) and st.value.keys and \
                    all(k is not None and (_literal(k) or isinstance(k, ast.Name)) for k in st.value.keys) and all(_literal(v) for v in st.value.values):
                DICT_TABLES.setdefault(mname, {})[nm] = st.value
    attr_stores = set()
    for x in ast.walk(tree):
        if isinstance(x, ast.Attribute) and isinstance(x.ctx, (ast.Store, ast.Del)):
            attr_stores.add(x.attr)
        if isinstance(x, ast.Call) and isinstance(x.func, ast.Name) and x.func.id in ("setattr", "delattr") and len(x.args) > 1:
            if isinstance(x.args[1], ast.Constant):
                attr_stores.add(x.args[1].value)
            else:
                attr_stores.add("*")
    cls_c = {}
    for cls in [n for n in ast.walk(tree) if isinstance(n, ast.ClassDef)]:
        counts = {}
        for st in cls.body:
            if isinstance(st, ast.Assign):
                for t in st.targets:
                    for nmx in ast.walk(t):
                        if isinstance(nmx, ast.Name):
                            counts[nmx.id] = counts.get(nmx.id, 0) + 1
            elif isinstance(st, (ast.FunctionDef, ast.ClassDef)):
                counts[st.name] = counts.get(st.name, 0) + 10
        for st in cls.body:
            if isinstance(st, ast.Assign) and len(st.targets) == 1 and isinstance(st.targets[0], ast.Name):
                nm = st.targets[0].id
                if ("%s.%s" % (cls.name, nm)) in known or (nm.startswith("__") and nm.endswith("__")):
                    continue
                if counts.get(nm, 0) == 1 and nm not in attr_stores and "*" not in attr_stores and _literal(st.value):
                    cls_c[(cls.name, nm)] = st.value
    return mod_c, cls_c


def _mangle(cls, nm):
    if nm.startswith("__") and not nm.endswith("__"):
        return "_%s%s" % (cls.lstrip("_"), nm)
    return nm


class _Subst(ast.NodeTransformer):
    def __init__(self, mname, mod_c, cls_c, foreign, aliases, bases):
        self.mname, self.mod_c, self.cls_c, self.foreign, self.aliases, self.bases = mname, mod_c, cls_c, foreign, aliases, bases
        self.shadow = [set()]
        self.cls = [None]
        self.count = 0

    def _val(self, e, node):
        self.count += 1
        return ast.copy_location(copy.deepcopy(e), node)

    def visit_ClassDef(self, node):
        self.cls.append(node.name)
        # the defining assignments stay; everything else in the class is rewritten
        node.body = [self.visit(st) if not (isinstance(st, ast.Assign) and len(st.targets) == 1 and isinstance(st.targets[0], ast.Name)
                                            and (node.name, st.targets[0].id) in self.cls_c) else st for st in node.body]
        self.cls.pop()
        return node

    def visit_FunctionDef(self, node):
        local = set(a.arg for a in node.args.args + node.args.kwonlyargs + node.args.posonlyargs)
        for a in (node.args.vararg, node.args.kwarg):
            if a:
                local.add(a.arg)
        for x in ast.walk(node):
            if isinstance(x, ast.Name) and isinstance(x.ctx, (ast.Store, ast.Del)):
                local.add(x.id)
        self.shadow.append(self.shadow[-1] | local)
        self.generic_visit(node)
        self.shadow.pop()
        return node

    visit_Lambda = visit_FunctionDef

    def visit_Name(self, node):
        if isinstance(node.ctx, ast.Load) and node.id in self.mod_c and node.id not in self.shadow[-1]:
            return self._val(self.mod_c[node.id], node)
        return node

    def _class_const(self, cname, attr):
        seen = set()
        todo = [cname]
        while todo:
            c = todo.pop()
            if c in seen:
                continue
            seen.add(c)
            if (c, attr) in self.cls_c:
                return self.cls_c[(c, attr)]
            todo.extend(self.bases.get(c, ()))
        return None

    def visit_Attribute(self, node):
        self.generic_visit(node)
        if not isinstance(node.ctx, ast.Load):
            return node
        v = node.value
        cur = self.cls[-1]
        if isinstance(v, ast.Name) and v.id in ("self", "cls") and cur is not None:
            e = self._class_const(cur, node.attr)
            if e is not None:
                return self._val(e, node)
        if isinstance(v, ast.Name) and any(v.id == c for (c, _a) in self.cls_c) and v.id not in self.shadow[-1]:
            e = self._class_const(v.id, node.attr)
            if e is not None:
                return self._val(e, node)
        if isinstance(v, ast.Call) and isinstance(v.func, ast.Name) and v.func.id == "type" and len(v.args) == 1 and \
                isinstance(v.args[0], ast.Name) and v.args[0].id == "self" and cur is not None:
            e = self._class_const(cur, node.attr)
            if e is not None:
                return self._val(e, node)
        # alias.NAME of another package module
        txt = None
        if isinstance(v, ast.Name) and v.id not in self.shadow[-1]:
            txt = v.id
        elif isinstance(v, ast.Attribute) and isinstance(v.value, ast.Name):
            txt = "%s.%s" % (v.value.id, v.attr)
        if txt in self.aliases:
            src = self.aliases[txt]
            if src != self.mname and node.attr in self.foreign.get(src, {}):
                return self._val(self.foreign[src][node.attr], node)
        return node


class _FoldSubscript(ast.NodeTransformer):
    def visit_Subscript(self, node):
        self.generic_visit(node)
        if isinstance(node.ctx, ast.Load) and isinstance(node.value, ast.Tuple) and isinstance(node.slice, ast.Constant) and \
                isinstance(node.slice.value, int) and not isinstance(node.slice.value, bool) and -len(node.value.elts) <= node.slice.value < len(node.value.elts):
            return ast.copy_location(node.value.elts[node.slice.value], node)
        return node


_MUTATORS = ("update", "setdefault", "pop", "popitem", "clear", "__setitem__", "__delitem__")


def _table_mutated(trees, name):
    for t in trees.values():
        for x in ast.walk(t):
            tgt = None
            if isinstance(x, ast.Subscript) and isinstance(x.ctx, (ast.Store, ast.Del)):
                tgt = x.value
            elif isinstance(x, ast.Call) and isinstance(x.func, ast.Attribute) and x.func.attr in _MUTATORS:
                tgt = x.func.value
            if tgt is not None and ((isinstance(tgt, ast.Name) and tgt.id == name) or (isinstance(tgt, ast.Attribute) and tgt.attr == name)):
                return True
    return False


class _FoldTables(ast.NodeTransformer):
    """TABLE[<literal key>] -> the literal value, for read-only module-level dictionaries of literals"""

    def __init__(self, mname, tables, aliases):
        self.mname, self.tables, self.aliases = mname, tables, aliases
        self.count = 0

    def visit_Subscript(self, node):
        self.generic_visit(node)
        if not isinstance(node.ctx, ast.Load):
            return node
        v = node.value
        tab = None
        if isinstance(v, ast.Name):
            tab = self.tables.get(self.mname, {}).get(v.id)
        elif isinstance(v, ast.Attribute) and isinstance(v.value, ast.Name) and v.value.id in self.aliases:
            tab = self.tables.get(self.aliases[v.value.id], {}).get(v.attr)
        if tab is None or not _literal(node.slice):
            return node
        key = ast.dump(node.slice)
        for k, val in zip(tab.keys, tab.values):
            if ast.dump(k) == key:
                self.count += 1
                return ast.copy_location(copy.deepcopy(val), node)
        return node


def propagate(trees):
    """in place; -> {module: number of substitutions}"""
    DICT_TABLES.clear()
    mods = dict((m, _collect(m, t)) for m, t in trees.items())
    # a class-level name bound in two classes of the package may be an override: `self.NAME` then depends on the instance
    seen_attr = {}
    for t in trees.values():
        for cls in [n for n in ast.walk(t) if isinstance(n, ast.ClassDef)]:
            for st in cls.body:
                if isinstance(st, ast.Assign):
                    for tg in st.targets:
                        if isinstance(tg, ast.Name):
                            seen_attr[tg.id] = seen_attr.get(tg.id, 0) + 1
    for m in mods:
        mc_, cc_ = mods[m]
        mods[m] = (mc_, dict((k, v) for k, v in cc_.items() if seen_attr.get(k[1], 0) == 1))
    # constants of module M qualified for use from another module: chains rooted at M's own import aliases are kept as they are
    # only when they are plain literals (a foreign `utils.ListType` element would need re-qualifying)
    foreign = {}
    for m, (mc, _cc) in mods.items():
        foreign[m] = dict((k, v) for k, v in mc.items() if not any(isinstance(x, ast.Attribute) or (isinstance(x, ast.Name) and not _builtin_name(x))
                                                                 for x in ast.walk(v)))
    done = {}
    for m, tree in trees.items():
        mc, cc = mods[m]
        bases = {}
        for cls in [n for n in ast.walk(tree) if isinstance(n, ast.ClassDef)]:
            bases[cls.name] = [b.id for b in cls.bases if isinstance(b, ast.Name)]
        imported = {}
        for st in ast.walk(tree):
            if isinstance(st, ast.ImportFrom) and ((st.module or "").startswith(PKG_NAME + ".") or (st.level == 1 and st.module)):
                src = (st.module or "").split(".")[-1]
                for al in st.names:
                    if al.name in foreign.get(src, {}):
                        imported[al.asname or al.name] = foreign[src][al.name]
        mc2 = dict(mc)
        for k, v in imported.items():
            mc2.setdefault(k, v)
        # `from jsonrpclib.M import K` where K is a namespace class of M holding plain literal constants: K.NAME here is M's K.NAME
        cc2 = dict(cc)
        own_classes = set(c.name for c in ast.walk(tree) if isinstance(c, ast.ClassDef))
        for st in ast.walk(tree):
            if isinstance(st, ast.ImportFrom) and ((st.module or "").startswith(PKG_NAME + ".") or (st.level == 1 and st.module)):
                src = (st.module or "").split(".")[-1]
                if src == m or src not in mods:
                    continue
                for al in st.names:
                    local = al.asname or al.name
                    if local in own_classes:
                        continue
                    for (cn, an), v in mods[src][1].items():
                        if cn == al.name and not any(isinstance(x, ast.Attribute) or (isinstance(x, ast.Name) and not _builtin_name(x)) for x in ast.walk(v)):
                            cc2[(local, an)] = v
        cc = cc2
        if not mc2 and not cc and not any(foreign.values()):
            continue
        sub = _Subst(m, mc2, cc, foreign, _module_aliases(tree), bases)
        # module-level defining assignments stay as they are
        new_body = []
        for st in tree.body:
            if isinstance(st, ast.Assign) and len(st.targets) == 1 and isinstance(st.targets[0], ast.Name) and st.targets[0].id in mc:
                new_body.append(st)
            else:
                new_body.append(sub.visit(st))
        tree.body = new_body
        if sub.count:
            _FoldSubscript().visit(tree)
            ast.fix_missing_locations(tree)
            done[m] = sub.count
    # read-only tables: keys that are names of constants have been replaced above (inside the defining module too)
    tables = {}
    for m, tabs in DICT_TABLES.items():
        for nm, d in tabs.items():
            if not _table_mutated(trees, nm) and all(_literal(k) for k in d.keys):
                tables.setdefault(m, {})[nm] = d
    if tables:
        for m, tree in trees.items():
            ft = _FoldTables(m, tables, _module_aliases(tree))
            ft.visit(tree)
            if ft.count:
                ast.fix_missing_locations(tree)
                done[m] = done.get(m, 0) + ft.count
    return done


# ---------------------------------------------------------------------------
# keyword arguments -> positional, literal string methods folded
# ---------------------------------------------------------------------------
_STDLIB_KW = {
    # method / constructor name -> parameter names in positional order (after self); only unambiguous names
    "wait": ("timeout",), "put": ("item", "block", "timeout"), "put_nowait": ("item",), "Queue": ("maxsize",),
    "getheader": ("name", "default"), "putheader": ("header", "value"), "putrequest": ("method", "url"),
    "getLogger": ("name",), "Thread": None, "urlparse": ("urlstring",),
    "_Method": ("send", "name"),        # inherits xmlrpc.client._Method.__init__(self, send, name)
}
_FOLDABLE_STR = ("lower", "upper", "strip", "lstrip", "rstrip", "title", "capitalize", "casefold", "swapcase")


def dump_(e):
    return ast.unparse(e)


def _package_signatures(trees):
    """function / method name -> positional parameter names (self / cls dropped), when the name has one definition in the package
    (or all its definitions agree)"""
    sigs = {}
    for t in trees.values():
        for fn in [n for n in ast.walk(t) if isinstance(n, ast.FunctionDef)]:
            a = fn.args
            if a.vararg or a.kwarg or a.posonlyargs:
                params = None
            else:
                params = tuple(x.arg for x in a.args)
                if params[:1] in (("self",), ("cls",)):
                    params = params[1:]
            sigs.setdefault(fn.name, set()).add(params)
    for t in trees.values():
        for cls in [n for n in ast.walk(t) if isinstance(n, ast.ClassDef)]:
            init = [m for m in cls.body if isinstance(m, ast.FunctionDef) and m.name == "__init__"]
            if init:
                a = init[0].args
                if not (a.vararg or a.kwarg or a.posonlyargs):
                    sigs.setdefault(cls.name, set()).add(tuple(x.arg for x in a.args)[1:])
                else:
                    sigs.setdefault(cls.name, set()).add(None)
    return dict((k, set(x for x in v if x is not None)) for k, v in sigs.items() if None not in v)


class _KwToPos(ast.NodeTransformer):
    """f(a, k1=x, k2=y) -> f(a, x, y) when k1, k2 are the next positional parameters of f (no gap), for package functions /
    methods / constructors with a unique signature and a few standard-library calls; `"Lit".lower()` -> "lit"."""

    def __init__(self, sigs):
        self.sigs = sigs
        self.count = 0

    def visit_Call(self, node):
        self.generic_visit(node)
        f = node.func
        if isinstance(f, ast.Attribute) and isinstance(f.value, ast.Constant) and isinstance(f.value.value, str) and f.attr in _FOLDABLE_STR \
                and not node.args and not node.keywords:
            self.count += 1
            return ast.copy_location(ast.Constant(value=getattr(f.value.value, f.attr)()), node)
        # re.compile(P).sub(r, s) -> re.sub(P, r, s)  (likewise match / search / fullmatch / split / findall)
        if isinstance(f, ast.Attribute) and f.attr in ("sub", "subn", "match", "search", "fullmatch", "split", "findall") and isinstance(f.value, ast.Call) \
                and dump_(f.value.func) == "re.compile" and len(f.value.args) == 1 and not f.value.keywords and not node.keywords:
            self.count += 1
            return ast.copy_location(ast.Call(func=ast.Attribute(value=ast.Name(id="re", ctx=ast.Load()), attr=f.attr, ctx=ast.Load()),
                                              args=[f.value.args[0]] + list(node.args), keywords=[]), node)
        if not node.keywords or any(k.arg is None for k in node.keywords) or any(isinstance(a, ast.Starred) for a in node.args):
            return node
        name = f.id if isinstance(f, ast.Name) else f.attr if isinstance(f, ast.Attribute) else None
        explicit_self = isinstance(f, ast.Attribute) and f.attr == "__init__"        # Base.__init__(self, ...)
        cands = self.sigs.get(name)
        params = None
        if cands:
            # several definitions of the name: the one (and only one) whose parameters include every keyword used and that
            # can take the positional arguments given
            npos_ = len(node.args) - (1 if explicit_self else 0)
            fit = [p_ for p_ in cands if all(k.arg in p_ for k in node.keywords) and npos_ <= len(p_) and
                   not any(k.arg in p_[:npos_] for k in node.keywords)]
            if len(fit) == 1:
                params = fit[0]
            elif len(fit) > 1 and len(set(p_[:max(len(x) for x in fit)] for p_ in fit)) == 1:
                params = fit[0]
        if params is None and not cands:
            params = _STDLIB_KW.get(name)
        if not params:
            return node
        npos = len(node.args) - (1 if explicit_self else 0)
        if npos < 0:
            return node
        kws = dict((k.arg, k.value) for k in node.keywords)
        new_args = list(node.args)
        i = npos
        while i < len(params) and params[i] in kws:
            new_args.append(kws.pop(params[i]))
            i += 1
        if len(new_args) == len(node.args):
            return node
        if any(k in params[:i] for k in kws):
            return node          # a keyword names a parameter already given positionally: leave the (erroneous) call alone
        node.args = new_args
        node.keywords = [k for k in node.keywords if k.arg in kws]
        self.count += 1
        return node


def canonical_calls(trees):
    sigs = _package_signatures(trees)
    done = {}
    for m, t in trees.items():
        tr = _KwToPos(sigs)
        tr.visit(t)
        if tr.count:
            ast.fix_missing_locations(t)
            done[m] = tr.count
    return done
