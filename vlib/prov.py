"""E3 -- provenance ("flows unchanged") terms over reaching definitions.

Terms (nested tuples, hashable):
  ('param', name) ('const', value) ('global', dotted-or-name)
  ('attr', t, name) ('item', t, key_t) ('call', f_t, (arg_t...), ((kw, t)...))
  ('elem', t) loop element     ('unpack', t, i)   ('with', t)   ('exc', text)
  ('or', (t...)) ('and', (t...)) ('phi', frozenset(t...)) ('tuple', (t...))
  ('star', t) ('other', text) ('loop',)
"""
import ast
from .model import dump
from .flow import reaching_defs

def rd_of(cfg):
    rd = getattr(cfg, "_rd", None)
    if rd is None:
        rd = reaching_defs(cfg)
        cfg._rd = rd
    return rd


def origin(cfg, node, expr, depth=0, seen=frozenset()):
    rd = rd_of(cfg)
    return _origin(cfg, rd, node, expr, depth, seen)


def _phi(terms):
    flat = set()
    for t in terms:
        if t[0] == "phi":
            flat |= set(t[1])
        else:
            flat.add(t)
    if len(flat) == 1:
        return next(iter(flat))
    return ("phi", frozenset(flat))


def _target_term(target, name, value_term):
    """term bound to `name` when `target` receives a value with term value_term."""
    if isinstance(target, ast.Name):
        return value_term if target.id == name else None
    if isinstance(target, (ast.Tuple, ast.List)):
        for i, e in enumerate(target.elts):
            if value_term[0] == "tuple" and i < len(value_term[1]):
                sub = value_term[1][i]
            else:
                sub = ("unpack", value_term, i)
            r = _target_term(e, name, sub)
            if r is not None:
                return r
    if isinstance(target, ast.Starred):
        return _target_term(target.value, name, ("star", value_term))
    return None


def _none_default(cfg, name, defs):
    """`def f(..., p=<D>)` ... `if p is None: p = <D>`: an explicit None is mapped to the parameter's declared default, i.e. it
    means what leaving the argument out means.  For the reaching definitions {parameter, that assignment} the value is the
    parameter (whose default the rules know from the signature): -> the definitions without the assignment, else None."""
    if len(defs) != 2:
        return None
    dn = [cfg.nodes[d] for d in sorted(defs)]
    ent = [n for n in dn if n.kind == "entry"]
    asg = [n for n in dn if n.kind == "stmt" and isinstance(n.ast, ast.Assign)]
    if len(ent) != 1 or len(asg) != 1:
        return None
    a = asg[0].ast
    if not (len(a.targets) == 1 and isinstance(a.targets[0], ast.Name) and a.targets[0].id == name):
        return None
    fn = cfg.fi.node
    args = fn.args
    params = [x.arg for x in args.args]
    if name not in params:
        return None
    defaults = [None] * (len(params) - len(args.defaults)) + list(args.defaults)
    dflt = defaults[params.index(name)]
    if dflt is None or dump(dflt) != dump(a.value) or (isinstance(dflt, ast.Constant) and dflt.value is None):
        return None
    # the assignment is the whole body of a top-level `if <name> is None:` without else
    for st in fn.body:
        if isinstance(st, ast.If) and not st.orelse and len(st.body) == 1 and st.body[0] is a and isinstance(st.test, ast.Compare) and \
                len(st.test.ops) == 1 and isinstance(st.test.ops[0], ast.Is) and isinstance(st.test.left, ast.Name) and st.test.left.id == name and \
                isinstance(st.test.comparators[0], ast.Constant) and st.test.comparators[0].value is None:
            return frozenset([ent[0].id])
    return None


def _origin(cfg, rd, node, e, depth, seen):
    if depth > 40:
        return ("other", dump(e))
    if isinstance(e, ast.Constant):
        return ("const", e.value)
    if isinstance(e, ast.Name):
        defs = rd.get(node.id, {}).get(e.id)
        if not defs:
            return ("global", e.id)
        terms = []
        nd = _none_default(cfg, e.id, defs)
        if nd is not None:
            defs = nd
        for d in sorted(defs):
            key = (d, e.id)
            if key in seen:
                terms.append(("loop",))
                continue
            dn = cfg.nodes[d]
            s2 = seen | frozenset([key])
            if dn.kind == "entry":
                terms.append(("param", e.id))
            elif dn.kind == "stmt" and isinstance(dn.ast, ast.Assign):
                vt = _origin(cfg, rd, dn, dn.ast.value, depth + 1, s2)
                t = None
                for tg in dn.ast.targets:
                    t = _target_term(tg, e.id, vt)
                    if t is not None:
                        break
                terms.append(t if t is not None else ("other", dump(dn.ast)))
            elif dn.kind == "stmt" and isinstance(dn.ast, ast.AugAssign):
                terms.append(("aug", dn.ast.op.__class__.__name__,
                              _origin(cfg, rd, dn, ast.Name(id=e.id, ctx=ast.Load()), depth + 1, s2),
                              _origin(cfg, rd, dn, dn.ast.value, depth + 1, s2)))
            elif dn.kind == "stmt" and isinstance(dn.ast, ast.AnnAssign) and dn.ast.value is not None:
                terms.append(_origin(cfg, rd, dn, dn.ast.value, depth + 1, s2))
            elif dn.kind == "for_body":
                it = ("elem", _origin(cfg, rd, dn, dn.ast.iter, depth + 1, s2))
                t = _target_term(dn.ast.target, e.id, it)
                terms.append(t if t is not None else ("other", dump(dn.ast.target)))
            elif dn.kind == "with_enter":
                terms.append(("with", _origin(cfg, rd, dn, dn.ast.context_expr, depth + 1, s2)))
            elif dn.kind == "handler":
                terms.append(("exc", dump(dn.ast.type) if dn.ast.type else ""))
            else:
                terms.append(("global", e.id))
        return _phi(terms)
    if isinstance(e, ast.Attribute):
        return ("attr", _origin(cfg, rd, node, e.value, depth + 1, seen), e.attr)
    if isinstance(e, ast.Subscript):
        return ("item", _origin(cfg, rd, node, e.value, depth + 1, seen),
                _origin(cfg, rd, node, e.slice, depth + 1, seen))
    if isinstance(e, ast.Call):
        ident = getattr(cfg.fi, "identity_callees", None)
        if ident and isinstance(e.func, ast.Name) and e.func.id in ident and not rd.get(node.id, {}).get(e.func.id):
            i = ident[e.func.id]
            if i < len(e.args) and not any(isinstance(a, ast.Starred) for a in e.args[:i + 1]):
                return _origin(cfg, rd, node, e.args[i], depth + 1, seen)     # f(x) is x when f returns its argument
        if isinstance(e.func, ast.Name) and e.func.id == "iter" and len(e.args) == 1 and not e.keywords and not isinstance(e.args[0], ast.Starred) \
                and not rd.get(node.id, {}).get("iter"):
            return _origin(cfg, rd, node, e.args[0], depth + 1, seen)      # iter(x) yields the elements of x
        return ("call", _origin(cfg, rd, node, e.func, depth + 1, seen),
                tuple(_origin(cfg, rd, node, a, depth + 1, seen) for a in e.args),
                tuple((k.arg, _origin(cfg, rd, node, k.value, depth + 1, seen)) for k in e.keywords))
    if isinstance(e, ast.BoolOp):
        return ("or" if isinstance(e.op, ast.Or) else "and",
                tuple(_origin(cfg, rd, node, v, depth + 1, seen) for v in e.values))
    if isinstance(e, ast.UnaryOp) and isinstance(e.op, ast.USub) and isinstance(e.operand, ast.Constant) and isinstance(e.operand.value, (int, float)):
        return ("const", -e.operand.value)
    if isinstance(e, ast.JoinedStr):
        return ("call", ("global", "<f-string>"),
                tuple(_origin(cfg, rd, node, v.value, depth + 1, seen) for v in e.values if isinstance(v, ast.FormattedValue)), ())
    if isinstance(e, ast.BinOp):
        return ("binop", type(e.op).__name__, _origin(cfg, rd, node, e.left, depth + 1, seen),
                _origin(cfg, rd, node, e.right, depth + 1, seen))
    if isinstance(e, ast.IfExp):
        return _phi([_origin(cfg, rd, node, e.body, depth + 1, seen),
                     _origin(cfg, rd, node, e.orelse, depth + 1, seen)])
    if isinstance(e, (ast.Tuple, ast.List)):
        return ("tuple", tuple(_origin(cfg, rd, node, v, depth + 1, seen) for v in e.elts))
    if isinstance(e, ast.Starred):
        return ("star", _origin(cfg, rd, node, e.value, depth + 1, seen))
    return ("other", dump(e))


def alts(term):
    """Alternatives of a term (phi flattened at top level)."""
    if term[0] == "phi":
        out = set()
        for t in term[1]:
            out |= alts(t)
        return out
    return set([term])


def value_alts(term):
    """Values a term can denote: phi, `a or b` and `a and b` flattened (each operand may be the result)."""
    if term[0] in ("phi", "or", "and"):
        out = set()
        for t in term[1]:
            out |= value_alts(t)
        return out
    return set([term])


def show(t):
    k = t[0]
    if k == "param":
        return "Param(%s)" % t[1]
    if k == "const":
        return repr(t[1])
    if k == "global":
        return t[1]
    if k == "attr":
        return "%s.%s" % (show(t[1]), t[2])
    if k == "item":
        return "%s[%s]" % (show(t[1]), show(t[2]))
    if k == "call":
        args = [show(a) for a in t[2]] + ["%s=%s" % (n, show(v)) for (n, v) in t[3]]
        return "%s(%s)" % (show(t[1]), ", ".join(args))
    if k == "elem":
        return "Elem(%s)" % show(t[1])
    if k == "unpack":
        return "Unpack(%s,%d)" % (show(t[1]), t[2])
    if k in ("or", "and"):
        return "(" + (" %s " % k).join(show(x) for x in t[1]) + ")"
    if k == "phi":
        return "Phi{" + " | ".join(sorted(show(x) for x in t[1])) + "}"
    if k == "tuple":
        return "(" + ", ".join(show(x) for x in t[1]) + ")"
    if k == "star":
        return "*" + show(t[1])
    if k == "with":
        return "With(%s)" % show(t[1])
    if k == "exc":
        return "Exc(%s)" % t[1]
    if k == "aug":
        return "Aug(%s,%s)" % (show(t[2]), show(t[3]))
    if k == "binop":
        return "(%s %s %s)" % (show(t[2]), t[1], show(t[3]))
    if k == "other":
        return "<%s>" % t[1]
    return str(t)


def is_get(term, base_pred, key, defaults=(None,)):
    """base.get(key[, default]) with default in `defaults` (or absent)."""
    if term[0] != "call" or term[3]:
        return False
    f = term[1]
    if f[0] != "attr" or f[2] != "get" or not base_pred(f[1]):
        return False
    args = term[2]
    if len(args) == 1:
        return args[0] == ("const", key)
    if len(args) == 2:
        if args[0] == ("const", key) and key == "params" and (args[1] == ("tuple", ()) or (args[1][0] == "other" and args[1][1] in ("[]", "()", "{}"))):
            return True      # absent parameters default to an empty container: the same call
        return args[0] == ("const", key) and args[1][0] == "const" and args[1][1] in defaults
    return False


def is_item(term, base_pred, key):
    return term[0] == "item" and base_pred(term[1]) and term[2] == ("const", key)


def member_of(term, base_pred, key):
    """term denotes base[key] or base.get(key[, None])."""
    return is_item(term, base_pred, key) or is_get(term, base_pred, key)


def subterms(t):
    """All sub-terms of a term (proper terms only, not argument tuples)."""
    yield t
    k = t[0]
    if k in ("attr", "elem", "with", "star"):
        for x in subterms(t[1]):
            yield x
    elif k == "unpack":
        for x in subterms(t[1]):
            yield x
    elif k == "item":
        for x in subterms(t[1]):
            yield x
        for x in subterms(t[2]):
            yield x
    elif k == "call":
        for x in subterms(t[1]):
            yield x
        for a in t[2]:
            for x in subterms(a):
                yield x
        for (_n, a) in t[3]:
            for x in subterms(a):
                yield x
    elif k in ("or", "and", "tuple"):
        for a in t[1]:
            for x in subterms(a):
                yield x
    elif k == "phi":
        for a in t[1]:
            for x in subterms(a):
                yield x
    elif k in ("aug", "binop"):
        for x in subterms(t[2]):
            yield x
        for x in subterms(t[3]):
            yield x


def contains(t, pred):
    return any(pred(x) for x in subterms(t))
