"""C20 Serialisation customisation is honoured at every depth."""
import ast
from vlib.model import AnalysisError, dump, kwarg, call_name
from vlib.cfg import cfg_of, node_calls, node_exprs
from vlib.flow import dominators
from vlib import prov, q, spec
from rules import common

META = {
    "explanation": (
        "Decides: C20.1 in jsonclass.dump the handler lookup config.serialize_handlers[type(obj)] (exact type as key) "
        "dominates the primitive test and every other type test, and a non-None handler's result is returned verbatim; "
        "C20.2 every recursive dump call forwards (serialize_method, ignore_attribute, ignore, config), each with the "
        "provenance of the function's own normalised parameter; C20.3 the ignore list is getattr(obj, ignore_attribute, "
        "[]) + ignore (both sources, concatenated) and fields.difference_update(ignore_list) dominates the field loop; "
        "C20.4 the serialisation-method and ignore-attribute names default from the configuration (`x or config.x`), are "
        "looked up with hasattr/getattr on that variable, and the literals '_serialize' / '_ignore' occur only as "
        "defaults in config.py; C20.5 the recursive dump of a field is guarded by isinstance(value, known_types) where "
        "known_types = SUPPORTED_TYPES + tuple(config.serialize_handlers) computed from the live handler table in the "
        "same call; C20.6 Config.copy(), used for every 1.0 request on a 2.0 server, carries serialize_method, "
        "ignore_attribute and the handlers; C20.7 every constructor receiving a config hands that very object to the package "
        "constructors it calls (a server or transport never falls back to the DEFAULT handlers / method names). C20.8 (imported from C07.7 / C15.3) long-lived servers and proxies keep the caller's Config object itself, so handlers and names configured after construction are the ones consulted; the folded type tables equal the spec, so a field of an unsupported type (complex, ...) is omitted rather than emitted raw."),
    "does_not_decide": "the dumped values themselves.",
    "rules": {"C20.8": "imported C07.7 (config object provenance), C15.3 (type tables)",
              "C20.1": "dominance + provenance", "C20.2": "provenance at recursive call sites", "C20.3": "provenance term shape + dominance",
              "C20.4": "provenance + package-wide literal scan", "C20.5": "dominating guard + provenance", "C20.6": "sibling agreement (shared with C13.2)",
              "C20.7": "provenance of the config argument at constructor-to-constructor call sites"},
    "assumptions": [],
}

NORM = ("serialize_method", "ignore_attribute", "ignore", "config")


def check(ck):
    prog = ck.prog
    fd = prog.func("jsonclass", "dump")
    g = cfg_of(fd)
    dom = dominators(g)
    where = q.fn(fd)
    # ---- C20.1 handler first -------------------------------------------------------------------------
    look = []
    for n in g.live_nodes():
        for e in node_exprs(n):
            for sub in ast.walk(e):
                if isinstance(sub, ast.Subscript) and isinstance(sub.ctx, ast.Load):
                    t = prov.origin(g, n, sub.value)
                    if t == ("attr", ("param", "config"), "serialize_handlers"):
                        look.append((n, sub))
                if isinstance(sub, ast.Call) and call_name(sub) == "get" and isinstance(sub.func, ast.Attribute):
                    t = prov.origin(g, n, sub.func.value)
                    if t == ("attr", ("param", "config"), "serialize_handlers"):
                        look.append((n, sub))
    if len(look) != 1:
        raise AnalysisError("anchor vanished: the serialize_handlers lookup in jsonclass.dump (found %d)" % len(look))
    ln, le = look[0]
    key = le.slice if isinstance(le, ast.Subscript) else (le.args[0] if le.args else None)
    ck.require(key is not None and dump(key) == "type(obj)", "C20.1", "%s: handler lookup key" % where, "type(obj)",
               "handlers are looked up with key `%s`, not the exact type of the object" % (dump(key) if key is not None else None), q.loc(fd, ln))
    type_tests = [n for n in g.live_nodes() if n.kind == "test" and isinstance(n.ast, ast.Call) and dump(n.ast.func) == "isinstance"
                  and dump(n.ast.args[0]) == "obj"]
    if len(type_tests) < 3:
        raise AnalysisError("anchor vanished: the isinstance(obj, ...) tests of jsonclass.dump")
    for tn in type_tests:
        ck.require(ln.id in dom[tn.id], "C20.1", "%s: lookup before `%s`" % (where, dump(tn.ast)), "handler lookup dominates the built-in handling",
                   "`%s` is decided before the handler table is consulted: a registered handler for that type is ignored" % dump(tn.ast), q.loc(fd, tn))
    hvars = [n.ast.targets[0].id for n in [ln] if isinstance(n.ast, ast.Assign) and isinstance(n.ast.targets[0], ast.Name)]
    hv = hvars[0] if hvars else None
    hret = [rn for rn in g.live_nodes() if rn.kind == "return" and rn.ast is not None and isinstance(rn.ast.value, ast.Call)
            and isinstance(rn.ast.value.func, ast.Name) and rn.ast.value.func.id == hv]
    ck.require(len(hret) == 1, "C20.1", "%s: handler result returned verbatim" % where, "`return %s(...)`" % hv,
               "the handler's return value is not returned as it is", q.loc(fd, ln))
    for rn in hret:
        c = rn.ast.value
        okk = len(c.args) == 5 and dump(c.args[0]) == "obj" and [dump(a) for a in c.args[1:]] == list(NORM)
        ck.require(okk, "C20.1", "%s: handler arguments" % where, "(obj, serialize_method, ignore_attribute, ignore, config)",
                   "the handler is called as `%s`" % dump(c)[:80], q.loc(fd, rn))
        gd_ = [g.nodes[d] for d in dom[rn.id] if g.nodes[d].kind == "branch" and hv in dump(g.nodes[d].test)]
        ck.require(all(dump(b.test) in ("%s is not None" % hv, "%s is None" % hv) for b in gd_), "C20.1",
                   "%s: handler used whenever registered" % where, "only an identity test with None guards the handler",
                   "the handler is used only under %s: a registered handler that is not None but false (a callable object with "
                   "__len__ / __bool__, e.g. an empty callable registry) is skipped and the built-in handling takes over"
                   % [dump(b.test) for b in gd_], q.loc(fd, rn))

    # ---- C20.2 forwarding -------------------------------------------------------------------------------
    rec = q.call_sites(prog, fd, lambda r, c: q.is_func(r, "jsonclass.dump"))
    for (n, c) in rec:
        for i, name in enumerate(NORM):
            e = kwarg(c, name, i + 1)
            t = prov.origin(g, n, e) if e is not None else None
            if name == "config":
                okk = t == ("param", "config")
            else:
                okk = t is not None and t[0] == "or" and t[1][0] == ("param", name)
                if not okk and t is not None:
                    # the parameter normalised another way (a helper turning None / a single name / any iterable into a list): every
                    # alternative is built from the function's own parameter only, and at least one carries it
                    def _own(a_):
                        if a_ == ("param", name) or a_ in (("tuple", ()), ("other", "[]"), ("const", None)):
                            return True
                        if a_[0] == "or":
                            return all(_own(x) for x in a_[1])
                        if a_[0] == "call" and a_[1][0] == "global" and a_[1][1] in ("list", "tuple", "sorted", "set", "frozenset"):
                            return all(_own(x) for x in a_[2])
                        if a_[0] == "tuple":
                            return all(_own(x) for x in a_[1])
                        if a_[0] == "other":
                            return a_[1] in ("[%s]" % name, "(%s,)" % name)
                        return False
                    alts_ = prov.value_alts(t)
                    okk = all(_own(a_) for a_ in alts_) and any(prov.contains(a_, lambda x: x == ("param", name)) or
                                                               (a_[0] == "other" and name in a_[1]) for a_ in alts_)
            ck.require(okk, "C20.2", "%s: recursive `%s` forwards %s" % (where, dump(c)[:40], name), "own normalised %s" % name,
                       "a nested value is dumped with %s as `%s`: the caller's customisation is not honoured below this level"
                       % (prov.show(t) if t else "the default", name), q.loc(fd, n))
    # the ignore argument is only read: extending it in place (`ignore += ...`, `.extend`, through an alias too) changes what the
    # recursive calls of this very dump - and the caller's later dumps - leave out
    from rules import common as _cm20
    for (n, desc, recv) in _cm20.mutations(fd):
        t = prov.origin(g, n, recv)
        if any(prov.contains(a_, lambda x: x == ("param", "ignore")) and a_[0] in ("param", "or") for a_ in prov.value_alts(t)) or \
                any(a_ == ("param", "ignore") for a_ in prov.value_alts(t)):
            ck.bad("C20.2", "%s: %s" % (where, desc), "the list given as `ignore` (or its normalised form, which is the same object) is modified in "
                   "place: names of one object's own ignore list leak into the dumps of nested and later objects, whose fields of that name "
                   "are then dropped", q.loc(fd, n))
    ck.floor("C20.2", 12)

    # ---- C20.3 ignore filtering ----------------------------------------------------------------------------
    il = [n for n in g.live_nodes() if n.kind == "stmt" and isinstance(n.ast, ast.Assign) and isinstance(n.ast.targets[0], ast.Name)
          and "getattr" in dump(n.ast.value) and "ignore" in dump(n.ast.value)]
    # the list actually used as filter: the argument of fields.difference_update(...); when it is not the variable bound by that
    # one assignment, the list is assembled in several steps (normalising helper, .extend(ignore), +=)
    du0 = [(n, c) for n in g.live_nodes() for c in node_calls(n) if call_name(c) == "difference_update" and len(c.args) == 1]
    if len(il) == 1 and len(du0) == 1 and isinstance(du0[0][1].args[0], ast.Name) and du0[0][1].args[0].id != il[0].ast.targets[0].id:
        xv = du0[0][1].args[0].id
        contrib = [prov.origin(g, du0[0][0], du0[0][1].args[0])]
        for n_ in g.live_nodes():
            for c_ in node_calls(n_):
                if isinstance(c_.func, ast.Attribute) and dump(c_.func.value) == xv and c_.func.attr in ("extend", "append", "update", "insert") and c_.args:
                    contrib.append(prov.origin(g, n_, c_.args[-1]))
            if n_.kind == "stmt" and isinstance(n_.ast, ast.AugAssign) and dump(n_.ast.target) == xv:
                contrib.append(prov.origin(g, n_, n_.ast.value))
        has_own = any(prov.contains(c_, lambda x: x[0] == "call" and x[1] == ("global", "getattr") and len(x[2]) >= 2 and x[2][0] == ("param", "obj") and
                                    prov.contains(x[2][1], lambda y: y == ("param", "ignore_attribute"))) for c_ in contrib)
        has_arg = any(prov.contains(c_, lambda x: x == ("param", "ignore")) for c_ in contrib)
        if has_own and has_arg:
            raise AnalysisError("the ignore list of jsonclass.dump (`%s`) is assembled in several steps from both sources: not modelled" % xv)
        ck.bad("C20.3", "%s: filter list `%s`" % (where, xv),
               "the list removed from the field set is built from %s only: it must combine the object's own list (attribute named by "
               "ignore_attribute) AND the ignore argument" % ("the object's own list" if has_own else "the ignore argument" if has_arg else "neither source"),
               q.loc(fd, du0[0][0]))
        raise AnalysisError("the ignore list of jsonclass.dump (`%s`) has an unknown construction" % xv)
    if len(il) != 1:
        raise AnalysisError("anchor vanished: the ignore-list assignment in jsonclass.dump (found %d)" % len(il))
    iln = il[0]
    ilv = iln.ast.targets[0].id
    t = prov.origin(g, iln, iln.ast.value)

    def is_getattr(x):
        return x[0] == "call" and x[1] == ("global", "getattr") and len(x[2]) == 3 and x[2][0] == ("param", "obj") and \
            x[2][1][0] == "or" and x[2][1][1][0] == ("param", "ignore_attribute") and x[2][2] in (("tuple", ()), ("other", "[]"))

    def is_ignore(x):
        return x[0] == "or" and x[1][0] == ("param", "ignore")
    okk = t[0] == "binop" and t[1] == "Add" and ((is_getattr(t[2]) and is_ignore(t[3])) or (is_getattr(t[3]) and is_ignore(t[2])))
    ck.require(okk, "C20.3", "%s: %s = %s" % (where, ilv, dump(iln.ast.value)[:60]), "getattr(obj, ignore_attribute, []) + ignore",
               "the ignore list is %s: it must combine the object's own list (attribute named by ignore_attribute) AND the ignore "
               "argument" % prov.show(t)[:110], q.loc(fd, iln))
    du = [(n, c) for n in g.live_nodes() for c in node_calls(n) if call_name(c) == "difference_update"]
    def _is_field_set(n_, e_):
        t_ = prov.origin(g, n_, e_)
        return all(a_[0] == "call" and a_[1] == ("global", "_find_fields") for a_ in prov.value_alts(t_))
    def _unwrap_iter(e_):
        # sorted(X) / list(X) / tuple(X) / iter(X): the same names in another order
        while isinstance(e_, ast.Call) and isinstance(e_.func, ast.Name) and e_.func.id in ("sorted", "list", "tuple", "iter", "reversed") and \
                len(e_.args) == 1 and not e_.keywords:
            e_ = e_.args[0]
        return e_
    loops = [n for n in g.live_nodes() if n.kind == "for_body" and (dump(_unwrap_iter(n.ast.iter)) == "fields" or _is_field_set(n, _unwrap_iter(n.ast.iter)))]
    # the same filter written as a comprehension: X = [f for f in _find_fields(obj) if f not in <ignore list>], then `for .. in X`
    comp = []
    for n in g.live_nodes():
        if n.kind == "stmt" and isinstance(n.ast, ast.Assign) and len(n.ast.targets) == 1 and isinstance(n.ast.targets[0], ast.Name):
            v_ = n.ast.value
            if isinstance(v_, ast.Call) and isinstance(v_.func, ast.Name) and v_.func.id in ("list", "set", "sorted", "tuple") and len(v_.args) == 1 and not v_.keywords:
                v_ = v_.args[0]
            if isinstance(v_, (ast.ListComp, ast.SetComp, ast.GeneratorExp)) and len(v_.generators) == 1:
                ge_ = v_.generators[0]
                if isinstance(ge_.target, ast.Name) and isinstance(v_.elt, ast.Name) and v_.elt.id == ge_.target.id and len(ge_.ifs) == 1 and \
                        isinstance(ge_.ifs[0], ast.Compare) and len(ge_.ifs[0].ops) == 1 and isinstance(ge_.ifs[0].ops[0], ast.NotIn) and \
                        dump(ge_.ifs[0].left) == ge_.target.id and \
                        (dump(ge_.ifs[0].comparators[0]) == ilv or prov.origin(g, n, ge_.ifs[0].comparators[0]) == t) and \
                        (q.is_func(prog.resolve_call(fd, ge_.iter), "jsonclass._find_fields") if isinstance(ge_.iter, ast.Call) else _is_field_set(n, ge_.iter)):
                    comp.append(n)
    if not du and len(comp) == 1:
        cn_ = comp[0]
        cv_ = cn_.ast.targets[0].id
        loops_c = [n for n in g.live_nodes() if n.kind == "for_body" and dump(n.ast.iter) == cv_ and
                   prov.rd_of(g).get(n.id, {}).get(cv_) == frozenset([cn_.id]) or
                   (n.kind == "for_body" and dump(n.ast.iter) == cv_ and set(prov.rd_of(g).get(n.id, {}).get(cv_) or ()) == set([cn_.id]))]
        ck.require(len(loops_c) == 1, "C20.3", "%s: fields.difference_update(%s) before the field loop" % (where, ilv), "the field loop walks the filtered list",
                   "ignored names are not removed from the field set before the fields are dumped", q.loc(fd, iln))
        ck.ok("C20.3", "%s: fields = _find_fields(obj)" % where, "the comprehension filters the field set itself", q.loc(fd, cn_))
        du = None
    okk = du is None or (len(du) == 1 and len(loops) == 1 and du[0][0].id in dom[loops[0].id] and \
        (dump(du[0][1].func.value) == "fields" or _is_field_set(du[0][0], du[0][1].func.value)) and \
        len(du[0][1].args) == 1 and (dump(du[0][1].args[0]) == ilv or prov.origin(g, du[0][0], du[0][1].args[0]) == t))
    if du is not None:
        ck.require(okk, "C20.3", "%s: fields.difference_update(%s) before the field loop" % (where, ilv), "dominates the loop",
                   "ignored names are not removed from the field set before the fields are dumped", q.loc(fd, iln))
    if "jsonclass._find_fields" not in prog.funcs:
        raise AnalysisError("anchor vanished: function jsonrpclib.jsonclass._find_fields (moved or renamed)")
    ff = q.call_sites(prog, fd, lambda r, c: q.is_func(r, "jsonclass._find_fields"))
    if du is not None:
      ck.require(len(ff) == 1 and ff[0][0].id in dom[du[0][0].id] if du else False, "C20.3", "%s: fields = _find_fields(obj)" % where, "filtered set is the field set",
               "the filtered set is not the object's field set", q.loc(fd, fd.node))

    # ---- C20.4 configured names ------------------------------------------------------------------------------
    for name in ("serialize_method", "ignore_attribute"):
        norm = [n for n in g.live_nodes() if n.kind == "stmt" and isinstance(n.ast, ast.Assign) and dump(n.ast.targets[0]) == name]
        okk = len(norm) == 1 and prov.origin(g, norm[0], norm[0].ast.value) == ("or", (("param", name), ("attr", ("param", "config"), name)))
        ck.require(okk, "C20.4", "%s: %s = %s or config.%s" % (where, name, name, name), "defaults from the configuration",
                   "`%s` does not default to config.%s" % (name, name), q.loc(fd, norm[0]) if norm else q.loc(fd, fd.node))
    uses = []
    for n in g.live_nodes():
        for c in node_calls(n):
            if isinstance(c.func, ast.Name) and c.func.id in ("hasattr", "getattr") and len(c.args) >= 2 and dump(c.args[0]) == "obj":
                uses.append((n, c))
            elif isinstance(c.func, ast.Name) and c.func.id in ("hasattr", "getattr") and len(c.args) >= 2 and \
                    dump(c.args[1]) in ("serialize_method", "ignore_attribute") and dump(c.args[0]) != "obj":
                ck.bad("C20.4", "%s: `%s`" % (where, dump(c)[:50]),
                       "the configured name `%s` is looked up on `%s` instead of the object being dumped: a serialisation method / ignore list the "
                       "object itself provides (an instance attribute, a delegating __getattr__) is not consulted" % (dump(c.args[1]), dump(c.args[0])[:30]),
                       q.loc(fd, n))
    def _kind(n_, e_):
        """what the attribute name is: one of the two configured names, or a member of the object's field set"""
        t_ = prov.origin(g, n_, e_)
        if dump(e_) in ("serialize_method", "ignore_attribute"):
            return dump(e_)
        if all(a_[0] == "elem" and all(b_[0] == "call" and b_[1] == ("global", "_find_fields") for b_ in prov.value_alts(a_[1])) for a_ in prov.value_alts(t_)):
            return "attr_name"
        return dump(e_)
    names_used = sorted(set(_kind(n_, c.args[1]) for (n_, c) in uses))
    ck.require(names_used == ["attr_name", "ignore_attribute", "serialize_method"], "C20.4", "%s: attribute names consulted on obj" % where,
               "serialize_method / ignore_attribute variables (and field names)",
               "dump consults the object with names %s: the configured names must be used" % names_used, q.loc(fd, fd.node))
    lits = []
    for fi in prog.funcs.values():
        for sub in ast.walk(fi.node):
            if isinstance(sub, ast.Constant) and sub.value in ("_serialize", "_ignore"):
                in_default = fi.fq == "config.Config.__init__" and any(sub is d for d in fi.node.args.defaults)
                if not in_default:
                    lits.append((fi, sub))
    for (fi, sub) in lits:
        ck.bad("C20.4", "%s: literal %r" % (q.fn(fi), sub.value), "the name %r is hard-coded outside the Config defaults: a configured "
               "serialize_method / ignore_attribute is bypassed" % sub.value, q.loc(fi, sub))
    ck.ok("C20.4", "package-wide literal scan", "'_serialize' / '_ignore' only as Config defaults", "")

    # ---- C20.5 unsupported fields omitted ------------------------------------------------------------------------
    kt = [n for n in g.live_nodes() if n.kind == "stmt" and isinstance(n.ast, ast.Assign) and dump(n.ast.targets[0]) == "known_types"]
    if len(kt) != 1:
        raise AnalysisError("anchor vanished: known_types in jsonclass.dump")
    t = prov.origin(g, kt[0], kt[0].ast.value)
    okk = t[0] == "binop" and t[1] == "Add" and t[2] == ("global", "SUPPORTED_TYPES") and t[3][0] == "call" and t[3][1] == ("global", "tuple") \
        and t[3][2] == (("attr", ("param", "config"), "serialize_handlers"),)
    ck.require(okk, "C20.5", "%s: known_types = %s" % (where, dump(kt[0].ast.value)), "SUPPORTED_TYPES + tuple(config.serialize_handlers)",
               "known_types is %s: it must be the supported types plus the types of the live handler table of this call "
               "(a cached or partial table makes handled field values disappear)" % prov.show(t)[:100], q.loc(fd, kt[0]))
    field_rec = [(n, c) for (n, c) in rec if loops and loops[0].id in dom[n.id]]
    ck.require(len(field_rec) == 1, "C20.5", "%s: recursive dump of a field value" % where, "one call in the field loop",
               "field values are not dumped recursively in the field loop", q.loc(fd, fd.node))
    for (n, c) in field_rec:
        guards = [g.nodes[d] for d in dom[n.id] if g.nodes[d].kind == "branch" and g.nodes[d].polarity and
                  isinstance(g.nodes[d].test, ast.Call) and dump(g.nodes[d].test.func) == "isinstance" and
                  dump(g.nodes[d].test.args[1]) == "known_types" and dump(g.nodes[d].test.args[0]) == dump(c.args[0])]
        ck.require(bool(guards), "C20.5", "%s: field dump guarded by isinstance(value, known_types)" % where, "guarded",
                   "a field of an unsupported, unhandled type is dumped anyway (or supported ones are skipped): no "
                   "isinstance(%s, known_types) guard dominates the recursive dump" % dump(c.args[0]), q.loc(fd, n))
        tv = prov.origin(g, n, c.args[0])
        okv = tv[0] == "call" and tv[1] == ("global", "getattr") and tv[2][0] == ("param", "obj")
        ck.require(okv, "C20.5", "%s: field value = getattr(obj, name)" % where, "value read from the object",
                   "the dumped field value is %s" % prov.show(tv)[:60], q.loc(fd, n))

    # a value of an unsupported type is only looked at by the type test: every other use of the field value (recursive dump,
    # membership test, formatting for a log line) is on the true edge of isinstance(value, known_types).  Evaluating it
    # elsewhere runs the object's own __repr__ / __eq__ / __str__, which can raise: the field is then not omitted, dump fails.
    for (n, c) in field_rec:
        if not isinstance(c.args[0], ast.Name):
            continue
        vname = c.args[0].id
        n_use = 0
        for m in g.live_nodes():
            uses = [x for e in node_exprs(m) for x in ast.walk(e) if isinstance(x, ast.Name) and x.id == vname and isinstance(x.ctx, ast.Load)]
            if not uses or not (loops and loops[0].id in dom[m.id]):
                continue
            is_type_test = m.kind in ("test", "branch") and any(isinstance(e, ast.Call) and dump(e.func) == "isinstance" and e.args and dump(e.args[0]) == vname
                                                                for e in node_exprs(m))
            if is_type_test:
                continue
            # an identity test (`value is <sentinel>`) runs no code of the value
            ident = [x for e in node_exprs(m) for cmp_ in ast.walk(e) if isinstance(cmp_, ast.Compare) and all(isinstance(o, (ast.Is, ast.IsNot)) for o in cmp_.ops)
                     for x in [cmp_.left] + list(cmp_.comparators) if isinstance(x, ast.Name) and x.id == vname]
            if m.kind in ("test", "branch") and len(ident) == len(uses):
                continue
            from vlib.model import is_logging_call
            lazy = [x for cc in node_calls(m) if is_logging_call(cc) for x in cc.args if isinstance(x, ast.Name) and x.id == vname]
            if len(lazy) == len(uses):
                continue        # handed to the logger as a lazy argument: formatted (and any failure swallowed) by logging
            n_use += 1
            guarded = any(g.nodes[d].kind == "branch" and g.nodes[d].polarity and isinstance(g.nodes[d].test, ast.Call) and
                          dump(g.nodes[d].test.func) == "isinstance" and dump(g.nodes[d].test.args[0]) == vname for d in dom[m.id])
            ck.require(guarded, "C20.5", "%s: use of the field value in `%s`" % (where, q.stmt_text(m)[:40]), "only after the type test succeeded",
                       "`%s` evaluates a field value whose type was not (or not successfully) tested: for a value of an unsupported type this "
                       "runs the object's own __repr__ / __str__ / __eq__, and if that raises the field is not omitted - the whole dump fails"
                       % q.stmt_text(m)[:70], q.loc(fd, m))

    # ---- C20.6 per-request copy keeps the customisation -----------------------------------------------------------
    common.check_config_copy(ck, "C20.6", only=("serialize_method", "ignore_attribute", "serialize_handlers", "use_jsonclass", "classes"))

    # ---- C20.7 the caller's Config reaches every layer -----------------------------------------------------------------
    common.check_config_forwarding(ck, "C20.7")
    ck.floor("C20.7", 6)
    common.check_config_defaults(ck, "C20.7", ("serialize_method", "ignore_attribute", "serialize_handlers"))

    # ---- C20.8 configuration object and type tables (shared with C07.7 / C15.3) ------------------------------------------------
    from rules import c07 as _c07k, c15 as _c15k
    common.import_rules(ck, _c07k.rule_c07_7, {"C07.7": "C20.8"})
    common.import_rules(ck, _c15k.rule_c15_3, {"C15.3": "C20.8"})
    from rules import c07 as _c07m
    common.import_rules(ck, _c07m, {"C07.4": "C20.8"})      # (handlers apply to results and parameters of every type: the translation is not skipped by value)
    ck.floor("C20.8", 12)
