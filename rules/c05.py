"""C05 Failures get the standard error codes and rejected requests run nothing."""
import ast
from vlib.model import AnalysisError, dump, kwarg, call_name, FuncInfo
from vlib.cfg import cfg_of, node_calls, node_exprs
from vlib.flow import dominators, reachable_avoiding
from vlib import prov, q, shape, spec

META = {
    "explanation": (
        "Decides: C05.1 every Fault(...) site of the server module carries the code of its structurally identified "
        "failure class (handler of the try around loads -> -32700; validate_request and the empty-request branch -> "
        "-32600; the branch of _dispatch where no callable was found -> -32601; the `except TypeError` handler around "
        "the call -> -32602; every other handler around dispatch / conversion / marshaling / request handling -> "
        "-32603), codes are integer literals and messages string-typed expressions; C05.2 on a rejection nothing is "
        "dispatched: the parse-failure handler cannot reach _unmarshaled_dispatch, a Fault from validate_request "
        "leaves the iteration/function before _marshaled_single_dispatch, no looked-up value is called on the "
        "not-found path; C05.3 attribute lookups on the registered instance with a non-literal name go only through "
        "resolve_dotted_attribute(instance, name, True)-style calls (the stdlib function rejects '_' segments; "
        "re-derived from the stdlib source in the thorough tier); C05.4 the -32603 message is built from the caught "
        "exception (type name / formatted traceback and text); C05.5 the try whose TypeError handler yields -32602 "
        "must not enclose the execution of the callable's body; C05.6 validate_request, abstractly evaluated over "
        "a partition of request shapes, accepts exactly: version marker present, non-empty string method, params "
        "absent or list/dict/tuple; C05.8 (shared with C06.1 / C06.2 / C06.4) the client surfaces every error reply as a ProtocolError "
        "carrying the code: check_for_errors raises ProtocolError((code, message)) for an error object, every consumer of a reply "
        "checks it first, and _run_request returns None only for an empty reply body (an error answered to a notification is parsed too).; C05.9 (shared) the error envelope carries the error object in both protocol versions (imported C14.1), and a request with an id - 0 and 0.0 included - is not treated as a notification, so its failure is answered (imported C04.3) C05.10 (imported from C13.2) the per-request copy of the configuration (made for 1.0 requests on a 2.0 server) carries every field of the server's Config: the error reply of such a request is built from that copy, so a field the copy drops falls back to its default for exactly those requests. C05.11 (imported from C02.6 / C17.3) the error reply reaches the client as the ProtocolError it encodes: the backend emits ASCII only and decodes with json.loads itself, and both sides decode the joined bytes once (an error message echoing multi-byte text survives any chunking). C05.12 (imported from C14.4) loads() hands the body to the JSON parser as received (`load(jloads(data), config)`, the empty-body test apart): a body that is not a JSON text - e.g. one wrapped in characters Python's str.strip() removes but JSON does not allow - is a parse error, answered -32700."),
    "does_not_decide": "which texts the JSON backend rejects; exact message texts.",
    "rules": {"C05.12": "imported C14.4 (provenance of what the wrappers forward)",
              "C05.11": "imported C02.6 (backend options, loader), C17.3 (raw accumulation, one decode)",
              "C05.10": "imported C13.2 (Config.copy carries every field)",
              "C05.9": "imported C14.1, C04.3", 
        "C05.1": "site classification by handler / dominating branch; literal folding vs spec table A.1",
        "C05.2": "CFG reachability and dominance", "C05.3": "who-may-call on getattr with provenance of the receiver",
        "C05.4": "provenance terms of the message argument", "C05.5": "lexical enclosure of the call by the -32602 try",
        "C05.6": "abstract evaluation (shape interpreter) of validate_request over request shapes",
        "C05.7": "handler scan + frame of the invocation (helper inlining)",
        "C05.8": "imported C06.1 / C06.2 / C06.4",
    },
    "assumptions": ["xmlrpc.server.resolve_dotted_attribute raises AttributeError for any segment starting with '_' "
                    "(audited from the installed stdlib source in the thorough tier)"],
}

SRV = "SimpleJSONRPCServer"
DISP = "SimpleJSONRPCDispatcher"


def handler_of(fi, site_ast):
    """(try, handler) lexically enclosing site_ast, innermost first."""
    out = []
    for t in ast.walk(fi.node):
        if isinstance(t, ast.Try):
            for h in t.handlers:
                if any(sub is site_ast for st in h.body for sub in ast.walk(st)):
                    out.append((t, h))
    # innermost = the one with the largest lineno
    out.sort(key=lambda th: -th[1].lineno)
    return out


def _raw_helper_invocations(prog):
    """names of functions / methods of the server module (as written, before helper expansion) that _dispatch calls inside a
    try with a TypeError handler, handing them a value that they call: the registered callable then runs one frame deeper"""
    raw = ast.parse(prog.modules[SRV].text)
    funcs = {}
    disp = None
    for st in raw.body:
        if isinstance(st, ast.FunctionDef):
            funcs[st.name] = st
        elif isinstance(st, ast.ClassDef):
            for m in st.body:
                if isinstance(m, ast.FunctionDef):
                    funcs[m.name] = m
                    if st.name == DISP and m.name == "_dispatch":
                        disp = m
    out = []
    if disp is None:
        return out
    for t in ast.walk(disp):
        if not (isinstance(t, ast.Try) and any(h.type is not None and "TypeError" in dump(h.type) for h in t.handlers)):
            continue
        for c in [x for st_ in t.body for x in ast.walk(st_) if isinstance(x, ast.Call)]:
            nm = c.func.attr if isinstance(c.func, ast.Attribute) and isinstance(c.func.value, ast.Name) and c.func.value.id in ("self", DISP) \
                else (c.func.id if isinstance(c.func, ast.Name) else None)
            h = funcs.get(nm)
            if h is None or h is disp:
                continue
            params = [a.arg for a in h.args.args]
            if any(isinstance(x, ast.Call) and isinstance(x.func, ast.Name) and x.func.id in params for x in ast.walk(h)):
                out.append(nm)
    return out


def try_calls(prog, fi, t, pred):
    for st in t.body:
        for c in ast.walk(st):
            if isinstance(c, ast.Call) and pred(prog.resolve_call(fi, c), c):
                return True
    return False


def fold_code(prog, fi, e):
    try:
        v = prog.const(fi.module, e)
    except AnalysisError:
        return None
    return v if isinstance(v, int) and not isinstance(v, bool) else None


def is_string_expr(e):
    if isinstance(e, ast.Constant):
        return isinstance(e.value, str)
    if isinstance(e, ast.JoinedStr):
        return True
    if isinstance(e, ast.Call) and isinstance(e.func, ast.Attribute) and e.func.attr == "format" \
            and is_string_expr(e.func.value):
        return True
    if isinstance(e, ast.BinOp) and isinstance(e.op, (ast.Mod, ast.Add)) and is_string_expr(e.left):
        return True
    if isinstance(e, ast.Call) and dump(e.func) == "str":
        return True
    return False


def is_string_term(t):
    """provenance term of a string-typed expression (literal, .format on a literal, f-string, % / + on a string, str())"""
    if t is None:
        return False
    if t[0] == "const":
        return isinstance(t[1], str)
    if t[0] == "phi":
        return all(is_string_term(a) for a in t[1])
    if t[0] == "call":
        f = t[1]
        if f == ("global", "<f-string>") or f == ("global", "str"):
            return True
        if f[0] == "attr" and f[2] == "format" and is_string_term(f[1]):
            return True
        return False
    if t[0] == "binop" and t[1] in ("Mod", "Add"):
        return is_string_term(t[2])
    return False


def term_contains(t, pred):
    return prov.contains(t, pred)


def classify(prog, fi, g, dom, n, c):
    """-> (failure class, expected code)"""
    hs = handler_of(fi, c)
    name = fi.name
    is_loads = lambda r, cc: q.is_func(r, "jsonrpc.loads") or q.is_func(r, "jsonrpc.load")    # noqa: E731
    is_jd = lambda r, cc: isinstance(r, str) and r.endswith("jdumps")                             # noqa: E731
    if hs:
        t, h = hs[0]
        if try_calls(prog, fi, t, is_loads):
            return "parse/translation failure", spec.CODE_PARSE
        if try_calls(prog, fi, t, lambda r, cc: call_name(cc) in ("decode", "from_bytes")) and \
                not try_calls(prog, fi, t, lambda r, cc: call_name(cc) in ("_marshaled_dispatch", "_dispatch", "read", "decode_request_content")):
            # the request bytes are not text in the expected encoding: no JSON text exists - a parse error or an HTTP-level answer, as one likes
            return "request body cannot be decoded", "any"
        if name == "_dispatch":
            types = [dump(x) for x in (h.type.elts if isinstance(h.type, ast.Tuple) else [h.type])] if h.type else None
            if types == ["TypeError"]:
                return "argument mismatch", spec.CODE_PARAMS
            return "exception raised by the method", spec.CODE_INTERNAL
        if name == "do_POST" and h.type is not None:
            # a handler for connection failures only (socket.timeout, OSError, ...): nothing raised by a registered method reaches do_POST
            # (C05.3), and the dispatcher lets nothing escape (C02.1), so what such a handler catches comes from reading the request
            # off the connection - a request that was never received is in none of the property's failure classes
            from vlib import narrow as _nw
            _tn = [dump(x) for x in (h.type.elts if isinstance(h.type, ast.Tuple) else [h.type])]
            _io = {"socket.timeout": "TimeoutError", "socket.error": "OSError", "socket.herror": "OSError", "socket.gaierror": "OSError",
                   "IOError": "OSError", "EnvironmentError": "OSError"}
            if _tn and all(_nw.is_sub(_io.get(x, x), "OSError") for x in _tn):
                return "connection failure while the request is received", "any"
        if name == "do_POST" and not try_calls(prog, fi, t, lambda r, cc: call_name(cc) in ("read", "_marshaled_dispatch", "decode_request_content")):
            # a guard around the inspection of the HTTP request itself (headers), not around reading, decoding or dispatching the
            # body: no JSON-RPC failure class of the property applies to a request whose body was never looked at
            return "HTTP request rejected before its body is read", "any"
        return "exception around dispatch / conversion / request handling", spec.CODE_INTERNAL
    if fi.cls is not None and fi.cls.name == "SimpleJSONRPCRequestHandler" and name != "do_POST" and \
            not any(isinstance(x, ast.Call) and (call_name(x) in ("_marshaled_dispatch", "decode_request_content", "loads", "load") or
                                                 dump(x.func) == "self.rfile.read") for x in ast.walk(fi.node)):
        # an answer of the HTTP layer to a request it does not read (another verb, a refused header): no body, no failure class of the property
        return "HTTP request rejected before its body is read", "any"
    if name == "do_POST" and not hs:
        # a rejection decided on the HTTP request alone: no body read, decoding or dispatch can come before it or after it
        body_ops = [x.id for x in g.live_nodes() for cc in node_calls(x)
                    if call_name(cc) in ("_marshaled_dispatch", "decode_request_content") or dump(cc.func) == "self.rfile.read"]
        if body_ops and not any(n.id in reachable_from(g, b) for b in body_ops) and \
                not (set(body_ops) & reachable_avoiding(g, n.id, set(), lambda l: l != "exc")):
            return "HTTP request rejected before its body is read", "any"
    if name == "validate_request":
        return "structurally invalid request", spec.CODE_INVALID
    if name == "_unmarshaled_dispatch":
        for d in dom[n.id]:
            b = g.nodes[d]
            if b.kind == "branch" and b.polarity is False and dump(b.test) == fi.params[1]:
                return "empty request", spec.CODE_INVALID
    if name == "_dispatch":
        for d in dom[n.id]:
            b = g.nodes[d]
            if b.kind == "branch" and isinstance(b.test, ast.Compare) and (
                    (dump(b.test).endswith("is not None") and b.polarity is False) or
                    (dump(b.test).endswith("is None") and b.polarity is True)):
                return "no callable found", spec.CODE_NOT_FOUND
    return None, None


def reachable_from(g, start, stop=()):
    seen = set()
    stack = [start]
    while stack:
        x = stack.pop()
        if x in seen or x in stop:
            continue
        seen.add(x)
        stack += [b for (b, _l) in g.succ[x]]
    return seen


def check(ck):
    prog = ck.prog
    # ---- C05.1 ---------------------------------------------------------------
    from rules import common
    all_sites = common.fault_sites(prog)
    n_sites = 0
    per_fn = {}
    for site in all_sites:
        fi, n, c = site.fi, site.node, site.call
        g = cfg_of(fi)
        dom = dominators(g)
        n_sites += 1
        where = q.fn(fi)
        idx = per_fn.get(where, 0)
        per_fn[where] = idx + 1
        code_e = site.expr("code", 0)
        msg_e = site.expr("message", 1)
        code = site.code()
        if common.carried_by_exception(site):
            raise AnalysisError("the Fault of %s takes its code from the exception it handles (`%s`): error codes carried by exception "
                                "objects are not modelled" % (q.fn(fi), dump(site.expr("code", 0))))
        cls, expected = classify(prog, fi, g, dom, n, c)
        label = "%s: Fault #%d (%s)" % (where, idx, cls or "unclassified")
        if cls is None and common.is_new_function(fi):
            raise AnalysisError("%s builds a Fault (code %s) in a new helper method that was not expanded into its callers: the failure "
                                "class it answers is not modelled" % (where, code))
        if cls is None:
            ck.bad("C05.1", label, "Fault site whose failure class the spec table does not know "
                   "(code %s): cannot be matched with a standard code" % code, q.loc(fi, n))
            continue
        ck.require(code == expected or expected == "any", "C05.1", label, "code %s" % code,
                   "%s is reported with code %s, the standard code is %s" % (cls, dump(code_e) if code_e is not None else "default -32000", expected),
                   q.loc(fi, n))
        ck.require(code is not None and code < 0, "C05.1b", label, "integer literal code",
                   "error code is not a (negative) integer literal: %s" % (dump(code_e) if code_e is not None else "default"),
                   q.loc(fi, n))
        ck.require(msg_e is not None and (is_string_expr(msg_e) or is_string_term(site.origin("message", 1))), "C05.1b", label + " message", "string-typed message",
                   "error message is not a string-typed expression: %s" % (dump(msg_e) if msg_e is not None else "default"),
                   q.loc(fi, n))
    ck.stat("fault_sites", n_sites)
    ck.floor("C05.1", 12)

    # ---- C05.2 nothing runs on rejection -------------------------------------------
    fm = prog.func(SRV, DISP + "._marshaled_dispatch")
    gm = cfg_of(fm)
    um_calls = q.call_sites(prog, fm, lambda r, c: q.is_func(r, "%s.%s._unmarshaled_dispatch" % (SRV, DISP)))
    if not um_calls:
        raise AnalysisError("anchor vanished: call of _unmarshaled_dispatch in _marshaled_dispatch")
    parse_handlers = []
    for t in ast.walk(fm.node):
        if isinstance(t, ast.Try) and try_calls(prog, fm, t, lambda r, c: q.is_func(r, "jsonrpc.loads")):
            for h in gm.live_nodes():
                if h.kind == "handler" and h.ast in t.handlers:
                    parse_handlers.append((t, h))
    if not parse_handlers:
        raise AnalysisError("anchor vanished: handler of the try around loads in _marshaled_dispatch")
    for (t, h) in parse_handlers:
        reach = reachable_from(gm, h.id)
        bad = [n for (n, c) in um_calls if n.id in reach]
        ck.require(not bad, "C05.2", "%s: parse-failure handler" % q.fn(fm),
                   "handler cannot reach _unmarshaled_dispatch",
                   "after a parse failure control still reaches _unmarshaled_dispatch: a rejected payload is dispatched",
                   q.loc(fm, h))
        types = q.handler_types(h)
        ck.require(types is None or any(x in ("Exception", "BaseException") for x in types), "C05.2",
                   "%s: parse guard catches every exception" % q.fn(fm), "catch-all parse guard",
                   "the guard around loads only catches %s: other translator exceptions (IndexError, KeyError, "
                   "InvalidOperation ...) escape instead of being answered with -32700" % types, q.loc(fm, h))
    fu = prog.func(SRV, DISP + "._unmarshaled_dispatch")
    gu = cfg_of(fu)
    domu = dominators(gu)
    singles = q.call_sites(prog, fu, lambda r, c: q.is_func(r, "%s.%s._marshaled_single_dispatch" % (SRV, DISP)))
    if len(singles) < 2:
        raise AnalysisError("anchor vanished: _marshaled_single_dispatch calls in _unmarshaled_dispatch (found %d)" % len(singles))
    for (n, c) in singles:
        entry_t = prov.origin(gu, n, c.args[0]) if c.args else None
        guard = None
        for d in domu[n.id]:
            b = gu.nodes[d]
            if b.kind == "branch" and b.polarity is False and isinstance(b.test, ast.Call) \
                    and dump(b.test.func) == "isinstance" and len(b.test.args) == 2 \
                    and prog.typeset(fu.module, b.test.args[1]) == {"class:jsonrpc.Fault"}:
                vt = prov.origin(gu, b, b.test.args[0])
                if vt[0] == "call" and vt[1] == ("global", "validate_request") and vt[2] and vt[2][0] == entry_t:
                    guard = b
        ck.require(guard is not None, "C05.2", "%s: _marshaled_single_dispatch(%s)" % (q.fn(fu), dump(c.args[0]) if c.args else ""),
                   "dispatch is dominated by `not isinstance(validate_request(entry), Fault)`",
                   "the entry is dispatched without being guarded by the non-Fault outcome of validate_request on "
                   "the same entry: an invalid request can run a method", q.loc(fu, n))
    fd = prog.func(SRV, DISP + "._dispatch")
    gd = cfg_of(fd)
    domd = dominators(gd)
    # the looked-up callable(s): locals assigned from self.funcs[...] / resolve_dotted_attribute(...)
    from rules import common as _common
    invs = _common.callable_invocations(prog)
    func_calls = [(n, c, None) for (n, c, helper, hc) in invs]
    if len(func_calls) < 2:
        raise AnalysisError("anchor vanished: calls of the looked-up callable in _dispatch (found %d)" % len(func_calls))
    for (n, c, t) in func_calls:
        okk = False
        for d in domd[n.id]:
            b = gd.nodes[d]
            if b.kind == "branch" and b.polarity is True and dump(b.test).endswith(" is not None") and dump(b.test)[:-12] in dump(c):
                okk = True
            if b.kind == "branch" and b.polarity is False and dump(b.test).endswith(" is None") and dump(b.test)[:-8] in dump(c):
                okk = True
        ck.require(okk, "C05.2", "%s: call `%s`" % (q.fn(fd), dump(c)), "call dominated by `func is not None`",
                   "the looked-up value is called on a path where no callable was found", q.loc(fd, n))
        # arguments: func(*params) for lists, func(**params) otherwise
    ck.floor("C05.2", 5)

    # ---- C05.3 private attributes ------------------------------------------------------
    n3 = 0
    # (new public helpers that nothing on the request path calls - an introspection API for the application - answer no request)
    reach53, todo53 = set(), [f_ for f_ in prog.module_funcs(SRV) if f_.name in ("_marshaled_dispatch", "_dispatch", "do_POST", "handle_jsonrpc",
                                                                                  "_unmarshaled_dispatch", "_marshaled_single_dispatch")]
    while todo53:
        f_ = todo53.pop()
        if f_.fq in reach53:
            continue
        reach53.add(f_.fq)
        todo53 += [r_ for (_n, _c, r_) in common.callees(prog, f_)]
    for fi in prog.module_funcs(SRV):
        if common.is_new_function(fi) and fi.fq not in reach53 and not fi.name.startswith("_"):
            continue
        g = cfg_of(fi)
        for n in g.live_nodes():
            for e in node_exprs(n):
                for sub in ast.walk(e):
                    # self.instance.<literal name>: a lookup by a fixed name, same standing as getattr(self.instance, "<literal>")
                    if isinstance(sub, ast.Attribute) and isinstance(sub.value, ast.Attribute) and sub.value.attr == "instance" \
                            and dump(sub.value.value) == "self":
                        n3 += 1
            for c in node_calls(n):
                if isinstance(c.func, ast.Name) and c.func.id in ("getattr", "hasattr") and len(c.args) >= 2:
                    t = prov.origin(g, n, c.args[0])
                    from_instance = term_contains(t, lambda x: isinstance(x, tuple) and x[0] == "attr" and x[2] == "instance")
                    if not from_instance:
                        continue
                    n3 += 1
                    lit = isinstance(c.args[1], ast.Constant) and isinstance(c.args[1].value, str)
                    ck.require(lit, "C05.3", "%s: %s(<instance>, %s)" % (q.fn(fi), c.func.id, dump(c.args[1])),
                               "literal attribute name (documented hook)",
                               "an attribute of the registered instance (or of an object reached from it) is looked up "
                               "with the request-controlled name `%s` outside resolve_dotted_attribute: underscore-"
                               "prefixed segments are reachable" % dump(c.args[1]), q.loc(fi, n))
                r = prog.resolve_call(fi, c)
                if isinstance(r, str) and r.endswith("resolve_dotted_attribute"):
                    n3 += 1
                    t0 = prov.origin(g, n, c.args[0]) if c.args else None
                    ck.require(t0 is not None and q.self_attr(t0, "instance"), "C05.3",
                               "%s: resolve_dotted_attribute(%s, ...)" % (q.fn(fi), dump(c.args[0]) if c.args else ""),
                               "applied to self.instance itself",
                               "resolve_dotted_attribute is applied to %s, not to the registered instance: leading "
                               "segments of the dotted name escape its underscore check" % (prov.show(t0) if t0 else "nothing"),
                               q.loc(fi, n))
                    t1 = prov.origin(g, n, c.args[1]) if len(c.args) > 1 else None
                    ck.require(t1 == ("param", "method"), "C05.3",
                               "%s: resolve_dotted_attribute(..., %s)" % (q.fn(fi), dump(c.args[1]) if len(c.args) > 1 else ""),
                               "whole method name is checked",
                               "resolve_dotted_attribute does not receive the whole requested name (%s)" % (prov.show(t1) if t1 else "nothing"),
                               q.loc(fi, n))
    # a resolver written in the package (instead of the stdlib one) must reject '_' on every *segment*
    for fi in prog.module_funcs(SRV):
        g = cfg_of(fi)
        for n in g.live_nodes():
            for c in node_calls(n):
                r = prog.resolve_call(fi, c)
                if not (isinstance(r, FuncInfo) and r.module != SRV or (isinstance(r, FuncInfo) and r.cls is None and r.fq != fi.fq)):
                    continue
                bound = [i for i, a in enumerate(c.args) if q.self_attr(prov.origin(g, n, a), "instance")]
                if not bound:
                    continue
                rg = cfg_of(r)
                rd_ = dominators(rg)
                gets = [(m, cc) for m in rg.live_nodes() for cc in node_calls(m) if isinstance(cc.func, ast.Name) and cc.func.id == "getattr"
                        and len(cc.args) >= 2 and not isinstance(cc.args[1], ast.Constant)]
                for (m, cc) in gets:
                    n3 += 1
                    name_e = cc.args[1]
                    guards = [rg.nodes[i] for i in rd_[m.id] if rg.nodes[i].kind == "branch" and isinstance(rg.nodes[i].test, ast.Call)
                              and isinstance(rg.nodes[i].test.func, ast.Attribute) and rg.nodes[i].test.func.attr == "startswith"
                              and rg.nodes[i].test.args and isinstance(rg.nodes[i].test.args[0], ast.Constant) and rg.nodes[i].test.args[0].value == "_"]
                    okk = any(dump(b.test.func.value) == dump(name_e) and b.polarity is False for b in guards)
                    ck.require(okk, "C05.3", "%s: getattr(..., %s) in the package's own resolver" % (q.fn(r), dump(name_e)),
                               "guarded by `%s.startswith('_')` on the same segment" % dump(name_e),
                               "the package's attribute resolver looks up the segment `%s` of a request-controlled dotted name without rejecting a "
                               "leading underscore on that very segment (guards: %s): private attributes of the registered instance are reachable"
                               % (dump(name_e), [dump(b.test) for b in guards]), q.loc(r, m))
    if n3 < 2:
        raise AnalysisError("anchor vanished: instance attribute lookups in the server module (found %d)" % n3)
    # ... and the introspection methods inherited from SimpleXMLRPCDispatcher run code of the registered instance (system_listMethods
    # calls its _listMethods() or reads every attribute of it - properties included; system_methodHelp / system_methodSignature resolve
    # the name without the underscore rule): the dispatcher's own code never calls them, they are reachable only as registered
    # functions.  Likewise dir() / vars() / inspect.getmembers() of the instance evaluate nothing by themselves except getmembers.
    INTROSPECT = ("system_listMethods", "system_methodHelp", "system_methodSignature", "system_multicall", "_listMethods", "_methodHelp",
                  "list_public_methods", "getmembers")
    for fi in prog.module_funcs(SRV):
        if fi.cls is None or fi.cls.name != DISP:
            continue
        g = cfg_of(fi)
        for n in g.live_nodes():
            for c in node_calls(n):
                if call_name(c) in INTROSPECT:
                    ck.bad("C05.3", "%s: `%s`" % (q.fn(fi), dump(c)[:50]),
                           "the dispatcher calls `%s`, which runs code of the registered instance (its _listMethods hook, or every property "
                           "of it) while a request is being resolved or rejected: a request for an unknown or private name then invokes "
                           "registered code, and what that code raises replaces the standard error" % dump(c.func), q.loc(fi, n))

    # ---- C05.4 message of -32603 -----------------------------------------------------------
    for site in all_sites:
        if site.code() != spec.CODE_INTERNAL:
            continue
        t = site.origin("message", 1) or ("const", None)
        def exc_term(x):
            return isinstance(x, tuple) and (x[0] == "exc" or (x[0] == "attr" and x[2] == "format_exception") or
                                             (x[0] == "attr" and x[2] == "exc_info"))

        def via_helper(x, module=site.fi.module):
            """a call of a package function all of whose results derive from the exception being handled (sys.exc_info)"""
            if not (isinstance(x, tuple) and x[0] == "call" and x[1][0] in ("attr", "global")):
                return False
            try:
                r = prog.resolve(module, ast.parse(prov.show(x[1]), mode="eval").body)
            except SyntaxError:
                return False
            hf = prog.funcs.get(r) if isinstance(r, str) else None
            if hf is None:
                return False
            srcs = [(hn, hv) for (hn, hv) in q.return_sources(hf)]
            return bool(srcs) and all(hv is not None and term_contains(prov.origin(cfg_of(hf), hn, hv), exc_term) for (hn, hv) in srcs)
        # the exception's "Type: text" line is not at a fixed position of a formatted trace: format_exception() /
        # format_exception_only() append the notes of the exception (Python 3.11) after it and put the details of a SyntaxError
        # before it - a constant index into their result can name a note, a source line or a file position instead
        def _indexed_trace(x):
            return isinstance(x, tuple) and x[0] == "item" and isinstance(x[2], tuple) and x[2][0] == "const" and \
                prov.contains(x[1], lambda y: isinstance(y, tuple) and y[0] == "call" and isinstance(y[1], tuple) and (
                    (y[1][0] == "attr" and y[1][2] in ("format_exception", "format_exception_only")) or
                    (y[1][0] == "global" and y[1][1] in ("format_exception", "format_exception_only"))))
        idx_ = []
        prov.contains(t, lambda x: idx_.append(x) or False if _indexed_trace(x) else False)
        ck.require(not idx_, "C05.4", "%s: -32603 message: exception line not taken by position" % q.fn(site.fi),
                   "no constant index into format_exception(...) / format_exception_only(...)",
                   "the -32603 message takes `%s`: the \"Type: text\" line of the exception is not at a fixed position of the formatted "
                   "trace (notes follow it, SyntaxError details precede it), so for such exceptions the message names neither the type nor "
                   "the text" % (prov.show(idx_[0])[:80] if idx_ else ""), q.loc(site.fi, site.node))
        has_exc = term_contains(t, exc_term) or term_contains(t, via_helper)
        if not has_exc and common.is_new_function(site.fi):
            raise AnalysisError("%s builds the -32603 message in a new helper method from its parameters: not modelled" % q.fn(site.fi))
        ck.require(has_exc, "C05.4", "%s: -32603 message" % q.fn(site.fi), "message derives from the caught exception",
                   "the -32603 message %s does not derive from the caught exception (type and text are lost)" % prov.show(t)[:120],
                   q.loc(site.fi, site.node))
    ck.floor("C05.4", 8)

    # ---- C05.4b the error reply can be marshaled: no request-derived `data` on the dispatcher's own faults -------------------------
    # Fault.data is emitted as it is (it does not go through jsonclass.dump): an argument the translator turned into an object
    # (Decimal, a bean) makes the final jdumps fail, and the reply degrades to -32603 with id null
    for site in all_sites:
        de = site.arg("data", 4)
        if de is None or de[2] is None or (isinstance(de[2], ast.Constant)):
            continue
        if common.json_safe_expr(prog, de[0], de[1], de[2]):
            ck.ok("C05.4", "%s: Fault(%s) data=%s" % (q.fn(site.fi), site.code(), dump(de[2])[:40]),
                  "strings / numbers / displays of them only: always serialisable", q.loc(site.fi, site.node))
            continue
        td_ = prov.origin(cfg_of(de[0]), de[1], de[2])
        from_request = prov.contains(td_, lambda x: x in (("param", "params"), ("param", "request"), ("param", "data")) or
                                     (isinstance(x, tuple) and x and x[0] == "attr" and x[2] in ("args", "data")) or
                                     (isinstance(x, tuple) and x and x[0] == "exc"))
        if not from_request:
            # (syntactically: the request's own containers named in the expression or in the definitions of the locals it uses)
            seen_, todo_ = set(), [de[2]]
            while todo_ and not from_request:
                e_ = todo_.pop()
                for x_ in ast.walk(e_):
                    if isinstance(x_, ast.Name) and x_.id in ("params", "request") and x_.id in de[0].params:
                        from_request = True
                    elif isinstance(x_, ast.Name) and x_.id not in seen_:
                        seen_.add(x_.id)
                        todo_ += [st_.value for st_ in ast.walk(de[0].node) if isinstance(st_, ast.Assign) and
                                  any(isinstance(t_, ast.Name) and t_.id == x_.id for t_ in st_.targets)]
        if not from_request:
            # neither provably JSON-safe nor taken from the request / the exception: what it holds is not followed
            raise AnalysisError("the `data` of the Fault built in %s (`%s`) is of a kind the rules cannot establish: not modelled"
                                % (q.fn(site.fi), dump(de[2])[:50]))
        ck.bad("C05.4", "%s: Fault(%s) data=%s" % (q.fn(site.fi), site.code(), dump(de[2])[:40]),
               "the error object carries `%s`, taken from the request as loaded (objects built by the class translator included) and not "
               "converted back: the reply cannot be serialised for such arguments and the client receives -32603 / id null instead of "
               "this error" % dump(de[2])[:50], q.loc(site.fi, site.node))

    # ---- C05.5 mismatch vs body -------------------------------------------------------------
    for (n, c) in q.call_sites(prog, fd, lambda r, c: r == "class:jsonrpc.Fault"):
        code = fold_code(prog, fd, kwarg(c, "code", 0)) if kwarg(c, "code", 0) is not None else None
        if code != spec.CODE_PARAMS:
            continue
        for (t, h) in handler_of(fd, c)[:1]:
            enclosed = [cc for (nn, cc, _t) in func_calls if any(sub is cc for st in t.body for sub in ast.walk(st))]
            ck.require(not enclosed, "C05.5", "%s: the -32602 handler (except TypeError) encloses the invocation of the looked-up callable" % q.fn(fd),
                       "-32602 handler does not enclose the method body",
                       "the try whose TypeError handler answers -32602 encloses the execution of the method itself: a "
                       "TypeError raised inside the method (e.g. 1 + 'a') is reported as invalid parameters instead of -32603",
                       q.loc(fd, h))

    # ---- C05.7 an argument mismatch is always answered -32602 ---------------------------------------------------
    for site in all_sites:
        if site.code() != spec.CODE_PARAMS or site.fi.fq != fd.fq:
            continue
        for (t, h) in handler_of(fd, site.call)[:1]:
            reraise = [x for st_ in h.body for x in ast.walk(st_) if isinstance(x, ast.Raise)]
            via_helper = [hc for (n, c, helper, hc) in invs if helper is not None]
            # frames are a property of the source as written: look at the module before helper expansion as well
            via_helper += _raw_helper_invocations(prog)
            if reraise:
                ck.require(not via_helper, "C05.7", "%s: -32602 handler re-raises selectively while the call sits in a helper" % q.fn(fd),
                           "the call expression is in _dispatch's own frame",
                           "the TypeError handler re-raises depending on the traceback, and the registered callable is invoked one frame deeper "
                           "(through %s): a genuine argument mismatch is raised inside that helper, classified as an error of the method and "
                           "answered -32603 instead of -32602" % ", ".join(sorted(set([helper.qual for (_n, _c, helper, _h) in invs if helper is not None] +
                                                                                       [x for x in via_helper if isinstance(x, str)]))),
                           q.loc(fd, h))
                # even with the call in _dispatch's own frame, the depth of the traceback does not tell a mismatch from an error of
                # the method: a registered callable that forwards its arguments (a functools.wraps decorator, a bound partial)
                # raises the mismatch one frame down as well
                by_tb = [x for st_ in h.body for x in ast.walk(st_) if isinstance(x, ast.Attribute) and x.attr in ("tb_next", "tb_frame", "__traceback__")] + \
                        [x for st_ in h.body for x in ast.walk(st_) if isinstance(x, ast.Call) and dump(x.func) in ("sys.exc_info", "traceback.extract_tb", "inspect.trace")]
                ck.require(not by_tb, "C05.7", "%s: -32602 handler re-raises depending on the traceback" % q.fn(fd), "mismatch decided before the call",
                           "the TypeError handler answers -32602 only when the traceback has a single frame (`%s`): an argument mismatch of a "
                           "callable that forwards its arguments (decorated function, wrapper) is raised one frame deeper and answered -32603"
                           % (dump(by_tb[0])[:40] if by_tb else ""), q.loc(fd, h))
            else:
                ck.ok("C05.7", "%s: the -32602 handler answers every TypeError of the call" % q.fn(fd), "no selective re-raise", q.loc(fd, h))

    # ---- C05.6 validate_request truth table ---------------------------------------------------
    fv = prog.func(SRV, "validate_request")
    methods = [("absent", None), ("''", shape.K("")), ("'m'", shape.K("m")), ("5", shape.K(5)), ("None", shape.K(None)),
               ("['m']", shape.L([shape.K("m")]))]
    params = [("absent", None, True), ("[]", shape.L([]), True), ("[1]", shape.L([shape.K(1)]), True),
              ("{}", shape.D(), True), ("{'a':1}", shape.D({"a": shape.K(1)}), True), ("()", shape.K(()), True),
              ("0", shape.K(0), False), ("''", shape.K(""), False), ("False", shape.K(False), False),
              ("None", shape.K(None), False), ("5", shape.K(5), False), ("'x'", shape.K("x"), False),
              ("0.0", shape.K(0.0), False)]
    markers = [("jsonrpc+id", {"jsonrpc": shape.K("2.0"), "id": shape.K(1)}, True),
               ("jsonrpc", {"jsonrpc": shape.K("2.0")}, True), ("id", {"id": shape.K(1)}, True), ("none", {}, False),
               # a 1.0 message is recognised by the presence of "id", whatever its value (null for a 1.0 notification)
               ("id null", {"id": shape.K(None)}, True), ("id ''", {"id": shape.K("")}, True), ("id 0", {"id": shape.K(0)}, True),
               ("jsonrpc+id null", {"jsonrpc": shape.K("2.0"), "id": shape.K(None)}, True)]
    cases = 0
    for (ml, mv) in methods:
        for (pl, pv, p_ok) in params:
            for (kl, kv, k_ok) in markers:
                keys = dict(kv)
                if mv is not None:
                    keys["method"] = mv
                if pv is not None:
                    import copy
                    keys["params"] = copy.deepcopy(pv)
                expected_valid = k_ok and p_ok and ml == "'m'"
                ev = shape.subscript_patch(shape.Evaluator(prog, SRV))
                req = shape.dict_sym("request", keys)
                cfgo = shape.Opaque("Config", {"version": shape.K(2.0)})
                res = ev.run(fv, {"request": req, "json_config": cfgo})
                cases += 1
                for (_tr, out) in res:
                    if out[0] == "raise":
                        got = "raises " + out[1]
                    elif isinstance(out[1], shape.Opaque) and out[1].label == "Fault":
                        got = "Fault"
                    else:
                        got = "valid"          # the callers only ask `isinstance(result, Fault)`: any other value accepts the entry
                    want = "valid" if expected_valid else "Fault"
                    desc = "method=%s params=%s markers=%s" % (ml, pl, kl)
                    if got != want:
                        ck.bad("C05.6", "%s: %s" % (q.fn(fv), desc),
                               "validate_request yields %s for a request with %s; the property requires %s" % (got, desc, want),
                               q.loc(fv, fv.node))
                    else:
                        ck.stat("validate_cases_ok", 1)
    ck.ok("C05.6", "%s: %d request shapes" % (q.fn(fv), cases), "accepts exactly the well-formed shapes", q.loc(fv, fv.node))
    # non-dict entries
    for label, val in (("list", shape.L([shape.K(1)])), ("int", shape.K(5)), ("str", shape.K("x")), ("None", shape.K(None))):
        ev = shape.Evaluator(prog, SRV)
        res = ev.run(fv, {"request": val, "json_config": shape.Opaque("Config", {"version": shape.K(2.0)})})
        for (_tr, out) in res:
            good = out[0] == "return" and isinstance(out[1], shape.Opaque) and out[1].label == "Fault"
            ck.require(good, "C05.6", "%s: non-object entry %s" % (q.fn(fv), label), "rejected with a Fault",
                       "a %s entry is not rejected with a Fault: %r" % (label, out), q.loc(fv, fv.node))

    # ---- C05.8 the client surfaces the error (shared with C06) ----------------------------------------------------------
    from rules import c06
    _common.import_rules(ck, c06, {"C06.1": "C05.8", "C06.2": "C05.8", "C06.4": "C05.8"})
    ck.floor("C05.8", 10)

    # ---- C05.9 shared clauses ------------------------------------------------------------------------------------------
    from rules import c14 as _c14, c04 as _c04
    _common.import_rules(ck, _c14, {"C14.1": "C05.9"})
    _common.import_rules(ck, _c04, {"C04.3": "C05.9"})
    ck.floor("C05.9", 20)

    # ---- C05.10 the per-request configuration copy is complete (shared with C13.2) --------------------------------------------
    from rules import c13 as _c13c
    _common.import_rules(ck, _c13c, {"C13.2": "C05.10"})
    from rules import c02 as _c02e5
    _common.import_rules(ck, _c02e5, {"C02.1": "C05.10"})      # (an exception escaping the dispatcher is answered -32603 / HTTP 500 whatever the failure class)
    ck.floor("C05.10", 5)

    # ---- C05.11 transport of the error reply (shared with C02.6 / C17.3) -------------------------------------------------------
    from rules import c02 as _c02t5, c17 as _c17t5
    _common.import_rules(ck, _c02t5, {"C02.6": "C05.11"})
    _common.import_rules(ck, _c17t5, {"C17.3": "C05.11"})
    ck.floor("C05.11", 6)

    # ---- C05.12 the parser sees the body as received (shared with C14.4) ---------------------------------------------------------
    from rules import c14 as _c14w
    _common.import_rules(ck, _c14w, {"C14.4": "C05.12"})
    ck.floor("C05.12", 4)
