"""C09 Thread pool runs every accepted task exactly once and reports it faithfully."""
import ast
from vlib.model import AnalysisError, dump, kwarg, call_name
from vlib.cfg import cfg_of, node_calls, node_exprs
from vlib.flow import dominators, postdominators, NORMAL, Explorer, states_at, reachable_avoiding
from vlib import prov, q
from vlib.locks import ClassLocks
from rules import common

META = {
    "explanation": (
        "Decides structural necessary conditions of exactly-once execution and faithful reporting: C09.1 enqueue puts "
        "one 4-tuple (method, args, kwargs, future) with the caller's values and returns that very future, on every "
        "normal path; only enqueue (task tuples) and stop (the sentinel) put into the queue; C09.2 in the worker loop, on "
        "every path of an iteration that dequeued a non-sentinel item, future.execute(<unpacked item>) is called exactly "
        "once and task_done() exactly once, exceptional paths included; on the sentinel path task_done() once and no "
        "execute; clear() pairs each get_nowait with one task_done; C09.3 FutureResult.execute calls method(*args, "
        "**kwargs) exactly once, hands its value unchanged to the done-event, hands the caught exception object "
        "unchanged to raise_exception and re-raises it; result() returns the stored data after a true wait; EventData "
        "stores/returns the very objects and its readers (wait, data, exception, is_set) and FutureResult.result/done "
        "write no field; C09.4 the queue is a queue.Queue (FIFO); C09.5 stop sets the stop flag before taking the lock, "
        "snapshots the thread list under the lock and joins every member until not alive; __start_thread tests the flag "
        "and registers the very thread it started, on every normal path, under the same lock; the worker re-tests the flag before every "
        "get; C09.6 the constructor leaves the pool stopped (flag set once the event exists) and start clears "
        "the flag before any __start_thread; C09.7 every access to the pool counters and thread list outside __init__ "
        "holds the pool lock (two triaged exceptions frozen by construct); C09.8 the worker accounting is exact (imported from "
        "C10.1 / C10.7 / C10.7b): a thread is started only below max_threads, every worker exit decrements the thread counter "
        "exactly once - otherwise a max_threads=1 pool can run two workers and tasks no longer start in submission order; "
        "C09.9 (imported from C10.5) every decision to start or retire a worker is taken under the pool lock on inputs read "
        "under that lock whose writers hold it - a worker retiring on a stale snapshot leaves an accepted task unexecuted. C09.10 (shared with C10.8) the worker's handler around a failing task never evaluates the user-supplied objects, so the worker survives the failure and goes on to the tasks queued behind it."),
    "does_not_decide": "exactly-once and eventual execution over all interleavings, submission-order start beyond "
                       "FIFO-ness, idle-timeout behaviour (schedule-quantified).",
    "rules": {"C09.1": "provenance + post-dominance + who-may-put", "C09.2": "per-iteration event-count exploration of the worker CFG (exception edges included)",
              "C09.3": "provenance + event count + field-write scan", "C09.4": "constructor type", "C09.5": "ordering / dominance / lockset",
              "C09.6": "dominance", "C09.7": "lockset of every field access (E5)", "C09.8": "imported C10.1, C10.7, C10.7b", "C09.9": "imported C10.5 (E5 snapshot rule)",
              "C09.10": "syntax-directed use classification of the containment handler (common.check_inert_handlers)"},
    "assumptions": ["queue.Queue is FIFO and thread-safe; threading.Event/RLock behave as documented"],
}

TP = "threadpool"
GUARDED = ("__nb_threads", "__nb_active_threads", "__nb_pending_task", "_threads", "_thread_id")
# triaged lock-discipline exceptions (function, attr, access, statement text) -> reason
TRIAGED = {
    ("start", "__nb_pending_task", "w"):
        "only over-counts; the growth rule needs pending >= true count, which every interleaving preserves",
    ("start", "__nb_pending_task", "r"):
        "the read half of the same read-modify-write",
    ("stop", "_threads", "w"):
        "all workers have been joined and stop() is the single controller at that point",
}


def _introspection_only(prog, fi, _seen=None):
    """a new method of the pool that writes nothing, calls nothing of the pool, only builds and returns a value, and is
    referenced nowhere in the package (a property / __repr__ for the application's eyes)"""
    from vlib.inline import known_functions
    if ("%s.%s" % (fi.cls.name, fi.name) if fi.cls else fi.name) in known_functions().get(fi.module, set()):
        return False
    for x in ast.walk(fi.node):
        if isinstance(x, (ast.Attribute, ast.Subscript, ast.Name)) and isinstance(getattr(x, "ctx", None), (ast.Store, ast.Del)) and not isinstance(x, ast.Name):
            return False
        if isinstance(x, ast.Call) and isinstance(x.func, ast.Attribute) and isinstance(x.func.value, ast.Name) and x.func.value.id == "self":
            return False
        if isinstance(x, (ast.While, ast.With, ast.Raise, ast.Global, ast.Nonlocal, ast.Yield, ast.YieldFrom)):
            return False
    if fi.name.startswith("__") and fi.name.endswith("__") and fi.name not in ("__repr__", "__str__"):
        return False
    seen = set(_seen or ()) | set([fi.fq])
    for other in prog.funcs.values():
        if other is fi:
            continue
        for x in ast.walk(other.node):
            if isinstance(x, ast.Attribute) and x.attr == fi.name:
                # used by another reporting accessor (a __repr__ built from the properties) is still reporting only
                if other.fq in seen or other.cls is not fi.cls or not _introspection_only(prog, other, seen):
                    return False
    return True


def check(ck):
    prog = ck.prog
    ci = prog.cls(TP, "ThreadPool")
    cl = ClassLocks(prog, ci)
    if "__lock" not in cl.lock_fields:
        raise AnalysisError("anchor vanished: ThreadPool.__lock")
    fenq = prog.func(TP, "ThreadPool.enqueue")
    frun = prog.func(TP, "ThreadPool.__run")
    fstop = prog.func(TP, "ThreadPool.stop")
    fstart = prog.func(TP, "ThreadPool.start")
    fst = prog.func(TP, "ThreadPool.__start_thread")
    fclear = prog.func(TP, "ThreadPool.clear")

    # ---- C09.1 hand-off ------------------------------------------------------------------------------
    g = cfg_of(fenq)
    puts = [(n, c) for n in g.live_nodes() for c in node_calls(n) if dump(c.func) in common.QUEUE_PUTS]
    # one put per path (alternative puts in the arms of a test - a waiting one, an immediate one - are one put each)
    from vlib.flow import reachable_avoiding as _ra_p
    twice = [n for (n, _c) in puts if any(m.id != n.id and m.id in _ra_p(g, n.id, set(), lambda l: l != "exc") for (m, _c2) in puts)]
    ck.require(len(puts) >= 1 and not twice, "C09.1", "%s: one put" % q.fn(fenq), "one put", "enqueue performs %d puts%s" % (
        len(puts), " (two on one path)" if twice else ""), q.loc(fenq, fenq.node))
    for (n, c) in puts:
        item = c.args[0] if c.args else kwarg(c, "item")
        item_node = n
        if isinstance(item, ast.Name):
            # the item built in a local first: `task = (method, args, kwargs, future)` ... put(task, ...)
            ds_ = prov.rd_of(g).get(n.id, {}).get(item.id, frozenset())
            dn_ = [g.nodes[i] for i in ds_]
            if len(dn_) == 1 and dn_[0].kind == "stmt" and isinstance(dn_[0].ast, ast.Assign) and len(dn_[0].ast.targets) == 1 \
                    and isinstance(dn_[0].ast.targets[0], ast.Name) and isinstance(dn_[0].ast.value, ast.Tuple):
                item, item_node = dn_[0].ast.value, dn_[0]
        okk = isinstance(item, ast.Tuple) and len(item.elts) == 4
        if okk:
            ts = [prov.origin(g, item_node, e) for e in item.elts]
            va = fenq.node.args.vararg.arg if fenq.node.args.vararg else None
            kw = fenq.node.args.kwarg.arg if fenq.node.args.kwarg else None
            okk = ts[0] == ("param", "method") and ts[1] == ("param", va) and ts[2] == ("param", kw) and \
                ts[3][0] == "call" and prov.show(ts[3][1]).endswith("FutureResult")
        ck.require(okk, "C09.1", "%s: `%s`" % (q.fn(fenq), dump(c)[:60]), "(method, args, kwargs, future) with the caller's values",
                   "the queued item is `%s`: not the 4-tuple (method, args, kwargs, future) of the caller's values" % (dump(item)[:60] if item is not None else None),
                   q.loc(fenq, n))
        pd = postdominators(g, [g.return_exit.id], NORMAL)
        ck.require(n.id in pd[g.entry.id] or all(common.must_pass(g, r_.id, [m.id for (m, _c2) in puts]) for r_ in g.live_nodes() if r_.kind == "return"),
                   "C09.1", "%s: put on every normal path" % q.fn(fenq), "post-dominates the entry",
                   "there is a normal path through enqueue that returns a future without queuing the task", q.loc(fenq, n))
        fut_defs = prov.rd_of(g).get(item_node.id, {}).get(dump(item.elts[3]), frozenset()) if isinstance(item, ast.Tuple) and len(item.elts) == 4 and isinstance(item.elts[3], ast.Name) else frozenset()
        for rn in [x for x in g.live_nodes() if x.kind == "return"]:
            same = rn.ast is not None and isinstance(rn.ast.value, ast.Name) and isinstance(item, ast.Tuple) and len(item.elts) == 4 and \
                dump(rn.ast.value) == dump(item.elts[3]) and prov.rd_of(g).get(rn.id, {}).get(rn.ast.value.id) == fut_defs
            ck.require(bool(same), "C09.1", "%s: `%s`" % (q.fn(fenq), q.stmt_text(rn)), "returns the queued future",
                       "enqueue returns `%s`, not the future stored in the queued item" % q.stmt_text(rn), q.loc(fenq, rn))
    putters = {}
    for fi in ci.methods.values():
        gg = cfg_of(fi)
        for n in gg.live_nodes():
            for c in node_calls(n):
                if isinstance(c.func, ast.Attribute) and c.func.attr in ("put", "put_nowait") and "_queue" in dump(c.func.value):
                    putters.setdefault(fi.name, []).append((n, c))
    ck.require(sorted(putters) == ["enqueue", "stop"], "C09.1", "threadpool.ThreadPool: who puts into the queue", "enqueue and stop only",
               "%s put into the task queue: the worker's 4-way unpack / sentinel test is no longer total" % sorted(putters), "jsonrpclib/threadpool.py")
    for (n, c) in putters.get("stop", []):
        ck.require(c.args and dump(c.args[0]) == "self._done_event", "C09.1", "%s: sentinel put" % q.fn(fstop), "puts self._done_event",
                   "stop queues `%s` as sentinel; the worker compares with self._done_event" % (dump(c.args[0]) if c.args else None), q.loc(fstop, n))
    ck.floor("C09.1", 5)

    # ---- C09.2 take / execute / done pairing -----------------------------------------------------------------
    from vlib.cfg import stmt_may_raise

    def worker_may_raise(st):
        """Statements of the worker that cannot raise, with reasons: entering `with self.__lock` (an RLock);
        `self.<counter> += / -= 1` on integer counters; unpacking the dequeued 4-tuple (who-may-put, C09.1)."""
        if isinstance(st, ast.withitem):
            return dump(st.context_expr) != "self.__lock"
        if isinstance(st, ast.AugAssign) and isinstance(st.target, ast.Attribute) and dump(st.target.value) == "self" \
                and isinstance(st.value, ast.Constant):
            return False
        if isinstance(st, ast.Assign) and isinstance(st.targets[0], ast.Tuple) and len(st.targets[0].elts) == 4 and dump(st.value) == "task":
            return False
        return stmt_may_raise(st)
    g = cfg_of(frun, may_raise=worker_may_raise)
    gets = [n for n in g.live_nodes() for c in node_calls(n) if dump(c.func) == "self._queue.get"]
    execs = [n for n in g.live_nodes() for c in node_calls(n) if isinstance(c.func, ast.Attribute) and c.func.attr == "execute"]
    dones = [n for n in g.live_nodes() for c in node_calls(n) if dump(c.func) == "self._queue.task_done"]
    if len(gets) != 1 or len(execs) < 1 or len(dones) < 1:
        raise AnalysisError("anchor vanished: get/execute/task_done in ThreadPool.__run (%d/%d/%d)" % (len(gets), len(execs), len(dones)))
    get_id = gets[0].id
    exec_ids = set(n.id for n in execs)
    done_ids = set(n.id for n in dones)
    heads = [n for n in g.live_nodes() if n.kind == "join" and isinstance(n.ast, ast.While) and any(l == "back" for (_a, l) in g.pred[n.id])]
    if len(heads) != 1:
        raise AnalysisError("anchor vanished: the worker loop head in ThreadPool.__run")
    head = heads[0]
    verdicts = {}
    after_get = set(b for (b, l) in g.succ[get_id] if l != "exc")

    def verify(tag, data, facts, node):
        got, ex_, dn, sent = data
        if not got:
            return
        key = (tag, ex_, dn, sent, node.id)
        verdicts.setdefault(key, (data, node))

    def on_node(node, facts, data):
        got, ex_, dn, sent = data
        if node.id == head.id:
            verify("next iteration", data, facts, node)
            return [(facts, (False, 0, 0, False))]
        if node.kind == "handler" and q.handler_types(node) in (["queue.Empty"], ["Empty"]):
            return [(facts, (False, 0, 0, False))]
        if node.id in after_get:
            got, ex_, dn, sent = True, 0, 0, False
        if node.kind == "branch" and dump(node.test) == "task is self._done_event" and node.polarity:
            sent = True
        if node.id in exec_ids:
            ex_ = min(ex_ + 1, 3)
        if node.id in done_ids:
            dn = min(dn + 1, 3)
        if node.kind in ("return",):
            verify("return", (got, ex_, dn, sent), facts, node)
        if node.kind == "raise_exit":
            verify("exceptional exit", (got, ex_, dn, sent), facts, node)
        return [(facts, (got, ex_, dn, sent))]
    ex = Explorer(g, on_node=on_node, init_data=(False, 0, 0, False), heap_facts=False)
    ck.stat("worker_states", len(ex.states))
    for (tag, ex_, dn, sent, nid), (data, node) in sorted(verdicts.items(), key=lambda kv: kv[0]):
        want_ex = 0 if sent else 1
        okk = dn == 1 and ex_ == want_ex
        ck.require(okk, "C09.2", "%s: iteration ending at %s (L%s) with %d execute / %d task_done%s" % (
            q.fn(frun), tag, node.lineno, ex_, dn, " [sentinel]" if sent else ""),
            "exactly one task_done and %d execute" % want_ex,
            "a worker iteration that dequeued %s reaches %s after %d execute call(s) and %d task_done call(s): %s" % (
                "the stop sentinel" if sent else "a task", tag, ex_, dn,
                "the task is lost or run twice" if ex_ != want_ex else "join()/stop() accounting is broken (unfinished task count never returns to zero)"),
            q.loc(frun, node))
    # the worker survives a failing task: the try around execute() has a handler for Exception (or broader)
    for en in execs:
        hts = [t for t in ast.walk(frun.node) if isinstance(t, ast.Try) and q.try_body_contains(t, en.ast)]
        broad = any(h.type is None or dump(h.type) in ("Exception", "BaseException") for t in hts for h in t.handlers)
        ck.require(broad, "C09.2", "%s: a failing task does not end the worker" % q.fn(frun), "except Exception around future.execute(...)",
                   "the worker loop does not catch the ordinary exceptions of a task (handlers: %s): a failing task ends its worker thread, and "
                   "the tasks still queued wait until another enqueue starts a new worker"
                   % ([dump(h.type) for t in hts for h in t.handlers if h.type is not None] or "none"), q.loc(frun, en))
    ck.floor("C09.2", 3)
    # execute receives the unpacked item
    for n in execs:
        for c in node_calls(n):
            if isinstance(c.func, ast.Attribute) and c.func.attr == "execute":
                ts = [prov.origin(g, n, a) for a in c.args]
                src = ("call", ("attr", ("attr", ("param", "self"), "_queue"), "get"))
                okk = len(ts) == 3 and all(t[0] == "unpack" and t[1][0] == "call" and t[1][1] == src[1] and t[2] == i for i, t in enumerate(ts))
                tf = prov.origin(g, n, c.func.value)
                okk = okk and tf[0] == "unpack" and tf[2] == 3
                ck.require(okk, "C09.2", "%s: `%s`" % (q.fn(frun), dump(c)), "future.execute(method, args, kwargs) of the dequeued item",
                           "the worker executes `%s` with values that are not the members of the dequeued item" % dump(c), q.loc(frun, n))
    gc = cfg_of(fclear)
    gn = [n for n in gc.live_nodes() for c in node_calls(n) if call_name(c) in ("get_nowait", "get") and "_queue" in dump(c.func)]
    dn_ = [n for n in gc.live_nodes() for c in node_calls(n) if dump(c.func) == "self._queue.task_done"]
    okk = len(gn) == 1 and len(dn_) == 1 and [b for (b, l) in gc.succ[gn[0].id] if l != "exc"] == [dn_[0].id]
    ck.require(okk, "C09.2", "%s: get_nowait paired with task_done" % q.fn(fclear), "each drained item is marked done",
               "clear() drains items without marking each of them done (Queue.join would block forever)", q.loc(fclear, fclear.node))

    # ---- C09.3 faithful outcome -------------------------------------------------------------------------------
    from rules import common as _cm0
    _cm0.check_execute_outcome(ck, "C09.3")
    fres = prog.func(TP, "FutureResult.result")
    gr = cfg_of(fres)
    dr = dominators(gr)
    for rn in [n for n in gr.live_nodes() if n.kind == "return"]:
        t = prov.origin(gr, rn, rn.ast.value) if rn.ast is not None and rn.ast.value is not None else ("const", None)
        waits = [gr.nodes[d] for d in dr[rn.id] if gr.nodes[d].kind == "branch" and gr.nodes[d].polarity and "_done_event.wait" in dump(gr.nodes[d].test)]
        ck.require(t == ("attr", ("attr", ("param", "self"), "_done_event"), "data") and bool(waits), "C09.3", "%s: `%s`" % (q.fn(fres), q.stmt_text(rn)),
                   "returns the stored data after a true wait", "result() returns %s%s" % (prov.show(t), "" if waits else " without a successful wait"), q.loc(fres, rn))
    ed = prog.cls(TP, "EventData")
    from rules import common as _cm
    EF = _cm.event_fields(prog)
    for meth, param, field in (("set", "data", EF["data"]), ("raise_exception", "exception", EF["exception"])):
        fi = prog.func(TP, "EventData." + meth)
        gg = cfg_of(fi)
        st_ = [n for n in gg.live_nodes() if n.kind == "stmt" and isinstance(n.ast, ast.Assign) and dump(n.ast.targets[0]) == "self." + field]
        okk = len(st_) == 1 and prov.origin(gg, st_[0], st_[0].ast.value) == ("param", fi.params[1])
        if not okk and len(st_) == 1 and meth == "raise_exception":
            # a class given instead of an instance is instantiated (as `raise Cls` does): the argument itself is stored whenever it
            # is an instance - the instantiation is confined to the true edge of isinstance(<argument>, type)
            alts_ = prov.value_alts(prov.origin(gg, st_[0], st_[0].ast.value))
            pa_ = ("param", fi.params[1])
            inst_ = [a for a in alts_ if a != pa_]
            dgg_ = dominators(gg)
            if pa_ in alts_ and all(a[0] == "call" and a[1] == pa_ and not a[2] for a in inst_):
                okk = True
                for dn_ in gg.live_nodes():
                    if dn_.kind == "stmt" and isinstance(dn_.ast, ast.Assign) and dump(dn_.ast.targets[0]) == fi.params[1] and \
                            isinstance(dn_.ast.value, ast.Call) and dump(dn_.ast.value.func) == fi.params[1]:
                        okk = okk and any(gg.nodes[d].kind == "branch" and gg.nodes[d].polarity and
                                          ("isinstance(%s, type)" % fi.params[1]) in dump(gg.nodes[d].test) for d in dgg_[dn_.id])
        ck.require(okk, "C09.3", "%s: self.%s = %s" % (q.fn(fi), field, param), "stores the very object",
                   "EventData.%s does not store its argument itself in %s" % (meth, field), q.loc(fi, fi.node))
    for meth, field in (("data", EF["data"]), ("exception", EF["exception"])):
        fi = prog.func(TP, "EventData." + meth)
        gg = cfg_of(fi)
        for rn in [n for n in gg.live_nodes() if n.kind == "return"]:
            t = prov.origin(gg, rn, rn.ast.value) if rn.ast is not None and rn.ast.value is not None else ("const", None)
            ck.require(t == ("attr", ("param", "self"), field), "C09.3", "%s: returns self.%s" % (q.fn(fi), field), "the stored object",
                       "EventData.%s returns %s" % (meth, prov.show(t)), q.loc(fi, rn))
    fw = prog.func(TP, "EventData.wait")
    gw = cfg_of(fw)
    rz = [n for n in gw.live_nodes() if n.kind == "raise"]
    # (a local bound once to the stored exception - read once, then tested and raised - stands for the field)
    al_ = set()
    for st_ in ast.walk(fw.node):
        if isinstance(st_, ast.Assign) and len(st_.targets) == 1 and isinstance(st_.targets[0], ast.Name) and dump(st_.value) == "self." + EF["exception"]:
            nm_ = st_.targets[0].id
            if sum(1 for x_ in ast.walk(fw.node) if isinstance(x_, ast.Name) and x_.id == nm_ and isinstance(x_.ctx, ast.Store)) == 1:
                al_.add(nm_)

    def _names_exc(e_):
        return EF["exception"] in dump(e_) or any(isinstance(x_, ast.Name) and x_.id in al_ for x_ in ast.walk(e_))
    okk = len(rz) == 1 and (dump(rz[0].ast.exc) == "self." + EF["exception"] or (isinstance(rz[0].ast.exc, ast.Name) and rz[0].ast.exc.id in al_))
    for rz_ in rz[:1]:
        gds_ = [(t_, p_) for (t_, p_) in q.guards_of(gw, rz_) if _names_exc(t_)]
        ident = bool(gds_) and all(isinstance(t_, ast.Compare) and len(t_.ops) == 1 and isinstance(t_.ops[0], (ast.Is, ast.IsNot)) and
                                   isinstance(t_.comparators[0], ast.Constant) and t_.comparators[0].value is None for (t_, _p) in gds_)
        ck.require(ident, "C09.3", "%s: failure decided by `is None`" % q.fn(fw), "identity test of the stored exception with None",
                   "wait() decides between raising and returning by the truthiness of the stored exception (`%s`): an exception object that is "
                   "falsy (defines __bool__ / __len__) is not re-raised, the failed task reports a result" % [dump(t_) for (t_, _p) in gds_], q.loc(fw, rz_))
    # no exit of wait() avoids that test: a fast path returning before it reports a failed task as a plain result
    dw_ = dominators(gw)
    exc_tests = [n for n in gw.live_nodes() if n.kind in ("branch", "test") and _names_exc(n.test if n.kind == "branch" else n.ast)]
    for rn_ in [n for n in gw.live_nodes() if n.kind == "return"]:
        v_ = rn_.ast.value if rn_.ast is not None else None
        const_false = isinstance(v_, ast.Constant) and v_.value in (False, None)
        dom_ok = any(t_.id in dw_[rn_.id] for t_ in exc_tests)
        ck.require(dom_ok or const_false, "C09.3", "%s: `%s` after the exception test" % (q.fn(fw), q.stmt_text(rn_)[:40]), "dominated by the test of the stored exception",
                   "wait() can return `%s` without having looked at the stored exception (a fast path placed before the test): result() of a "
                   "task that raised then returns None instead of raising" % (dump(v_)[:40] if v_ is not None else "None"), q.loc(fw, rn_))
    ck.require(okk, "C09.3", "%s: raises the stored exception object" % q.fn(fw), "`raise self.%s`" % EF["exception"],
               "EventData.wait does not raise the stored exception object itself", q.loc(fw, fw.node))
    for cname, meths in (("EventData", ("wait", "data", "exception", "is_set")), ("FutureResult", ("result", "done"))):
        cobj = prog.cls(TP, cname)
        clx = ClassLocks(prog, cobj)
        for m in meths:
            fi = cobj.methods.get(m)
            if fi is None:
                raise AnalysisError("anchor vanished: %s.%s" % (cname, m))
            ws = [(n, a, txt) for (n, a, kind, txt) in clx.accesses(fi) if kind == "w"]
            ck.require(not ws, "C09.3", "%s: reader writes no field" % q.fn(fi), "read-only",
                       "the reader %s.%s modifies the stored outcome (`%s`): a second result()/wait() no longer reports the same "
                       "outcome" % (cname, m, ws[0][2] if ws else ""), q.loc(fi, ws[0][0]) if ws else "")
    from rules import c16 as _c16, common as _common
    _common.import_rules(ck, _c16, {"C16.1": "C09.3"})
    ck.floor("C09.3", 20)

    # ---- C09.4 FIFO ---------------------------------------------------------------------------------------------
    ck.require(cl.field_types.get("_queue") == "ext:queue.Queue", "C09.4", "threadpool.ThreadPool.__init__: self._queue", "queue.Queue",
               "the task queue is a %s, not a FIFO queue.Queue" % cl.field_types.get("_queue"), "jsonrpclib/threadpool.py")

    # ---- C09.5 no execution after stop returns -------------------------------------------------------------------
    g = cfg_of(fstop)
    d = dominators(g)
    flag_set = [n for n in g.live_nodes() for c in node_calls(n) if dump(c.func) == "self._done_event.set"]
    lock_enter = [n for n in g.live_nodes() if n.kind == "with_enter" and dump(n.ast.context_expr) == "self.__lock"]
    ck.require(len(flag_set) == 1 and len(lock_enter) >= 1 and all(flag_set[0].id in d[w.id] for w in lock_enter), "C09.5",
               "%s: flag set before the lock is taken" % q.fn(fstop), "set() dominates `with self.__lock`",
               "stop() does not set the stop flag before taking the pool lock: a thread registered concurrently can escape the snapshot",
               q.loc(fstop, fstop.node))
    snaps = [n for n in g.live_nodes() if n.kind == "stmt" and isinstance(n.ast, ast.Assign) and dump(n.ast.value) in ("self._threads[:]", "list(self._threads)")]
    ck.require(len(snaps) == 1 and "__lock" in cl.held(fstop, snaps[0]), "C09.5", "%s: thread list snapshot under the lock" % q.fn(fstop),
               "snapshot under self.__lock", "the list of threads to join is not copied under the pool lock", q.loc(fstop, fstop.node))
    joins = [(n, c) for n in g.live_nodes() for c in node_calls(n) if call_name(c) == "join" and isinstance(c.func.value, ast.Name)]
    okk = False
    for (n, c) in joins:
        t = prov.origin(g, n, c.func.value)
        if snaps and t == ("elem", prov.origin(g, snaps[0], snaps[0].ast.value)):
            alive = [b for b in g.live_nodes() if b.kind == "branch" and "is_alive()" in dump(b.test) and b.polarity and b.id in d[n.id]]
            okk = bool(alive)
    ck.require(okk, "C09.5", "%s: every snapshot member joined until not alive" % q.fn(fstop), "join inside `while thread.is_alive()` over the snapshot",
               "stop() does not wait for every registered worker to terminate", q.loc(fstop, fstop.node))
    g2 = cfg_of(fst)
    d2 = dominators(g2)
    starts = [n for n in g2.live_nodes() for c in node_calls(n) if call_name(c) == "start" and isinstance(c.func.value, ast.Name)]
    regs = [n for n in g2.live_nodes() for c in node_calls(n) if dump(c.func) == "self._threads.append"]
    flag_tests = [n for n in g2.live_nodes() if n.kind == "branch" and dump(n.test) == "self._done_event.is_set()" and not n.polarity]
    # the started thread is registered (stop() wakes and joins the registered threads only)
    from vlib.flow import postdominators as _pdm, NORMAL as _NORMAL
    pd2 = _pdm(g2, [g2.return_exit.id], _NORMAL)
    for sn_ in starts:
        tv = prov.origin(g2, sn_, [c for c in node_calls(sn_) if call_name(c) == "start"][0].func.value)
        reg_ok = [r_ for r_ in regs if r_.id in pd2[sn_.id] and
                  any(c.args and prov.origin(g2, r_, c.args[0]) == tv for c in node_calls(r_) if dump(c.func) == "self._threads.append")]
        ck.require(bool(reg_ok), "C09.5", "%s: the started thread is registered in self._threads" % q.fn(fst),
                   "append(thread) follows start() on every normal path",
                   "a worker is started without being registered in the thread list: stop() neither wakes nor joins it, so it keeps serving "
                   "the queue after stop() has returned", q.loc(fst, sn_))
    for n in starts + regs:
        ck.require("__lock" in cl.held(fst, n) and any(b.id in d2[n.id] for b in flag_tests), "C09.5",
                   "%s: `%s` under the lock after the flag test" % (q.fn(fst), q.stmt_text(n)), "guarded",
                   "a worker is started/registered without holding the pool lock or without re-testing the stop flag", q.loc(fst, n))
    g3 = cfg_of(frun)
    d3 = dominators(g3)
    get3 = [n for n in g3.live_nodes() for c in node_calls(n) if dump(c.func) == "self._queue.get"][0].id
    okk = any(b.kind == "branch" and dump(b.test) == "self._done_event.is_set()" and not b.polarity and b.id in d3[get3] for b in g3.live_nodes())
    ck.require(okk, "C09.5", "%s: flag re-tested before every get" % q.fn(frun), "loop condition tests the flag",
               "the worker loop does not test the stop flag before dequeuing", q.loc(frun, frun.node))

    # ---- C09.6 start ------------------------------------------------------------------------------------------------
    finit9 = prog.func(TP, "ThreadPool.__init__")
    gi9 = cfg_of(finit9)
    pdi9 = _pdm(gi9, [gi9.return_exit.id], _NORMAL)
    def _is_event(node, e):
        if dump(e) == "self._done_event":
            return True
        t = prov.origin(gi9, node, e)
        return t[0] == "call" and prov.show(t[1]).endswith("Event") and all(a_[0] == "call" for a_ in prov.value_alts(t))
    sets9 = set(n.id for n in gi9.live_nodes() for c in node_calls(n)
                if isinstance(c.func, ast.Attribute) and c.func.attr == "set" and not c.args and _is_event(n, c.func.value))
    clears9 = [n for n in gi9.live_nodes() for c in node_calls(n) if isinstance(c.func, ast.Attribute) and c.func.attr == "clear" and _is_event(n, c.func.value)]
    mk9 = [n for n in gi9.live_nodes() if n.kind == "stmt" and isinstance(n.ast, ast.Assign) and any(dump(t) == "self._done_event" for t in n.ast.targets)
           and _is_event(n, n.ast.value)]
    from vlib.flow import reachable_avoiding as _ra9
    # arguments are validated first (the constructor may leave by ValueError); every normal completion has set the event
    completes_unset = gi9.return_exit.id in _ra9(gi9, gi9.entry.id, sets9, lambda l: l != "exc")
    ck.require(len(mk9) == 1 and bool(sets9) and not completes_unset and not clears9, "C09.6",
               "%s: a new pool is in the stopped state" % q.fn(finit9), "the stop event is created, set, and stored in self._done_event",
               "the constructor does not leave the stop flag set: a new pool counts as running, start() is a no-op (no worker is created by "
               "start(), min_threads is not honoured) and tasks enqueued before start() are executed at once", q.loc(finit9, finit9.node))
    g = cfg_of(fstart)
    d = dominators(g)
    clr = [n for n in g.live_nodes() for c in node_calls(n) if dump(c.func) == "self._done_event.clear"]
    sts = [n for n in g.live_nodes() for c in node_calls(n) if dump(c.func) == "self.__start_thread"]
    ck.require(len(clr) == 1 and len(sts) >= 1 and all(clr[0].id in d[n.id] for n in sts), "C09.6", "%s: flag cleared before any __start_thread" % q.fn(fstart),
               "clear() dominates the thread starts", "start() launches workers before clearing the stop flag (they refuse to start)", q.loc(fstart, fstart.node))

    # ---- C09.7 lock discipline ----------------------------------------------------------------------------------------
    n7 = 0
    for fi in ci.methods.values():
        if fi.name == "__init__":
            continue
        for (n, attr, kind, txt) in cl.accesses(fi):
            if attr not in GUARDED:
                continue
            n7 += 1
            held = cl.held(fi, n)
            stmt = q.stmt_text(n)
            key = (fi.name, attr, kind)          # by function, field and kind of access - not by the spelling of the statement
            if "__lock" in held:
                ck.ok("C09.7", "%s: %s self.%s in `%s`" % (q.fn(fi), "write" if kind == "w" else "read", attr, stmt[:40]), "holds self.__lock", q.loc(fi, n))
            elif key in TRIAGED:
                ck.ok("C09.7", "%s: self.%s in `%s` [triaged]" % (q.fn(fi), attr, stmt[:40]), "outside the lock, triaged: " + TRIAGED[key], q.loc(fi, n))
            elif kind == "r" and _introspection_only(prog, fi):
                # a reporting accessor (repr, a read-only property) nobody in the package calls: what it returns decides nothing
                ck.ok("C09.7", "%s: self.%s in `%s` [introspection]" % (q.fn(fi), attr, stmt[:40]),
                      "unlocked read in an accessor that only reports the value and is not used by the package", q.loc(fi, n))
            else:
                ck.bad("C09.7", "%s: %s of self.%s in `%s`" % (q.fn(fi), "write" if kind == "w" else "read", attr, stmt[:50]),
                       "the pool state `%s` is %s without holding the pool lock" % (attr, "modified" if kind == "w" else "read"), q.loc(fi, n))
    ck.stat("guarded_field_accesses", n7)
    ck.floor("C09.7", 20)

    # ---- C09.8 worker accounting (shared with C10.7 / C10.7b) ------------------------------------------------------------
    from rules import c10
    common.import_rules(ck, c10, {"C10.7": "C09.8", "C10.7b": "C09.8", "C10.1": "C09.8", "C10.5": "C09.9", "C10.4": "C09.8", "C10.3": "C09.8"})
    # start(): the stop flag is cleared before the queue is measured - a task enqueued by another thread in between is then either seen
    # by start() (counted in its measure) or handled by enqueue()'s own growth test, which only starts workers while the flag is clear
    fst_ = prog.func(TP, "ThreadPool.start")
    gst_ = cfg_of(fst_)
    dst_ = dominators(gst_)
    clr_ = [n for n in gst_.live_nodes() for c in node_calls(n) if dump(c.func) == "self._done_event.clear"]
    qsz_ = [n for n in gst_.live_nodes() for c in node_calls(n) if call_name(c) == "qsize"]
    if not clr_ or not qsz_:
        raise AnalysisError("anchor vanished: _done_event.clear() / qsize() in ThreadPool.start")
    ck.require(all(any(c_.id in dst_[q_.id] for c_ in clr_) for q_ in qsz_), "C09.8", "%s: the stop flag is cleared before the queue is measured" % q.fn(fst_),
               "clear() dominates qsize()",
               "start() reads the queue size before it clears the stop flag: a task enqueued in between is not in the measure and enqueue() starts "
               "no worker for it while the flag is still set - with min_threads = 0 the running pool never executes it", q.loc(fst_, qsz_[0]))
    ck.floor("C09.8", 8)
    ck.floor("C09.9", 8)

    # ---- C09.10 the worker survives a failing task (shared with C10.8) -----------------------------------------------------
    common.check_inert_handlers(ck, "C09.10", scopes=("worker",))
    ck.floor("C09.10", 2)
