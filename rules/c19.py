"""C19 Transport faults are contained: no foreign results, and the proxy recovers."""
import ast
from vlib.model import AnalysisError, dump, kwarg, call_name
from vlib.cfg import cfg_of, node_calls, node_exprs
from vlib.flow import dominators, reachable_avoiding
from vlib import prov, q
from vlib.locks import ClassLocks
from rules import common

META = {
    "explanation": (
        "Decides: C19.1 in single_request the region send_request -> send_content -> getresponse -> parse_response lies in a "
        "try whose catch-all handler calls self.close() unconditionally (the call dominates the re-raise, no guard) and then "
        "re-raises: every exceptional exit drops the cached connection; C19.2 a value is returned only on the true edge of "
        "`response.status == 200` (exact equality), and every normal path on the false edge ends in raise TransportError(host + "
        "handler, response.status, ...); C19.3 a call returns only data derived from its own exchange: _request returns "
        "<own _run_request result>['result'], _run_request returns None only for an empty body and otherwise loads(<own "
        "transport result>), getparser builds a fresh parser and target per call, JSONTarget.close returns \"\" for no data and "
        "otherwise the join of what was fed to that target, and no method of the client-side classes stores per-response data "
        "on a long-lived object (allowed cross-call state: _connection, _extra_headers, verbose, the header stack); C19.4 the "
        "constructors of the three transports, of the Unix connection and of TransportError run the constructors of their bases on every "
        "normal path (the stdlib transport sets up the connection cache that close() and the recovery rely on; TransportError carries "
        "URL and status through ProtocolError), and UnixTransport.make_connection returns the connection it caches; C19.5 on the non-200 path the response is only drained (response.read()) under the true edge of getheader(`content-length`) with an absent or falsy default - a reply without a declared length is never read to the end of the stream, so the TransportError is always reached. C19.6 (imported from C02.6) a non-JSON body is a parse error because the default backend decodes with json.loads itself."),
    "does_not_decide": "recovery within one call, stale/foreign responses caused by the http.client connection state "
                       "machine or by the retry inside xmlrpc.client.Transport.request (external fault-sequence behaviour).",
    "rules": {"C19.6": "imported C02.6 (backend options, loader)",
              "C19.1": "handler structure + dominance", "C19.2": "normalised status test + dominance + raise-site arguments",
              "C19.3": "provenance of returned values + store scan against the allowed cross-call state table (spec A.10)",
              "C19.4": "must-call of base constructors on normal paths; provenance of make_connection's result",
              "C19.5": "guards of the drain call (dominating branches, constant default)"},
    "assumptions": ["xmlrpc.client.Transport.close() drops the cached connection; parse_response feeds the parser returned by getparser()"],
}


def check(ck):
    prog = ck.prog
    fs = prog.func("jsonrpc", "TransportMixIn.single_request")
    g = cfg_of(fs)
    d = dominators(g)
    # ---- C19.1 ---------------------------------------------------------------------------------
    region_calls = ("send_request", "send_content", "getresponse", "parse_response")
    sites = {}
    for n in g.live_nodes():
        for c in node_calls(n):
            if call_name(c) in region_calls:
                sites[call_name(c)] = n
    if set(sites) != set(region_calls):
        raise AnalysisError("anchor vanished: %s in single_request" % sorted(set(region_calls) - set(sites)))
    tries = [t for t in ast.walk(fs.node) if isinstance(t, ast.Try)]
    for nm, n in sites.items():
        enc = [t for t in tries if q.try_body_contains(t, n.ast)]
        okk = bool(enc) and any(h.type is None or dump(h.type) in ("BaseException", "Exception") for h in enc[0].handlers)
        ck.require(okk, "C19.1", "%s: %s() inside the catch-all try" % (q.fn(fs), nm), "guarded",
                   "%s() is outside the try whose handler closes the connection: a fault there leaves the cached connection in a broken state" % nm, q.loc(fs, n))
    # the handlers of the try that encloses the exchange (a try elsewhere in the function - e.g. around the draining of an error
    # reply - has its own business)
    region_tries = [t for t in tries if all(q.try_body_contains(t, n_.ast) for n_ in sites.values())]
    hs = [h for h in g.live_nodes() if h.kind == "handler" and any(h.ast in t.handlers for t in region_tries)]
    ck.require(len(hs) == 1, "C19.1", "%s: one handler" % q.fn(fs), "single catch-all handler", "found %d handlers" % len(hs), q.loc(fs, fs.node))
    for h in hs:
        def _is_close(c):
            # self.close(), or - when a new override of close() has been expanded in place - the base implementation it delegates to
            f = c.func
            if dump(f) == "self.close":
                return True
            if isinstance(f, ast.Attribute) and f.attr == "close":
                if isinstance(f.value, ast.Call) and isinstance(f.value.func, ast.Name) and f.value.func.id == "super":
                    return True
                if c.args and isinstance(c.args[0], ast.Name) and c.args[0].id == "self" and isinstance(f.value, (ast.Name, ast.Attribute)):
                    return True
            return False
        closes = [n for n in g.live_nodes() for c in node_calls(n) if _is_close(c) and any(sub is n.ast for st_ in h.ast.body for sub in ast.walk(st_))]
        rer = [n for n in g.live_nodes() if n.kind == "raise" and n.ast.exc is None and any(sub is n.ast for st_ in h.ast.body for sub in ast.walk(st_))]
        ck.require(len(closes) == 1 and len(rer) == 1 and closes[0].id in d[rer[0].id], "C19.1", "%s: handler closes then re-raises" % q.fn(fs),
                   "self.close() dominates the re-raise", "the handler does not call self.close() on every path before re-raising", q.loc(fs, h))
        from rules import common as _cmp19
        _cmp19.check_propagates(ck, "C19.1", fs, g)
        if closes:
            guards = [g.nodes[i] for i in d[closes[0].id] if g.nodes[i].kind == "branch" and any(sub is g.nodes[i].test for st_ in h.ast.body for sub in ast.walk(st_))]
            ck.require(not guards, "C19.1", "%s: self.close() is unconditional" % q.fn(fs), "no guard",
                       "the connection is closed only under `%s`: after a fault outside that condition (e.g. a refused connection, when no "
                       "socket exists yet) the cached HTTPConnection stays in its broken state and every later call fails" % [dump(b.test) for b in guards],
                       q.loc(fs, closes[0]))

    # close() of a package transport really closes: an override must reach the base close on every normal path
    from vlib.flow import postdominators, NORMAL
    for ci in prog.classes.values():
        if ci.module != "jsonrpc" or "close" not in ci.methods:
            continue
        is_transport = any("Transport" in b for b in ci.bases) or "Transport" in ci.name
        if not is_transport:
            continue
        fcl = ci.methods["close"]
        gcl = cfg_of(fcl)
        base_calls = [n for n in gcl.live_nodes() for c in node_calls(n) if call_name(c) == "close" and dump(c.func.value) != "self"
                      and ("Transport" in dump(c.func.value) or "super" in dump(c.func.value))]
        if not base_calls:
            # a re-implementation (no call of the inherited close at all): the cached connection object must be closed whenever there is
            # one - under tests of the cache entry itself (None / empty), never of the state of the connection (its socket, a flag)
            dcl = dominators(gcl)
            own_close = []
            for n_ in gcl.live_nodes():
                for c_ in node_calls(n_):
                    if isinstance(c_.func, ast.Attribute) and c_.func.attr == "close" and dump(c_.func.value) != "self" and \
                            prov.contains(prov.origin(gcl, n_, c_.func.value), lambda x: x == ("attr", ("param", "self"), "_connection")):
                        own_close.append((n_, c_))
            okk = bool(own_close)
            why = "closes nothing taken from self._connection"
            for (n_, c_) in own_close:
                for d_ in dcl[n_.id]:
                    b_ = gcl.nodes[d_]
                    if b_.kind != "branch":
                        continue
                    if any(isinstance(x, ast.Attribute) and not (isinstance(x.value, ast.Name) and x.value.id == "self" and x.attr == "_connection")
                           for x in ast.walk(b_.test)) or any(isinstance(x, ast.Call) for x in ast.walk(b_.test)):
                        okk = False
                        why = "closes the cached connection only under `%s`" % dump(b_.test)[:60]
            ck.require(okk, "C19.1", "%s: the override of close() always reaches the base close" % q.fn(fcl), "the cached connection is closed whenever there is one",
                       "%s.close() re-implements the inherited close() and %s: after a fault outside that condition (a refused connection, when no "
                       "socket exists yet) single_request's handler closes nothing, the cached connection keeps its broken state and every later "
                       "call fails" % (ci.name, why), q.loc(fcl, fcl.node))
            continue
        pdc = postdominators(gcl, [gcl.return_exit.id], NORMAL)
        okk = any(n.id in pdc[gcl.entry.id] for n in base_calls)
        ck.require(okk, "C19.1", "%s: the override of close() always reaches the base close" % q.fn(fcl), "base close post-dominates the entry",
                   "%s.close() does not call the inherited close() on every path: after a fault single_request's handler `closes` nothing, the cached "
                   "connection keeps its broken state and every later call fails" % ci.name, q.loc(fcl, fcl.node))

    # ---- C19.2 only 200 is parsed ---------------------------------------------------------------------
    def own_status(node, e):
        """e is <the response obtained from getresponse()>.status"""
        if not (isinstance(e, ast.Attribute) and e.attr == "status"):
            return False
        t = prov.origin(g, node, e.value)
        return all(a[0] == "call" and a[1][0] == "attr" and a[1][2] == "getresponse" for a in prov.value_alts(t))

    def status_is_200(node, test):
        if isinstance(test, ast.Compare) and len(test.ops) == 1 and isinstance(test.ops[0], ast.Eq):
            l, r = test.left, test.comparators[0]
            for (x, y) in ((l, r), (r, l)):
                try:
                    yv = prog.const("jsonrpc", y)
                except AnalysisError:
                    yv = None
                if type(yv) is int and yv == 200 and own_status(node, x):
                    return True
        return False
    rets = [n for n in g.live_nodes() if n.kind == "return" and n.ast is not None and n.ast.value is not None]
    ck.require(len(rets) == 1, "C19.2", "%s: one value-returning exit" % q.fn(fs), "single return", "found %d value returns" % len(rets), q.loc(fs, fs.node))
    for rn in rets:
        st_tests = [g.nodes[i] for i in d[rn.id] if g.nodes[i].kind == "branch" and "status" in dump(g.nodes[i].test)]
        okk = len(st_tests) == 1 and st_tests[0].polarity and status_is_200(st_tests[0], st_tests[0].test)
        ck.require(okk, "C19.2", "%s: parsed only when status == 200" % q.fn(fs), "`response.status == 200` true edge",
                   "a response is parsed under %s: replies other than 200 (bodiless 2xx, ...) are treated as results instead of raising "
                   "TransportError" % [dump(b.test) + ("" if b.polarity else " [false]") for b in st_tests], q.loc(fs, rn))
        t = prov.origin(g, rn, rn.ast.value)
        okk = t[0] == "call" and t[1] == ("attr", ("param", "self"), "parse_response") and t[2] and t[2][0][0] == "call" and \
            t[2][0][1][0] == "attr" and t[2][0][1][2] == "getresponse"
        ck.require(okk, "C19.2", "%s: returns parse_response(<own response>)" % q.fn(fs), "own response parsed",
                   "single_request returns %s" % prov.show(t)[:80], q.loc(fs, rn))
    rz = [n for n in g.live_nodes() if n.kind == "raise" and n.ast.exc is not None and "TransportError" in dump(n.ast.exc)]
    rz_call = dict((n.id, (n, n.ast.exc)) for n in rz if isinstance(n.ast.exc, ast.Call))
    # `error = TransportError(...)` built first (while the response is at hand) and raised after the clean-up: `raise error`
    for n in g.live_nodes():
        if n.kind == "raise" and isinstance(n.ast.exc, ast.Name) and n not in rz:
            defs_ = prov.rd_of(g).get(n.id, {}).get(n.ast.exc.id) or ()
            dn_ = [g.nodes[d_] for d_ in defs_]
            if dn_ and all(x.kind == "stmt" and isinstance(x.ast, ast.Assign) and isinstance(x.ast.value, ast.Call) and
                           "TransportError" in dump(x.ast.value.func) for x in dn_) and len(dn_) == 1:
                rz.append(n)
                rz_call[n.id] = (dn_[0], dn_[0].ast.value)
    rz = [n for n in rz if n.id in rz_call]
    ck.require(len(rz) == 1, "C19.2", "%s: raise TransportError" % q.fn(fs), "present", "no TransportError is raised for a non-200 reply", q.loc(fs, fs.node))
    for rn in rz:
        en_, call_ = rz_call[rn.id]
        a = call_.args
        # the URL: an expression built from the host and the handler this call was given (further arguments are the exception's own)
        turl = prov.origin(g, en_, a[0]) if a else None
        has_url = turl is not None and prov.contains(turl, lambda x: x == ("param", "host")) and prov.contains(turl, lambda x: x == ("param", "handler"))
        okk = len(a) >= 4 and has_url and own_status(en_, a[1])
        ck.require(okk, "C19.2", "%s: TransportError(host + handler, response.status, ...)" % q.fn(fs), "URL and status",
                   "TransportError is raised with `%s`" % [dump(x) for x in a], q.loc(fs, rn))
        # every normal path on the false edge of the status test ends in this raise
        fb = [n for n in g.live_nodes() if n.kind == "branch" and status_is_200(n, n.test) and not n.polarity]
        for b in fb:
            reach = reachable_avoiding(g, b.id, set([rn.id]), lambda l: l != "exc")
            ck.require(g.return_exit.id not in reach, "C19.2", "%s: non-200 paths end in TransportError" % q.fn(fs), "no return on the false edge",
                       "a non-200 reply can lead to a normal return", q.loc(fs, b))

    # on that path nothing but the response's own accessors and the TransportError constructor runs: anything else that can
    # raise (decoding the body, formatting, parsing) would replace the TransportError by an exception without URL and status
    from vlib.model import is_logging_call
    fb2 = [n for n in g.live_nodes() if n.kind == "branch" and status_is_200(n, n.test) and not n.polarity]
    n2b = 0
    for b in fb2:
        region = reachable_avoiding(g, b.id, set(r_.id for r_ in rz), lambda l: l != "exc")
        for nid in sorted(region):
            n_ = g.nodes[nid]
            for c in node_calls(n_):
                n2b += 1
                own = isinstance(c.func, ast.Attribute) and c.func.attr in ("getheader", "getheaders", "read", "close", "isclosed") and \
                    all(a[0] == "call" and a[1][0] == "attr" and a[1][2] == "getresponse" for a in prov.value_alts(prov.origin(g, n_, c.func.value)))
                def _harmless_helper(c_):
                    # a package helper that itself only uses the accessors of the response it is given (and builtins / logging)
                    hf = prog.resolve_call(fs, c_)
                    if not hasattr(hf, "node"):
                        return False
                    if not any(all(a[0] == "call" and a[1][0] == "attr" and a[1][2] == "getresponse" for a in prov.value_alts(prov.origin(g, n_, x_))) for x_ in c_.args):
                        return False
                    for cc in [x for x in ast.walk(hf.node) if isinstance(x, ast.Call)]:
                        if is_logging_call(cc):
                            continue
                        if isinstance(cc.func, ast.Name) and cc.func.id in ("print", "repr", "len", "bool", "isinstance") and not cc.keywords:
                            continue        # (total on what the accessors return; str(b, enc) / int(text) can raise and are not listed)
                        if isinstance(cc.func, ast.Attribute) and cc.func.attr in ("getheader", "getheaders", "read", "close", "isclosed") and \
                                isinstance(cc.func.value, ast.Name) and cc.func.value.id in hf.params:
                            continue
                        if dump(cc.func) == "self.close" and not cc.args and not cc.keywords:
                            continue        # (dropping the connection: C19.1's own remedy)
                        return False
                    # an accessor that can fail (read) must sit in a catch-all of the helper: its failure must not replace the TransportError
                    for cc in [x for x in ast.walk(hf.node) if isinstance(x, ast.Call) and isinstance(x.func, ast.Attribute) and x.func.attr == "read"]:
                        guarded = any(isinstance(t_, ast.Try) and any(x is cc for b_ in t_.body for x in ast.walk(b_)) and
                                      any(h_.type is None or dump(h_.type) in ("Exception", "BaseException") for h_ in t_.handlers)
                                      for t_ in ast.walk(hf.node))
                        if not guarded:
                            return False
                    return True
                closes_self = dump(c.func) == "self.close" and not c.args      # (dropping the connection of a failed exchange: C19.1's own remedy)
                builds_te = any(c is rz_call[r_.id][1] for r_ in rz)            # (the TransportError itself, prepared before the clean-up)
                if not (own or is_logging_call(c) or closes_self or builds_te or _harmless_helper(c)) and dump(c.func).startswith("self."):
                    hf2_ = prog.resolve_call(fs, c)
                    if hasattr(hf2_, "node") and common.is_new_function(hf2_) and \
                            any(all(a[0] == "call" and a[1][0] == "attr" and a[1][2] == "getresponse" for a in prov.value_alts(prov.origin(g, n_, x_))) for x_ in c.args):
                        # a new method of the transport that is handed the response and does more than use its accessors
                        raise AnalysisError("`%s` on the non-200 path: a helper that processes the error reply (whether it can raise instead of "
                                            "the TransportError is not modelled)" % dump(c)[:50])
                ck.require(own or is_logging_call(c) or closes_self or builds_te or _harmless_helper(c), "C19.2", "%s: `%s` on the non-200 path" % (q.fn(fs), dump(c)[:40]), "accessor of the own response",
                           "`%s` runs between the status test and `raise TransportError`: if it raises (a body that does not decode, an "
                           "unexpected type), the caller gets that exception instead of the TransportError carrying URL and status"
                           % dump(c)[:60], q.loc(fs, n_))
    # `response.close()` declares the exchange complete whatever was read: http.client then accepts the next request on the same
    # socket while bytes of this exchange (the final reply after an interim 1xx one, an undeclared body) are still to come, and
    # every later call returns the reply of the one before.  Closing the response is fine when the connection goes with it.
    for b in fb2:
        region = reachable_avoiding(g, b.id, set(r_.id for r_ in rz), lambda l: l != "exc")
        rclose, sclose = [], set()
        for nid in sorted(region):
            n_ = g.nodes[nid]
            for c in node_calls(n_):
                if dump(c.func) == "self.close" and not c.args:
                    sclose.add(nid)
                    continue
                hf_ = prog.resolve_call(fs, c) if not isinstance(c.func, ast.Attribute) or dump(c.func).startswith("self.") else None
                if hasattr(hf_, "node"):
                    # a helper that drops the connection whatever happens (self.close() at its top level or in a `finally` at its top level)
                    def _uncond_close(body_):
                        for st_ in body_:
                            if isinstance(st_, ast.Expr) and isinstance(st_.value, ast.Call) and dump(st_.value.func) == "self.close" and not st_.value.args:
                                return True
                            if isinstance(st_, ast.Try) and _uncond_close(st_.finalbody):
                                return True
                        return False
                    if _uncond_close(hf_.node.body):
                        sclose.add(nid)
                in_helper = hasattr(hf_, "node") and any(isinstance(x, ast.Call) and isinstance(x.func, ast.Attribute) and x.func.attr == "close" and
                                                         isinstance(x.func.value, ast.Name) and x.func.value.id in hf_.params for x in ast.walk(hf_.node))
                direct = isinstance(c.func, ast.Attribute) and c.func.attr == "close" and \
                    all(a[0] == "call" and a[1][0] == "attr" and a[1][2] == "getresponse" for a in prov.value_alts(prov.origin(g, n_, c.func.value)))
                if direct or in_helper:
                    rclose.append((n_, c))
        for (n_, c) in rclose:
            n2b += 1
            okk = all(r_.id not in reachable_avoiding(g, b.id, sclose, lambda l: l != "exc") for r_ in rz)
            ck.require(okk, "C19.2", "%s: `%s` on the non-200 path" % (q.fn(fs), dump(c)[:40]), "the connection is closed as well",
                       "`%s` marks the non-200 reply complete without reading it to its end and keeps the connection: what is still to come of "
                       "this exchange (the final reply after an interim 1xx one, a body without Content-Length) is read as the reply of the "
                       "next call, and every later call returns the result of the one before" % dump(c)[:50], q.loc(fs, n_))
    for rn in rz:
        for i_, want_ in ((2, "reason"), (3, "msg")):
            en_, call_ = rz_call[rn.id]
            if len(call_.args) > i_:
                a_ = call_.args[i_]
                okk = all(t_[0] == "attr" and t_[2] == want_ and
                          all(r_[0] == "call" and r_[1][0] == "attr" and r_[1][2] == "getresponse" for r_ in prov.value_alts(t_[1]))
                          for t_ in prov.value_alts(prov.origin(g, en_, a_)))
                ck.require(okk, "C19.2", "%s: TransportError(..., response.%s)" % (q.fn(fs), want_), "taken from the own response",
                           "TransportError is raised with `%s` instead of the response's own %s" % (dump(a_), want_), q.loc(fs, rn))

    # ---- C19.5 the drain of a non-200 reply cannot wait for the end of the stream -----------------------------------------------
    # response.read() without a declared length reads until the peer closes: on the error path it may only run when the
    # reply declares a Content-Length, i.e. under the true edge of getheader("content-length"[, <falsy default>]).
    n5 = [0]

    def _scan(fs, g, d, is_resp):
      for n in g.live_nodes():
          for c in node_calls(n):
              if not (isinstance(c.func, ast.Attribute) and c.func.attr in ("read", "readlines", "readline", "readinto", "read1")):
                  continue
              t = prov.origin(g, n, c.func.value)
              if not all(is_resp(a) for a in prov.value_alts(t)):
                  continue
              n5[0] += 1
              ok5, why = False, "the read is not guarded by a Content-Length test"
              for (tst, pol) in q.guards_of(g, n, d):
                  if isinstance(tst, ast.Call) and isinstance(tst.func, ast.Attribute) and tst.func.attr == "getheader" and tst.args:
                      try:
                          nm = prog.const("jsonrpc", tst.args[0])
                      except AnalysisError:
                          nm = None
                      if not (isinstance(nm, str) and nm.lower() == "content-length"):
                          continue
                      dflt = tst.args[1] if len(tst.args) > 1 else kwarg(tst, "default", 1)
                      try:
                          dv = prog.const("jsonrpc", dflt) if dflt is not None else None
                          known = True
                      except AnalysisError:
                          dv, known = None, False
                      if pol and known and not dv:
                          ok5 = True
                      elif pol:
                          why = "the Content-Length test has the default `%s`, which is true when the header is absent" % dump(dflt)
              if (c.args or c.keywords) and any(dump(cc.func) == "self.close" for x in g.live_nodes() for cc in node_calls(x)
                                               if x.id in reachable_avoiding(g, n.id, set(), lambda l: True)):
                  # a bounded read followed by self.close(): fine if the connection is dropped whenever something is left - which depends
                  # on a completeness test over http.client state (isclosed(), length) that the rules do not model
                  raise AnalysisError("%s reads a bounded part of the error body (`%s`) and closes the connection afterwards under a condition "
                                      "the rules do not model" % (q.fn(fs), dump(c)))
              ck.require(not c.args and not c.keywords, "C19.5", "%s: `%s` drains the whole body" % (q.fn(fs), dump(c)), "read() without a size",
                         "`%s` reads only a part of the error body: what is left stays on the kept-alive connection and the next call on "
                         "this proxy fails (ResponseNotReady) or reads the remainder as its own reply" % dump(c), q.loc(fs, n))
              ck.require(ok5, "C19.5", "%s: `%s` on the error path" % (q.fn(fs), dump(c)), "only when a Content-Length is declared",
                         "a non-200 reply is drained with `%s` although %s: for a reply without Content-Length on a connection the peer keeps "
                         "open the call blocks until the end of the stream - it neither returns nor raises TransportError" % (dump(c), why), q.loc(fs, n))
    _own = lambda a: a[0] == "call" and a[1][0] == "attr" and a[1][2] == "getresponse"      # noqa: E731
    _scan(fs, g, d, _own)
    # helpers of the error path that are handed the response (a reader of the error page): the same guard inside them
    for n_h in g.live_nodes():
        for c_h in node_calls(n_h):
            hf_ = prog.resolve_call(fs, c_h)
            if not hasattr(hf_, "node") or hf_.fq == fs.fq:
                continue
            params_h = [p_ for p_ in hf_.params if p_ != "self"]
            for i_h, a_h in enumerate(c_h.args):
                if i_h < len(params_h) and all(_own(x) for x in prov.value_alts(prov.origin(g, n_h, a_h))):
                    gh_ = cfg_of(hf_)
                    _scan(hf_, gh_, dominators(gh_), lambda a, p_=params_h[i_h]: a == ("param", p_))
    n5 = n5[0]
    ck.ok("C19.5", "%s: reads of the response on the error path" % q.fn(fs), "%d examined" % n5, q.loc(fs, fs.node))
    ck.floor("C19.5", 1)

    # ---- C19.3 own result only ----------------------------------------------------------------------------
    freq = prog.func("jsonrpc", "ServerProxy._request")
    gq = cfg_of(freq)
    for rn in [n for n in gq.live_nodes() if n.kind == "return"]:
        t = prov.origin(gq, rn, rn.ast.value) if rn.ast is not None and rn.ast.value is not None else ("const", None)
        okk = t[0] == "item" and t[1][0] == "call" and t[1][1] == ("attr", ("param", "self"), "_run_request") and \
            t[1][2] and t[1][2][0][0] == "call" and prov.show(t[1][2][0][1]) == "dumps"
        ck.require(okk, "C19.3", "%s: returns data of its own exchange" % q.fn(freq), "<_run_request(dumps(own params))>['result']",
                   "_request returns %s" % prov.show(t)[:80], q.loc(freq, rn))
    frun = prog.func("jsonrpc", "ServerProxy._run_request")
    gr = cfg_of(frun)
    dr = dominators(gr)
    for rn in [n for n in gr.live_nodes() if n.kind == "return"]:
        if q.returns_none_literal(rn):
            continue
        t = prov.origin(gr, rn, rn.ast.value)
        okk = t[0] == "call" and t[1] == ("global", "loads") and t[2] and t[2][0][0] == "call" and t[2][0][1][0] == "attr" and t[2][0][1][2] == "request" \
            and t[2][0][2] and len(t[2][0][2]) >= 3 and t[2][0][2][2] == ("param", "request")
        ck.require(okk, "C19.3", "%s: returns loads(<own transport result>)" % q.fn(frun), "own reply decoded",
                   "_run_request returns %s" % prov.show(t)[:90], q.loc(frun, rn))
    fgp = prog.func("jsonrpc", "TransportMixIn.getparser")
    gp = cfg_of(fgp)
    for rn in [n for n in gp.live_nodes() if n.kind == "return"]:
        t = prov.origin(gp, rn, rn.ast.value) if rn.ast is not None and rn.ast.value is not None else ("const", None)
        okk = t[0] == "tuple" and len(t[1]) == 2 and t[1][0][0] == "call" and t[1][0][1] == ("global", "JSONParser") and \
            t[1][1] == ("call", ("global", "JSONTarget"), (), ()) and t[1][0][2] == (t[1][1],)
        ck.require(okk, "C19.3", "%s: fresh parser and target per call" % q.fn(fgp), "(JSONParser(target), target) with target = JSONTarget()",
                   "getparser returns %s: a parser/target that outlives one response can hand a previous response's text to a later call"
                   % prov.show(t)[:90], q.loc(fgp, rn))
    fcl = prog.func("jsonrpc", "JSONTarget.close")
    gc = cfg_of(fcl)
    dc = dominators(gc)
    for rn in [n for n in gc.live_nodes() if n.kind == "return"]:
        empty = any(gc.nodes[i].kind == "branch" and dump(gc.nodes[i].test) == "self.data" and not gc.nodes[i].polarity for i in dc[rn.id])
        t = prov.origin(gc, rn, rn.ast.value) if rn.ast is not None and rn.ast.value is not None else ("const", None)
        if empty:
            ck.require(t == ("const", ""), "C19.3", "%s: no data -> \"\"" % q.fn(fcl), "returns \"\"",
                       "for a response without body JSONTarget.close returns %s (must be \"\", so that the call raises instead of seeing an "
                       "earlier response)" % prov.show(t), q.loc(fcl, rn))
        else:
            okk = prov.contains(t, lambda x: x[0] == "call" and x[1][0] == "attr" and x[1][2] == "join" and
                                x[2] == (("attr", ("param", "self"), "data"),))
            ck.require(okk, "C19.3", "%s: returns the join of the fed data" % q.fn(fcl), "join(self.data)",
                       "JSONTarget.close returns %s" % prov.show(t)[:80], q.loc(fcl, rn))
    nb = [n for n in gc.live_nodes() if n.kind == "branch" and dump(n.test) == "self.data"]
    ck.require(bool(nb), "C19.3", "%s: empty-buffer test present" % q.fn(fcl), "`if not self.data`", "JSONTarget.close has no empty-buffer case", q.loc(fcl, fcl.node))
    from rules import common as _cm19s
    _cm19s.check_client_state(ck, "C19.3")
    from rules import common as _cm19
    _cm19.check_no_shared_mutable(ck, "C19.3", modules=("jsonrpc",))
    ck.floor("C19.3", 8)

    # the client's own exceptions are not OSErrors: xmlrpc.client.Transport.request retries a request when single_request raises an
    # OSError whose errno is ECONNRESET / ECONNABORTED / EPIPE, and OSError.__init__(code, text) stores the first argument as errno
    import builtins as _bi
    for cname in ("ProtocolError", "AppError", "TransportError"):
        ci_ = prog.classes.get("jsonrpc." + cname)
        if ci_ is None:
            raise AnalysisError("anchor vanished: jsonrpc.%s" % cname)
        bad_b = []
        for b_ in ci_.bases:
            nm_ = b_.split(":")[-1].split(".")[-1] if isinstance(b_, str) else ""
            k_ = getattr(_bi, nm_, None)
            if (isinstance(k_, type) and issubclass(k_, OSError)) or nm_ in ("error", "timeout", "HTTPException"):
                bad_b.append(nm_)
        ck.require(not bad_b, "C19.4", "jsonrpc.%s: bases" % cname, "not an OSError",
                   "%s derives from %s: the standard-library transport treats an OSError raised by single_request as a connection fault and, "
                   "when its errno (= the first constructor argument, here the HTTP status) is a reset / abort / pipe code, silently sends the "
                   "request again instead of letting the error reach the caller" % (cname, bad_b), ci_.node.lineno and "jsonrpclib/jsonrpc.py:%d" % ci_.node.lineno)

    # ---- C19.4 constructor chain of the client classes; the Unix transport returns the connection it caches ----------------------
    pass  # (common is imported at module level)
    common.check_base_constructors(ck, "C19.4", classes=[k for k in common.BASE_INITS if k.startswith("jsonrpc.")])
    # TransportError hands its four arguments to ProtocolError.__init__(url, errcode, errmsg, headers) in order
    fte = prog.func("jsonrpc", "TransportError.__init__")
    gte = cfg_of(fte)
    bi = [(n, c) for n in gte.live_nodes() for c in node_calls(n)
          if dump(c.func) in ("ProtocolError.__init__", "super().__init__", "super(TransportError, self).__init__")]
    okk = False
    if len(bi) == 1 and not bi[0][1].keywords and len(fte.params) >= 5:
        # (further, optional parameters of TransportError - a body, headers - are its own business: the base gets the first four)
        got = [prov.origin(gte, bi[0][0], a) for a in bi[0][1].args]
        want = [("param", p_) for p_ in fte.params[:5]]
        extra_ok = len(fte.params) == 5 or len(fte.node.args.defaults) >= len(fte.params) - 5
        okk = extra_ok and got == (want if dump(bi[0][1].func) == "ProtocolError.__init__" else want[1:])
    ck.require(okk, "C19.4", "%s: ProtocolError.__init__(self, url, errcode, errmsg, msg)" % q.fn(fte), "all four arguments, in order",
               "TransportError does not initialise its base with (url, errcode, errmsg, msg): raising it for a non-200 reply fails (TypeError) or "
               "loses the URL / status", q.loc(fte, fte.node))
    for p_ in fte.params[1:]:
        st_ = [n for n in gte.live_nodes() if n.kind == "stmt" and isinstance(n.ast, ast.Assign) and any(dump(t_) == "self." + p_ for t_ in n.ast.targets)]
        okk = len(st_) == 1 and prov.origin(gte, st_[0], st_[0].ast.value) == ("param", p_)
        ck.require(okk, "C19.4", "%s: self.%s = %s" % (q.fn(fte), p_, p_), "each detail kept under its own name",
                   "TransportError.%s does not hold the `%s` it was raised with (URL and status are read from these attributes)" % (p_, p_), q.loc(fte, fte.node))
    fmc = prog.func("jsonrpc", "UnixTransport.make_connection")
    gmc = cfg_of(fmc)
    _stores = [n for n in gmc.live_nodes() if n.kind == "stmt" and isinstance(n.ast, ast.Assign) and any(dump(t_) == "self._connection" for t_ in n.ast.targets)]
    _dmc = dominators(gmc)
    for (rn, val) in q.return_sources(fmc):
        t = prov.origin(gmc, rn, val) if val is not None else ("const", None)
        okk = t == ("item", ("attr", ("param", "self"), "_connection"), ("const", 1))
        if not okk and val is not None and len(_stores) == 1 and isinstance(_stores[0].ast.value, ast.Tuple) and \
                len(_stores[0].ast.value.elts) == 2 and isinstance(_stores[0].ast.value.elts[1], ast.Name) and \
                rn.kind == "stmt" and isinstance(rn.ast, ast.Assign) and len(rn.ast.targets) == 1 and isinstance(rn.ast.targets[0], ast.Name) and \
                rn.ast.targets[0].id == _stores[0].ast.value.elts[1].id and \
                rn.id in (prov.rd_of(gmc).get(_stores[0].id, {}).get(rn.ast.targets[0].id) or ()) and \
                gmc.return_exit.id not in reachable_avoiding(gmc, rn.id, set([_stores[0].id]), lambda l: l != "exc"):
            okk = True      # (the returned local is the one stored as the cache entry on the way out: the same object)
        if not okk and val is not None and isinstance(val, ast.Call) and dump(val.func).startswith("self.") and \
                hasattr(prog.resolve_call(fmc, val), "node") and common.is_new_function(prog.resolve_call(fmc, val)):
            raise AnalysisError("UnixTransport.make_connection returns the result of the new method `%s`: whether that is the cached connection is not modelled"
                                % dump(val.func))
        ck.require(okk, "C19.4", "%s: `%s`" % (q.fn(fmc), q.stmt_text(rn)[:50]), "returns self._connection[1]",
                   "make_connection returns %s, not the connection object it caches in self._connection: every exchange over a Unix socket "
                   "(or every one after the first) has no connection to use" % prov.show(t)[:60], q.loc(fmc, rn))
    stores = [n for n in gmc.live_nodes() if n.kind == "stmt" and isinstance(n.ast, ast.Assign) and any(dump(t_) == "self._connection" for t_ in n.ast.targets)]
    okk = len(stores) == 1 and isinstance(stores[0].ast.value, ast.Tuple) and len(stores[0].ast.value.elts) == 2 and \
        all(a_ == ("param", "host") or (a_[0] == "attr" and a_[1] == ("param", "self")) for a_ in prov.value_alts(prov.origin(gmc, stores[0], stores[0].ast.value.elts[0]))) and \
        all(a_[0] == "call" and a_[1] in (("global", "UnixHTTPConnection"), ("name", "UnixHTTPConnection"))
            for a_ in prov.value_alts(prov.origin(gmc, stores[0], stores[0].ast.value.elts[1])))
    ck.require(okk, "C19.4", "%s: cache entry" % q.fn(fmc), "self._connection = host, UnixHTTPConnection(path)",
               "the connection cache is not filled with (host key, new Unix connection)", q.loc(fmc, fmc.node))
    ck.floor("C19.4", 8)

    # ---- C19.6 non-JSON bodies are errors (shared with C02.6) ------------------------------------------------------------------
    from rules import c02 as _c02t9, common as _cm196
    _cm196.import_rules(ck, _c02t9, {"C02.6": "C19.6"})
    ck.floor("C19.6", 3)
