"""C04 Notifications are executed exactly once and never answered."""
import ast
from vlib.model import AnalysisError, dump, kwarg, call_name
from vlib.cfg import cfg_of, node_calls
from vlib.flow import Explorer, states_at, count_paths, dominators, reachable_avoiding
from vlib import prov, q, shape, spec
from rules import common

META = {
    "explanation": (
        "Decides, on every path of the server's single-entry dispatcher: C04.1 exactly one dispatch event "
        "(pool enqueue of the dispatcher, custom dispatch call, or default _dispatch call) happens before any "
        "normal return and never two; C04.2 every path on which the notification predicate is true returns the "
        "literal None, exceptional handlers included; C04.3 the predicate is true exactly for id absent / None / '' "
        "(abstractly evaluated over the partition of id values induced by the constants); C04.4 the pooled branch "
        "enqueues the same callee with the same arguments as the synchronous branch calls; C04.5 the client "
        "notification call returns nothing and Payload.notify drops the id for 2.0 and nulls it for 1.0; C04.6 in the batch and the "
        "single path of _unmarshaled_dispatch every entry accepted by validate_request reaches _marshaled_single_dispatch on all "
        "normal paths (no further rejection); C04.7 (imported from C02.1) no exception can leave the dispatcher: an escaping exception "
        "on a notification path is turned into an HTTP 500 error object by the request handler, i.e. the notification is answered; C04.8 "
        "(structural part of the pooled case, imported from C09.2 / C10.7 / C10.7b) a worker of the notification pool executes each "
        "dequeued task exactly once, an idle worker retires only when the other idle workers outnumber the waiting tasks, and every "
        "queued task is counted, so a notification accepted by the pool is not left without a worker by the accounting; C04.9 some "
        "layer of the dispatcher catches every exception of the callable, BaseException included: a notification whose method raises "
        "SystemExit / KeyboardInterrupt is not answered by the HTTP layer's error object.; C04.10 (shared) a 1.0 notification (`id`: null) is accepted by validate_request (imported C05.6) and the looked-up callable - also one found on a registered instance - is invoked exactly once (imported C01.3)"),
    "does_not_decide": "that an enqueued notification is eventually executed exactly once by the pool under "
                       "every interleaving (schedule-quantified; C09 covers the pool's structural discipline).",
    "rules": {"C04.10": "imported C05.6, C01.3", 
        "C04.1": "fact-consistent state exploration of the dispatcher CFG with a dispatch-event counter",
        "C04.2": "same exploration, forking on the notification predicate; return node must be literal None",
        "C04.3": "abstract evaluation of the predicate expression over representative id classes vs spec table A.5",
        "C04.4": "argument-list comparison of sibling call sites (enqueue(f, *a) vs f(*a))",
        "C04.5": "return statements of _request_notify; abstract evaluation of Payload.notify per version region",
        "C04.6": "reachability avoiding the dispatch call from the accepting edge of the validation test",
        "C04.7": "imported C02.1 (E4 may-raise analysis)",
        "C04.8": "imported C09.2, C10.7, C10.7b", "C04.9": "handler structure around the invocation (common.base_exception_layers)",
    },
    "assumptions": ["a custom dispatch function and the registered callables are opaque; only that they are "
                    "invoked once is decided"],
}

SRV = "SimpleJSONRPCServer"
DISP = "SimpleJSONRPCDispatcher"


def find_predicate(fi, g, request_param="request"):
    """Assign nodes `v = <expr mentioning "id" (not) in request>`."""
    out = []
    for n in g.live_nodes():
        if n.kind == "stmt" and isinstance(n.ast, ast.Assign) and len(n.ast.targets) == 1 \
                and isinstance(n.ast.targets[0], ast.Name):
            v = n.ast.value
            mentions_id = any(isinstance(c, ast.Constant) and c.value == "id" for c in ast.walk(v))
            mentions_req = any(isinstance(c, ast.Name) and c.id == request_param for c in ast.walk(v))
            has_test = any(isinstance(c, (ast.Compare, ast.BoolOp, ast.UnaryOp)) for c in ast.walk(v)) and \
                not isinstance(v, ast.Call)
            if mentions_id and mentions_req and has_test and isinstance(v, (ast.BoolOp, ast.Compare, ast.UnaryOp)):
                out.append(n)
            elif isinstance(v, ast.Call) and "notif" in n.ast.targets[0].id.lower() and any(
                    isinstance(a, ast.Name) and a.id == request_param for a in v.args):
                out.append(n)      # predicate delegated to a helper: evaluated through the helper's body
    return out


def dispatch_events(prog, fi, g):
    """{node id: kind} for nodes performing a dispatch."""
    ev = {}
    for n in g.live_nodes():
        for c in node_calls(n):
            f = c.func
            if isinstance(f, ast.Name) and f.id == "dispatch_method":
                ev[n.id] = ("custom", c)
            elif isinstance(f, ast.Attribute) and f.attr == "enqueue":
                ev[n.id] = ("enqueue", c)
            else:
                r = prog.resolve_call(fi, c)
                if q.is_func(r, "%s.%s._dispatch" % (SRV, DISP)):
                    ev[n.id] = ("default", c)
    return ev


def eval_predicate(prog, fi, expr, request_param="request", tier="quick"):
    """truth table of the predicate over the id classes of spec.ID_CASES (thorough tier: more id values of each class, and
    each of them inside a 2.0 request, a 1.0 request and a request with parameters)"""
    rows = []
    cases = [(l, v, e, None) for (l, v, e) in spec.ID_CASES]
    if tier == "thorough":
        more = [("'0'", "0", False), ("' '", " ", False), ("'null'", "null", False), ("'None'", "None", False), ("-0.0", -0.0, False),
                ("10**20", 10 ** 20, False), ("-7", -7, False), ("1e-9", 1e-9, False), ("'\u00e9'", "\u00e9", False)]
        for ctx in ("1.0", "params"):
            cases += [(l + " [" + ctx + "]", v, e, ctx) for (l, v, e) in spec.ID_CASES + more]
        cases += [(l, v, e, None) for (l, v, e) in more]
    for (label, value, expected, ctx) in cases:
        ev = shape.subscript_patch(shape.Evaluator(prog, fi.module))
        keys = {"jsonrpc": shape.K("2.0"), "method": shape.K("m")}
        if ctx == "1.0":
            keys = {"method": shape.K("m"), "params": shape.L([])}
        elif ctx == "params":
            keys["params"] = shape.L([shape.K(1)])
        if not label.startswith("absent"):
            if isinstance(value, list):
                keys["id"] = shape.L([])
            elif isinstance(value, dict):
                keys["id"] = shape.D()
            else:
                keys["id"] = shape.K(value)
        env = {request_param: shape.dict_sym("request", keys)}
        ev.decisions, ev.used, ev.sym_truth, ev.trace = [], 0, {}, []
        try:
            got = ev.truth(ev.expr(expr, env, fi))
        except shape._Raise as r:
            got = "raises " + r.name
        rows.append((label, expected, got))
    return rows


def check(ck):
    prog = ck.prog
    fi = prog.func(SRV, DISP + "._marshaled_single_dispatch")
    g = cfg_of(fi)
    where = q.fn(fi)
    ck.stat("functions", 1)
    ck.stat("cfg_nodes", len(g.reachable))
    ck.stat("paths_bounded", count_paths(g))

    # ---- C04.1 (first clause) the caller's dispatch callable is selected by identity ----------------------------------------------
    # `dispatch_method or <default>` / `if dispatch_method:` replace a callable that happens to be false (an object with
    # __len__ / __bool__: an empty registry, a Mock) by the default resolver: the notification is then dropped or misrouted
    for fi_ in (fi, prog.func(SRV, DISP + "._unmarshaled_dispatch"), prog.func(SRV, DISP + "._marshaled_dispatch")):
        for x in ast.walk(fi_.node):
            cands = []
            if isinstance(x, ast.BoolOp):
                cands = x.values[:-1]
            elif isinstance(x, (ast.If, ast.IfExp, ast.While)):
                cands = [x.test]
            elif isinstance(x, ast.UnaryOp) and isinstance(x.op, ast.Not):
                cands = [x.operand]
            for c_ in cands:
                if isinstance(c_, ast.Name) and c_.id == "dispatch_method":
                    ck.bad("C04.1", "%s: truth test of dispatch_method (`%s`)" % (q.fn(fi_), dump(x)[:50]),
                           "the custom dispatch callable is chosen by its truth value (`%s`) instead of `is not None`: a callable that is "
                           "false (defines __len__ / __bool__) is silently replaced by the default resolver - the notification it should "
                           "have handled is not executed" % dump(x)[:60], q.loc(fi_, x))
    preds = find_predicate(fi, g, fi.params[1])
    if len(preds) != 1:
        raise AnalysisError("anchor vanished: notification predicate assignment in %s (found %d)" % (where, len(preds)))
    pnode = preds[0]
    pvar = pnode.ast.targets[0].id
    events = dispatch_events(prog, fi, g)
    if len(events) < 3:
        raise AnalysisError("anchor vanished: dispatch events in %s (found %d, expected >= 3)" % (where, len(events)))

    # ---- C04.3 the predicate --------------------------------------------------
    rows = eval_predicate(prog, fi, pnode.ast.value, fi.params[1], ck.tier)
    for (label, expected, got) in rows:
        ck.require(got == expected, "C04.3", "%s: notification predicate, id %s" % (where, label),
                   "predicate(%s) = %s" % (label, got),
                   "predicate is %s for id %s, the property requires %s (`%s`)" % (
                       got, label, expected, dump(pnode.ast.value)), q.loc(fi, pnode))

    # ---- C04.1 / C04.2 path exploration -----------------------------------------
    def on_node(node, facts, data):
        cnt, notif = data
        if node.id in events:
            cnt = min(cnt + 1, 3)
        if node.id == pnode.id:
            return [(facts | frozenset([(pvar, True)]), (cnt, True)),
                    (facts | frozenset([(pvar, False)]), (cnt, False))]
        return [(facts, (cnt, notif))]

    ex = Explorer(g, on_node=on_node, init_data=(0, None))
    ex._names[pvar] = frozenset([pvar])
    ck.stat("states_explored", len(ex.states))
    seen = set()
    for st in states_at(ex, ("return",)):
        nid, facts, (cnt, notif) = st
        rn = g.nodes[nid]
        key = (nid, cnt, notif)
        if key in seen:
            continue
        seen.add(key)
        rtxt = q.stmt_text(rn) if rn.ast is not None else "implicit return"
        site = "%s: `%s` #%d" % (where, rtxt, sorted(x.id for x in g.live_nodes() if x.kind == "return").index(nid))
        ck.require(cnt == 1, "C04.1", "%s after %d dispatch event(s)" % (site, cnt),
                   "exactly one dispatch before `%s`" % rtxt,
                   "a path returns through `%s` after %d dispatch events (exactly one required)" % (rtxt, cnt),
                   q.loc(fi, rn), ex.describe_path(st))
        if notif:
            ck.require(q.returns_none_literal(rn), "C04.2", "%s on a notification path" % site,
                       "notification path returns None",
                       "a notification is answered: on a path where `%s` is true the function returns `%s`" % (
                           pvar, rtxt), q.loc(fi, rn), ex.describe_path(st))
        elif notif is False:
            ck.require(not q.returns_none_literal(rn), "C04.2b", "%s on a call path" % site,
                       "call path returns a response object",
                       "a call with an id gets no response: path where `%s` is false returns None" % pvar,
                       q.loc(fi, rn), ex.describe_path(st))
    for st in ex.terminal:
        nid, facts, (cnt, notif) = st
        if nid == g.raise_exit.id and cnt > 1:
            ck.bad("C04.1", "%s: exceptional exit after %d dispatch events" % (where, cnt),
                   "two dispatch events on one path", q.loc(fi, fi.node), ex.describe_path(st))
    ck.floor("C04.1", 4)
    ck.floor("C04.2", 3)

    # ---- C04.4 sibling agreement --------------------------------------------------
    enq = [(n, c) for n, (k, c) in ((g.nodes[i], events[i]) for i in events) if k == "enqueue"]
    sync = [(n, c) for n, (k, c) in ((g.nodes[i], events[i]) for i in events) if k != "enqueue"]
    sync_sigs = {}
    for (n, c) in sync:
        sync_sigs[(dump(c.func), tuple(dump(a) for a in c.args))] = n
    for (n, c) in enq:
        recv = prov.origin(g, n, c.func.value) if isinstance(c.func, ast.Attribute) else None
        ck.require(recv is not None and q.self_attr(recv, "__notification_pool"), "C04.4", "%s: enqueue on the notification pool" % where,
                   "self.__notification_pool.enqueue(...)", "the notification is queued on %s, not on the notification pool" % (prov.show(recv) if recv else "?"),
                   q.loc(fi, n))
        if not c.args:
            ck.bad("C04.4", "%s: enqueue without callee" % where, "enqueue() has no callee argument", q.loc(fi, n))
            continue
        sig = (dump(c.args[0]), tuple(dump(a) for a in c.args[1:]))
        ck.require(sig in sync_sigs and not c.keywords, "C04.4",
                   "%s: enqueue(%s, %s)" % (where, sig[0], ", ".join(sig[1])),
                   "pooled branch enqueues the callee and arguments of a synchronous sibling call",
                   "pooled notification branch enqueues `%s(%s)` but no synchronous branch makes that call "
                   "(synchronous calls: %s)" % (sig[0], ", ".join(sig[1]),
                                                "; ".join("%s(%s)" % (a, ", ".join(b)) for (a, b) in sync_sigs)),
                   q.loc(fi, n))
    ck.floor("C04.4", 2)
    # the callee of each dispatch matches the guard it sits under: the custom dispatch function is used where it is known to be
    # given (`dispatch_method is not None`), the default _dispatch otherwise - in the pooled and in the synchronous branch alike
    dpar = fi.params[2] if len(fi.params) > 2 else "dispatch_method"
    dom4 = dominators(g)
    for i, (kind, c) in events.items():
        n = g.nodes[i]
        callee = dump(c.args[0]) if kind == "enqueue" and c.args else dump(c.func)
        uses_custom = callee == dpar
        pol = [(p_ if dump(t_) == "%s is not None" % dpar else (not p_))
               for (t_, p_) in q.guards_of(g, n, dom4) if dump(t_) in ("%s is not None" % dpar, "%s is None" % dpar)]
        okk = bool(pol) and all(p_ is uses_custom for p_ in pol)
        ck.require(okk, "C04.4", "%s: %s of `%s` under the matching guard" % (where, "enqueue" if kind == "enqueue" else "call", callee),
                   "custom dispatcher iff `%s is not None`" % dpar,
                   "`%s` is %s on the path where `%s` is %s: a custom dispatch function is ignored, or None is called / queued as the task of a "
                   "notification (which is then never executed)" % (callee, "queued" if kind == "enqueue" else "called", dpar,
                                                                    "None" if uses_custom else "given" if pol else "not tested"), q.loc(fi, n))
    # method / params provenance of the dispatch arguments
    for i, (kind, c) in events.items():
        n = g.nodes[i]
        args = c.args[1:] if kind == "enqueue" else c.args
        if len(args) >= 2:
            for pos, key in ((0, "method"), (1, "params")):
                t = prov.origin(g, n, args[pos])
                okk = all(prov.member_of(a, q.is_param(fi.params[1]), key) for a in prov.alts(t))
                ck.require(okk, "C04.4", "%s: %s dispatch argument %d" % (where, kind, pos),
                           "argument is request[%r]" % key,
                           "dispatch argument %d is %s, expected the request's %r member" % (pos, prov.show(t), key),
                           q.loc(fi, n))

    # ---- C04.6 a validated entry always reaches the single dispatch ------------------------------------------------------
    pass
    fu = prog.func(SRV, DISP + "._unmarshaled_dispatch")
    gu = cfg_of(fu)
    singles = [n for (n, c) in q.call_sites(prog, fu, lambda r, c: q.is_func(r, "%s.%s._marshaled_single_dispatch" % (SRV, DISP)))]
    nonfault = [b for b in gu.live_nodes() if b.kind == "branch" and b.polarity is False and isinstance(b.test, ast.Call) and
                dump(b.test.func) == "isinstance" and prog.typeset(fu.module, b.test.args[1]) == {"class:jsonrpc.Fault"} and
                prov.origin(gu, b, b.test.args[0])[0] == "call" and prov.origin(gu, b, b.test.args[0])[1] == ("global", "validate_request")]
    if len(singles) < 2 or len(nonfault) < 2:
        raise AnalysisError("anchor vanished: validate/dispatch structure of _unmarshaled_dispatch (%d/%d)" % (len(nonfault), len(singles)))
    heads = [n.id for n in gu.live_nodes() if n.kind == "for"]
    for b in nonfault:
        reach = reachable_avoiding(gu, b.id, set(s.id for s in singles), lambda l: l != "exc")
        leaks = [x for x in [gu.return_exit.id] + heads if x in reach]
        ck.require(not leaks, "C04.6", "%s: valid entry (L%s) always dispatched" % (q.fn(fu), b.lineno), "every normal path passes _marshaled_single_dispatch",
                   "an entry accepted by validate_request can leave the iteration/function without being handed to _marshaled_single_dispatch: a "
                   "well-formed notification (e.g. a 1.0 one inside a batch) is not executed", q.loc(fu, b))

    # ---- C04.5 client side ---------------------------------------------------------
    fn = prog.func("jsonrpc", "ServerProxy._request_notify")
    gn = cfg_of(fn)
    rets = [n for n in gn.live_nodes() if n.kind == "return"]
    for rn in rets:
        ck.require(q.returns_none_literal(rn), "C04.5", "%s: return" % q.fn(fn),
                   "notification call returns None",
                   "client notification call returns a value: `%s`" % q.stmt_text(rn), q.loc(fn, rn))
    notif_calls = q.call_sites(prog, fn, lambda r, c: q.is_func(r, "jsonrpc.dumps"))
    for (n, c) in notif_calls:
        v = kwarg(c, "notify", 6)
        ck.require(v is not None and isinstance(v, ast.Constant) and v.value is True, "C04.5",
                   "%s: dumps(notify=...)" % q.fn(fn), "request built with notify=True",
                   "notification request is not built with notify=True", q.loc(fn, n))
    ck.floor("C04.5", 2)
    # Payload.notify per version region
    pn = prog.func("jsonrpc", "Payload.notify")
    for region, rep in spec.VERSION_REGIONS.items():
        for ptag, pval in (("params", shape.Sym("params", truthy=True, pytype=list)), ("params", shape.Sym("params", truthy=True, pytype=dict)),
                           ("noparams", shape.K(None))):
            ev = shape.Evaluator(prog, "jsonrpc", lenient=True)

            mk = common.payload_via_init(prog, rep, 2.0)       # (through the constructor: whatever it derives from the version is there)
            res = ev.run(pn, {"method": shape.Sym("method", truthy=True, pytype=str), "params": pval}, mk)
            for (_tr, out) in res:
                if out[0] != "return" or not isinstance(out[1], shape.D):
                    ck.bad("C04.5", "jsonrpc.Payload.notify[%s,%s]" % (region, ptag),
                           "notify() does not return a dictionary: %r" % (out,), q.loc(pn, pn.node))
                    continue
                d = out[1].items
                if region == "v2":
                    good = "id" not in d
                    what = "2.0 notification must not have an id member"
                else:
                    good = "id" in d and d["id"] == shape.K(None)
                    what = "1.0 notification must have id null"
                ck.require(good, "C04.5", "jsonrpc.Payload.notify[%s,%s]" % (region, ptag),
                           "keys %s" % sorted(d), "%s (keys %s, id=%r)" % (what, sorted(d), d.get("id")),
                           q.loc(pn, pn.node))

    # ---- C04.7 no exception escapes the dispatcher for a notification (shared with C02.1) ---------------------------------
    from rules import c02, common as _common
    _common.import_rules(ck, c02, {"C02.1": "C04.7"})
    ck.floor("C04.7", 1)

    # ---- C04.8 a notification handed to the pool is executed once (structural part; shared with C09 / C10) ---------------------
    from rules import c09, c10
    _common.import_rules(ck, c09, {"C09.2": "C04.8"})
    _common.import_rules(ck, c10, {"C10.7": "C04.8", "C10.7b": "C04.8"})
    ck.floor("C04.8", 8)

    # ---- C04.9 no exception of the method turns into an answer of the HTTP layer ---------------------------------------------------
    layers = _common.base_exception_layers(prog)
    ck.require(layers["_dispatch (around the method call)"] or layers["_marshaled_single_dispatch (around the dispatch)"], "C04.9",
               "%s: the dispatcher catches every exception of the callable" % SRV, "bare except / except BaseException around the call",
               "neither _dispatch nor _marshaled_single_dispatch catches a non-Exception BaseException raised by the method of a notification "
               "(SystemExit, KeyboardInterrupt, GeneratorExit): it escapes to the request handler, which answers the notification with an "
               "error object (HTTP 500)", "jsonrpclib/SimpleJSONRPCServer.py")

    # ---- C04.10 shared clauses --------------------------------------------------------------------------------------
    from rules import c05 as _c05, c01 as _c01
    _common.import_rules(ck, _c05, {"C05.6": "C04.10"})
    _common.import_rules(ck, _c01, {"C01.3": "C04.10"})
    ck.floor("C04.10", 6)
