"""C16 Future completion protocol: done/result/callback exactly once."""
import ast
from vlib.model import AnalysisError, dump, kwarg, call_name
from vlib.cfg import cfg_of, node_calls, node_exprs
from vlib.flow import dominators, Explorer, reachable_avoiding
from vlib import prov, q, narrow
from vlib.locks import ClassLocks
from rules import common

META = {
    "explanation": (
        "Decides: C16.1 (publication through the Event) in EventData.set and raise_exception every store to the data / "
        "exception fields precedes the setting of the event (directly or through a method that sets it), and wait() reads "
        "them only after event.wait(); readers write no field; C16.2 FutureResult.execute stores the outcome on both "
        "branches, re-raises, and reaches __notify exactly once on every exit (it sits in finally); C16.3 the callback "
        "invocation is inside try/except Exception whose handler neither re-raises nor contains an operation that can "
        "raise (E4 may-raise analysis of __notify with an arbitrary callable: nothing escapes), so a failing callback "
        "changes neither the stored outcome nor the worker's progress; C16.4 result(): a false wait raises OSError, a true "
        "one returns the stored data; C16.5 registration vs completion is atomic: the callback/extra fields, written by "
        "set_callback and read by the notifier, are only accessed under the future's lock, the notifier consumes the "
        "registration in the critical section in which it reads it (exactly-once), and set_callback stores the "
        "registration before it tests is_set() (else a completion in between loses the callback); C16.6 (shared with C09.3) execute "
        "invokes the task once, stores the very object it returned with set() on the normal branch only and the very exception it "
        "raised with raise_exception() in the handler only (the outcome is classified by how the call ended, never by the type of "
        "the returned value), and re-raises. C16.7 the handler that contains a failing callback in __notify, and the worker's handler behind it, only hand the caught exception on (lazy logger argument): eager formatting (`'%s' % ex`, str(ex), f-string), attribute loads or calls on it could raise again and let the callback's failure escape. C16.8 (imported from C09.3) result() returns the stored data after a true wait, EventData.wait raises the stored exception object itself, chosen by an identity test with None (a falsy exception object is still raised), and no reader modifies the stored outcome (consistency of repeated result() calls)."),
    "does_not_decide": "timing of result(timeout); the interleavings beyond the lockset and ordering clauses.",
    "rules": {"C16.8": "imported C09.3 (provenance of the reported outcome)",
              "C16.1": "dominance of the stores over the event set (interprocedural through self.set())", "C16.2": "exit-complete event-count exploration",
              "C16.3": "handler structure + E4 may-raise of the notifier", "C16.4": "dominance / raise sites", "C16.5": "E5 lockset + ordering by dominance",
              "C16.6": "provenance of the stored outcome; handler structure (common.check_execute_outcome)",
              "C16.7": "syntax-directed use classification of the containment handlers (common.check_inert_handlers)"},
    "assumptions": ["threading.Event provides a happens-before edge from set() to a wait() that returns true"],
}

TP = "threadpool"


def check(ck):
    prog = ck.prog
    ed = prog.cls(TP, "EventData")
    fr = prog.cls(TP, "FutureResult")
    EF = common.event_fields(prog)
    EV, DATA, EXC = "self." + EF["event"], "self." + EF["data"], "self." + EF["exception"]
    # ---- C16.1 publish order ----------------------------------------------------------------------
    setters = set()     # methods of EventData that set the event
    for m, fi in ed.methods.items():
        if any(isinstance(c, ast.Call) and dump(c.func) == EV + ".set" for c in ast.walk(fi.node)):
            setters.add(m)
    changed = True
    while changed:
        changed = False
        for m, fi in ed.methods.items():
            if m not in setters and any(isinstance(c, ast.Call) and isinstance(c.func, ast.Attribute) and dump(c.func.value) == "self"
                                        and c.func.attr in setters for c in ast.walk(fi.node)):
                setters.add(m)
                changed = True
    for m in ("set", "raise_exception"):
        fi = prog.func(TP, "EventData." + m)
        ck.require(m in setters, "C16.1", "%s: sets the event" % q.fn(fi), "event set", "EventData.%s never sets the event" % m, q.loc(fi, fi.node))
        g = cfg_of(fi)
        d = dominators(g)
        pubs = [n for n in g.live_nodes() for c in node_calls(n) if dump(c.func) == EV + ".set" or
                (isinstance(c.func, ast.Attribute) and dump(c.func.value) == "self" and c.func.attr in setters)]
        stores = [n for n in g.live_nodes() if n.kind == "stmt" and isinstance(n.ast, ast.Assign) and
                  any(dump(t) in (DATA, EXC) for t in n.ast.targets)]
        ck.require(len(stores) >= 1 or any(True for _ in pubs), "C16.1", "%s: stores present" % q.fn(fi), "outcome stored", "no outcome stored", q.loc(fi, fi.node))
        for s_ in stores:
            late = [p for p in pubs if p.id in d[s_.id]]
            ck.require(not late, "C16.1", "%s: `%s` before the event is set" % (q.fn(fi), q.stmt_text(s_)), "store precedes event.set()",
                       "`%s` is executed after the event has been set (`%s`): a thread woken by the event (done() true, result() returning) "
                       "can read the outcome before it is stored" % (q.stmt_text(s_), q.stmt_text(late[0]) if late else ""), q.loc(fi, s_))
        fields_written = set(dump(t)[5:] for s_ in stores for t in s_.ast.targets)
        # what the method must have stored (directly, or through a callee that runs BEFORE nothing else sets the event)
        if m == "raise_exception":
            ck.require(EF["exception"] in fields_written, "C16.1", "%s: stores the exception" % q.fn(fi), "stores the exception field",
                       "raise_exception does not store the exception", q.loc(fi, fi.node))
    fw = prog.func(TP, "EventData.wait")
    gw = cfg_of(fw)
    dw = dominators(gw)
    waitn = [n for n in gw.live_nodes() for c in node_calls(n) if dump(c.func) == EV + ".wait"]
    if len(waitn) != 1:
        raise AnalysisError("anchor vanished: <event>.wait in EventData.wait")
    for n in gw.live_nodes():
        for e in node_exprs(n):
            for sub in ast.walk(e):
                if isinstance(sub, ast.Attribute) and dump(sub) in (EXC, DATA) and isinstance(sub.ctx, ast.Load):
                    ck.require(waitn[0].id in dw[n.id], "C16.1", "%s: reads %s after event.wait()" % (q.fn(fw), dump(sub)), "read after the wait",
                               "wait() reads %s before waiting for the event" % dump(sub), q.loc(fw, n))
    ck.floor("C16.1", 5)

    # ---- C16.2 execute ---------------------------------------------------------------------------------
    fex = prog.func(TP, "FutureResult.execute")
    g = cfg_of(fex)
    notif = set(n.id for n in g.live_nodes() for c in node_calls(n) if dump(c.func) == "self.__notify")
    if not notif:
        raise AnalysisError("anchor vanished: self.__notify() in FutureResult.execute")

    def on_node(node, facts, data):
        if node.id in notif:
            data = min(data + 1, 3)
        return [(facts, data)]
    ex = Explorer(g, on_node=on_node, init_data=0)
    mcall = [n for n in g.live_nodes() for c in node_calls(n) if isinstance(c.func, ast.Name) and c.func.id == "method"]
    for st in ex.terminal:
        nid, facts, cnt = st
        path = ex.witness(st)
        after_call = any(x in [m.id for m in mcall] for x in path)
        if not after_call:
            continue
        ck.require(cnt == 1, "C16.2", "%s: %s exit after %d notification(s)" % (q.fn(fex), "normal" if nid == g.return_exit.id else "exceptional", cnt),
                   "__notify reached exactly once", "execute can finish (%s exit) after %d calls of __notify: a registered callback is invoked %s"
                   % ("normal" if nid == g.return_exit.id else "exceptional", cnt, "twice" if cnt > 1 else "never"), q.loc(fex, fex.node), ex.describe_path(st))
    ck.floor("C16.2", 2)

    # ---- C16.3 containment ----------------------------------------------------------------------------------
    fn_ = prog.func(TP, "FutureResult.__notify")
    fentry = fn_

    def _cb_calls(fi_):
        out_ = []
        g_ = cfg_of(fi_)
        for n_ in g_.live_nodes():
            for c_ in node_calls(n_):
                if len(c_.args) == 3 or (isinstance(c_.func, ast.Name) and "callback" in c_.func.id) or dump(c_.func) == "self.__callback":
                    t_ = prov.origin(g_, n_, c_.func)
                    if prov.contains(t_, lambda x: x == ("attr", ("param", "self"), "__callback")):
                        out_.append((n_, c_))
        return out_
    if not _cb_calls(fn_):
        # the delivery was moved into a helper that __notify calls: every notification attempt must still reach it
        helpers = [m for m in fr.methods.values() if m is not fn_ and _cb_calls(m)]
        if len(helpers) == 1:
            hname = helpers[0].name
            ge = cfg_of(fentry)
            hcalls = set(n.id for n in ge.live_nodes() for c in node_calls(n) if isinstance(c.func, ast.Attribute) and dump(c.func.value) == "self"
                         and c.func.attr == hname)
            if not hcalls:
                raise AnalysisError("anchor vanished: __notify does not call the method that invokes the callback (%s)" % hname)
            skip = reachable_avoiding(ge, ge.entry.id, hcalls, lambda l: l != "exc")
            ck.require(ge.return_exit.id not in skip, "C16.5", "%s: every notification attempt looks at the registration" % q.fn(fentry),
                       "each path calls %s()" % hname,
                       "__notify can return without calling %s(), i.e. without looking at the registration (an early exit on a flag): a "
                       "callback registered just before that attempt is stored but never invoked" % hname, q.loc(fentry, fentry.node))
            fn_ = helpers[0]
    gn = cfg_of(fn_)
    cb_calls = []
    for n in gn.live_nodes():
        for c in node_calls(n):
            if len(c.args) == 3 or (isinstance(c.func, ast.Name) and "callback" in c.func.id) or dump(c.func) == "self.__callback":
                t = prov.origin(gn, n, c.func)
                if prov.contains(t, lambda x: x == ("attr", ("param", "self"), "__callback")):
                    cb_calls.append((n, c))
    if len(cb_calls) != 1:
        raise AnalysisError("anchor vanished: the callback invocation in FutureResult.__notify (found %d)" % len(cb_calls))
    cn, cc = cb_calls[0]
    # "something is registered" is an identity test with None: a truth test skips a registered callable whose truth value is false
    # (a callable object defining __len__ / __bool__), consuming the registration without invoking it
    dn_ = dominators(gn)
    for d_ in dn_[cn.id]:
        b_ = gn.nodes[d_]
        if b_.kind != "branch":
            continue
        tb_ = prov.origin(gn, b_, b_.test) if isinstance(b_.test, ast.Name) else None
        if tb_ is not None and prov.contains(tb_, lambda x: x == ("attr", ("param", "self"), "__callback")):
            ck.bad("C16.3", "%s: registration test `%s`" % (q.fn(fn_), dump(b_.test)),
                   "the callback is invoked under the truth test `%s` of the registered callable: a registered callable that is false "
                   "(an object with __len__ / __bool__) is never invoked although its registration is consumed; the test must be "
                   "`is not None`" % dump(b_.test), q.loc(fn_, b_))
    tries = [t for t in ast.walk(fn_.node) if isinstance(t, ast.Try) and q.try_body_contains(t, cn.ast)]
    okk = bool(tries) and any(h.type is not None and dump(h.type) in ("Exception", "BaseException") or h.type is None for h in tries[0].handlers)
    ck.require(okk, "C16.3", "%s: callback inside try/except Exception" % q.fn(fn_), "contained", "the callback is invoked outside a catch-all try", q.loc(fn_, cn))
    for t in tries[:1]:
        for h in t.handlers:
            rer = [x for st_ in h.body for x in ast.walk(st_) if isinstance(x, ast.Raise)]
            ck.require(not rer, "C16.3", "%s: handler does not re-raise" % q.fn(fn_), "no raise", "the handler around the callback re-raises", q.loc(fn_, h))
    args = [prov.origin(gn, cn, a) for a in cc.args]
    want0 = ("attr", ("attr", ("param", "self"), "_done_event"), "data")
    want1 = ("attr", ("attr", ("param", "self"), "_done_event"), "exception")
    okk = len(args) == 3 and args[0] == want0 and args[1] == want1 and prov.contains(args[2], lambda x: x == ("attr", ("param", "self"), "__extra"))
    ck.require(okk, "C16.3", "%s: callback(result, exception, extra)" % q.fn(fn_), "stored outcome and registered extra",
               "the callback is invoked with %s" % [prov.show(a) for a in args], q.loc(fn_, cn))
    an = narrow.Analyzer(prog)
    summ = an.analyze(fn_, {"self": narrow.obj("FutureResult")})
    for (exc, fi, node, why) in summ.escapes:
        ck.bad("C16.3", "%s: `%s` may raise %s" % (q.fn(fi), q.stmt_text(node)[:60], exc),
               "%s can escape the notifier (%s): it propagates out of execute() into the worker (and replaces the task's own exception) or out "
               "of set_callback()" % (exc, why), q.loc(fi, node))
    if not summ.escapes:
        ck.ok("C16.3", "%s: escaping exception set" % q.fn(fn_), "empty (%d operations classified)" % an.n_ops, q.loc(fn_, fn_.node))

    # ---- C16.4 result -------------------------------------------------------------------------------------
    fres = prog.func(TP, "FutureResult.result")
    gr = cfg_of(fres)
    dr = dominators(gr)
    rz = [n for n in gr.live_nodes() if n.kind == "raise"]
    def _is_oserror(e_):
        # OSError, one of its aliases / builtin subclasses (IOError, TimeoutError ...) or a class of the package deriving from it
        nm = dump(e_.func if isinstance(e_, ast.Call) else e_).split(".")[-1]
        narrow._EXTRA_PARENTS = narrow.program_exception_parents(prog)
        import builtins as _b

        def _os(nm_, depth=0):
            k_ = getattr(_b, nm_, None)
            if (isinstance(k_, type) and issubclass(k_, OSError)) or narrow.is_sub(nm_, "OSError") or narrow.is_sub(nm_, "IOError"):
                return True
            if depth > 3:
                return False
            # a module-level name: every binding of it (an alias chosen in a try / except NameError, a fallback class) is one
            binds = []
            for st_ in ast.walk(prog.modules[TP].tree):
                if isinstance(st_, ast.Assign) and any(isinstance(t_, ast.Name) and t_.id == nm_ for t_ in st_.targets):
                    binds.append(dump(st_.value).split(".")[-1] if isinstance(st_.value, (ast.Name, ast.Attribute)) else None)
                elif isinstance(st_, ast.ClassDef) and st_.name == nm_:
                    binds.append([dump(b_).split(".")[-1] for b_ in st_.bases])
            if not binds:
                return False
            return all((isinstance(b_, str) and _os(b_, depth + 1)) or (isinstance(b_, list) and any(_os(x_, depth + 1) for x_ in b_)) for b_ in binds)
        return _os(nm)
    ck.require(len(rz) == 1 and rz[0].ast.exc is not None and _is_oserror(rz[0].ast.exc) and any(
        gr.nodes[i].kind == "branch" and "_done_event.wait" in dump(gr.nodes[i].test) and not gr.nodes[i].polarity for i in dr[rz[0].id]),
        "C16.4", "%s: false wait raises OSError" % q.fn(fres), "raise OSError on timeout", "result() does not raise OSError when the wait times out", q.loc(fres, fres.node))
    wcalls = [c for n in gr.live_nodes() for c in node_calls(n) if dump(c.func) == "self._done_event.wait"]
    ck.require(len(wcalls) == 1 and wcalls[0].args and dump(wcalls[0].args[0]) == "timeout", "C16.4", "%s: waits the caller's timeout" % q.fn(fres), "wait(timeout)",
               "result() does not wait with the caller's timeout", q.loc(fres, fres.node))
    fdone = prog.func(TP, "FutureResult.done")
    gd = cfg_of(fdone)
    for rn in [n for n in gd.live_nodes() if n.kind == "return"]:
        ck.require(rn.ast is not None and dump(rn.ast.value) == "self._done_event.is_set()", "C16.4", "%s: done() = event set" % q.fn(fdone), "is_set()",
                   "done() returns `%s`" % q.stmt_text(rn), q.loc(fdone, rn))

    # ---- C16.5 registration vs completion -------------------------------------------------------------------
    cl = ClassLocks(prog, fr)
    ck.require(bool(cl.lock_fields), "C16.5", "threadpool.FutureResult: lock field", "present (%s)" % cl.lock_fields,
               "FutureResult has no lock: registering a callback races with the completion (callback invoked twice or never)", "jsonrpclib/threadpool.py")
    shared = ("__callback", "__extra")
    n5 = 0
    for fi in fr.methods.values():
        if fi.name == "__init__":
            continue
        for (n, attr, kind, txt) in cl.accesses(fi):
            if attr in shared:
                n5 += 1
                ck.require(bool(cl.held(fi, n)), "C16.5", "%s: %s of self.%s in `%s`" % (q.fn(fi), "write" if kind == "w" else "read", attr, q.stmt_text(n)[:40]),
                           "under the future's lock", "the registration field `%s` is accessed without the future's lock" % attr, q.loc(fi, n))
    # ... and it is one and the same lock everywhere (two Lock objects - e.g. a class-private `__lock` in a base class and
    # another one in the derived class, which name mangling keeps apart - exclude nothing)
    helds = []
    for fi in fr.methods.values():
        if fi.name == "__init__":
            continue
        for (n, attr, kind, txt) in cl.accesses(fi):
            if attr in shared:
                helds.append((fi, n, frozenset(cl.held(fi, n))))
    common_lock = frozenset.intersection(*[h for (_f, _n, h) in helds]) if helds else frozenset()
    if helds and all(h for (_f, _n, h) in helds):
        odd = next(((f_, n_, h) for (f_, n_, h) in helds if h != helds[0][2]), None)
        ck.require(bool(common_lock), "C16.5", "threadpool.FutureResult: one lock guards the registration", "a lock common to every access",
                   "the registration fields are accessed under different locks (%s in %s, %s in %s): the consumer and set_callback do not "
                   "exclude each other, a callback can be taken with the extra of another registration" % (
                       sorted(helds[0][2]), helds[0][0].name, sorted(odd[2]) if odd else "", odd[0].name if odd else ""),
                   q.loc(odd[0], odd[1]) if odd else "")
    if n5 < 4:
        # (clean tree: 6 - the notifier reads and resets both fields, set_callback writes both; resetting `extra` is not
        # required for the property as long as every registration overwrites it, which is checked below)
        raise AnalysisError("anchor vanished: accesses to the callback registration (found %d)" % n5)
    # consume in the critical section of the read
    reads = [(n, a) for (n, a, k, _t) in cl.accesses(fn_) if k == "r" and a == "__callback"]
    consumes = [n for (n, a, k, _t) in cl.accesses(fn_) if k == "w" and a == "__callback"]
    okk = bool(reads) and bool(consumes) and all(n.withs == consumes[0].withs and n.withs for (n, _a) in reads)
    same_with = bool(reads) and bool(consumes) and all(n.withs == consumes[0].withs and n.withs and n.tries[-1:] == consumes[0].tries[-1:]
                                                       for (n, _a) in reads) and all(c_.withs == consumes[0].withs for c_ in consumes)
    ck.require(okk and same_with, "C16.5", "%s: registration consumed where it is read" % q.fn(fn_), "read and reset in one critical section",
               "the notifier does not consume the registration in the critical section in which it reads it: two notifiers (execute's and "
               "set_callback's) can both invoke the same registration", q.loc(fn_, fn_.node))
    def _empty_marker(v_):
        # None, or a module-level sentinel created by object() - the value the registration test compares with by identity
        if isinstance(v_, ast.Constant) and v_.value is None:
            return True
        if isinstance(v_, ast.Name):
            mv_ = prog.modules[TP].assigns.get(v_.id) if TP in prog.modules else None
            return isinstance(mv_, ast.Call) and dump(mv_.func) == "object" and not mv_.args
        return False
    ck.require(consumes and all(isinstance(n.ast, ast.Assign) and _empty_marker(n.ast.value) for n in consumes),
               "C16.5", "%s: consumption resets the registration to None" % q.fn(fn_), "reset to None", "the registration is not reset", q.loc(fn_, fn_.node))
    # the invocation uses the consumed (local) copy, outside the lock
    ck.require(not cl.held(fn_, cn), "C16.5", "%s: callback invoked outside the lock" % q.fn(fn_), "no lock held during the callback",
               "the callback runs while the future's lock is held (a callback that registers again deadlocks)", q.loc(fn_, cn))
    # the lock of the registration belongs to the future alone: a lock handed in (the pool's own, which enqueue() holds while it
    # blocks on a full queue) makes the completion wait for an unrelated producer before the callback is invoked
    finit16 = prog.func(TP, "FutureResult.__init__")
    gi16 = cfg_of(finit16)
    lst16 = [n for n in gi16.live_nodes() if n.kind == "stmt" and isinstance(n.ast, ast.Assign) and
             any(isinstance(t_, ast.Attribute) and dump(t_.value) == "self" and "lock" in t_.attr.lower() for t_ in n.ast.targets)]
    if not lst16:
        raise AnalysisError("anchor vanished: the lock created by FutureResult.__init__")
    for n in lst16:
        alts16 = prov.value_alts(prov.origin(gi16, n, n.ast.value))
        # (created by a call - threading.Lock(), or a factory the caller supplied - not an existing object handed in)
        okk = all(a[0] == "call" and not a[2] and not a[3] for a in alts16)
        ck.require(okk, "C16.5", "%s: `%s`" % (q.fn(finit16), q.stmt_text(n)[:50]), "a lock of its own (threading.Lock())",
                   "the future's lock can be %s: a lock shared with another object (the pool holds its own while enqueue() blocks on a "
                   "full queue) delays or dead-locks the invocation of the callback at completion" % sorted(prov.show(a)[:40] for a in alts16),
                   q.loc(finit16, n))
    fsc = prog.func(TP, "FutureResult.set_callback")
    gs = cfg_of(fsc)
    ds = dominators(gs)
    stores = [n for (n, a, k, _t) in cl.accesses(fsc) if k == "w" and a in shared]
    tests = [n for n in gs.live_nodes() if n.kind == "test" and "is_set()" in dump(n.ast)]
    # (further stores on paths that never reach the test are clears - `set_callback(None)` un-registering - and store the constant None)
    def _is_clear(s_):
        return isinstance(s_.ast, ast.Assign) and _empty_marker(s_.ast.value)
    clears = [s_ for s_ in stores if len(tests) == 1 and s_.id not in ds[tests[0].id] and _is_clear(s_) and
              tests[0].id not in reachable_avoiding(gs, s_.id, set(), lambda l: True)]
    stores = [s_ for s_ in stores if s_ not in clears]
    ck.require(len(stores) == 2 and len(tests) == 1 and all(s_.id in ds[tests[0].id] for s_ in stores), "C16.5",
               "%s: registration stored before is_set() is tested" % q.fn(fsc), "store dominates the test",
               "set_callback tests is_set() before the registration is stored: a task that completes in between notifies nobody and the "
               "callback is never invoked", q.loc(fsc, fsc.node))
    for s_ in stores:
        t = prov.origin(gs, s_, s_.ast.value)
        ck.require(t in (("param", "method"), ("param", "extra")), "C16.5", "%s: `%s`" % (q.fn(fsc), q.stmt_text(s_)), "stores the caller's values",
                   "set_callback stores %s" % prov.show(t), q.loc(fsc, s_))
    nt = [n for n in gs.live_nodes() for c in node_calls(n) if dump(c.func) == "self.__notify"]
    ck.require(len(nt) == 1 and any(gs.nodes[i].kind == "branch" and "is_set()" in dump(gs.nodes[i].test) and gs.nodes[i].polarity for i in ds[nt[0].id]), "C16.5",
               "%s: immediate notification when already done" % q.fn(fsc), "__notify() under `if is_set()`",
               "a callback registered after completion is not invoked immediately", q.loc(fsc, fsc.node))

    # ---- C16.6 the outcome is stored by how the call ended (shared with C09.3) ----------------------------------------------
    common.check_execute_outcome(ck, "C16.6")
    ck.floor("C16.6", 6)

    # ---- C16.7 the containment handlers cannot raise on user objects ------------------------------------------------------
    common.check_inert_handlers(ck, "C16.7", scopes=("worker", "notify"))
    ck.floor("C16.7", 4)

    # ---- C16.8 the reported outcome (shared with C09.3) -----------------------------------------------------------------------
    from rules import c09 as _c09o
    common.import_rules(ck, _c09o, {"C09.3": "C16.8", "C09.1": "C16.8"})      # (C09.1: the future handed back is the one the worker completes)
    ck.floor("C16.8", 12)
