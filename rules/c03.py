"""C03 Responses echo the request id; batches answer one-to-one and in order."""
import ast
from vlib.model import AnalysisError, dump, kwarg, call_name, FuncInfo
from vlib.cfg import cfg_of, node_calls
from vlib.flow import Explorer, states_at, dominators
from vlib import prov, q

META = {
    "explanation": (
        "Decides: C03.1 every response constructor of the server module (Fault(...) later dumped, "
        "dump(is_response=True)) takes its id from the \"id\" member of the request entry in scope "
        "(request['id'] / request.get('id')), except the structurally identified sites that have no request entry "
        "(parse failure, falsy request, non-object entry, HTTP catch-all); Faults returned upward are accepted when "
        "every consumer re-dumps them with the request id; C03.2 the id is carried verbatim from the constructor "
        "argument to the emitted dictionary (no truthiness test, default or conversion; identity tests only); "
        "C03.3 a batch's response list is built only by append inside one loop over the request list, at most one "
        "append per entry, zero only when the single dispatch returned None, each appended value derived from "
        "that iteration's entry, validate_request first; C03.4 an empty response list raises NoMulticallResult "
        "before the list can be returned and that exception and None both map to an empty body; C03.5 the single-entry "
        "dispatcher returns a response object on every path of a call with an id and the literal None on every path of a "
        "notification, exceptional handlers included (imported from C04.2: exactly one response per non-notification entry).; C03.6 (shared) every message that carries an `id` member, whatever its value, is recognised as a 1.0 message (a 1.0 notification is not answered with an invalid-request error: imported C05.6), and the default JSON backend is called with default options, so the reply assembled per entry can still be serialised as a whole (imported C02.6)"),
    "does_not_decide": "equality of the echoed JSON value after a backend round trip; the client-side pairing by "
                       "position is decided under C01.6.",
    "rules": {"C03.6": "imported C05.6, C02.6", 
        "C03.1": "provenance terms (reaching definitions) of the rpcid argument at each constructor site",
        "C03.2": "provenance of the id along dump -> Payload -> response dict; normalised tests on the id",
        "C03.3": "per-iteration path exploration of the batch loop with an append counter; mutator who-may-call",
        "C03.4": "dominance of the emptiness guard over the list return; handler/branch return literals",
        "C03.5": "imported C04.2 / C04.2b (fact-consistent path exploration)",
    },
    "assumptions": ["list.append keeps insertion order; a for loop visits a list in order"],
}

SRV = "SimpleJSONRPCServer"
DISP = "SimpleJSONRPCDispatcher"


def _in_handler_of_try_calling(prog, fi, site_ast, callee_pred):
    """site lies in an except-handler of a try whose body contains a call satisfying callee_pred"""
    for t in ast.walk(fi.node):
        if isinstance(t, ast.Try):
            for h in t.handlers:
                if any(sub is site_ast for st in h.body for sub in ast.walk(st)):
                    for st in t.body:
                        for c in ast.walk(st):
                            if isinstance(c, ast.Call) and callee_pred(prog.resolve_call(fi, c), c):
                                return True
    return False


def _dominating_branch(g, dom, node, pred):
    for d in dom[node.id]:
        n = g.nodes[d]
        if n.kind == "branch" and pred(n):
            return n
    return None


def is_request_id(term, request_param):
    return all(prov.member_of(a, q.is_param(request_param), "id") for a in prov.alts(term))


def check(ck):
    prog = ck.prog
    from rules import common
    sites = []     # (fi, node, call, kind, site)
    for site in common.fault_sites(prog):
        sites.append((site.fi, site.node, site.call, "Fault", site))
    for fi in prog.module_funcs(SRV):
        for (n, c) in q.call_sites(prog, fi, lambda r, c: q.is_func(r, "jsonrpc.dump")):
            v = kwarg(c, "is_response", 4)
            if v is not None:
                sites.append((fi, n, c, "dump", None))
    ck.stat("constructor_sites", len(sites))

    def is_loads(r, c):
        return q.is_func(r, "jsonrpc.loads") or q.is_func(r, "jsonrpc.load")

    def is_jdumps(r, c):
        return r in ("jsonrpc.jdumps",) or (isinstance(r, str) and r.endswith("jdumps"))

    # ---- C03.1 -----------------------------------------------------------------
    for (fi, n, c, kind, site) in sites:
        g = cfg_of(fi)
        dom = dominators(g)
        where = q.fn(fi)
        code = (str(site.code()) if site is not None else "")
        label = "%s: %s(%s) " % (where, kind, code)
        rp = kwarg(c, "rpcid", 2) if site is None else site.expr("rpcid", 2)
        request_param = fi.params[0] if fi.params and fi.params[0] != "self" else (fi.params[1] if len(fi.params) > 1 else None)
        # structural exemptions
        if fi.name == "do_POST" or (fi.cls is not None and fi.cls.name == "SimpleJSONRPCRequestHandler" and
                                    not any(isinstance(x, ast.Call) and call_name(x) in ("_marshaled_dispatch", "loads", "load") for x in ast.walk(fi.node))):
            # (do_POST's catch-all, and answers of the HTTP layer to requests it does not read at all - other verbs, bad headers)
            ck.ok("C03.1", label + "[http catch-all]", "exempt: no parsed request in scope", q.loc(fi, n))
            continue
        if _in_handler_of_try_calling(prog, fi, c, is_loads):
            ck.ok("C03.1", label + "[parse failure]", "exempt: the request could not be parsed", q.loc(fi, n))
            continue
        if _in_handler_of_try_calling(prog, fi, c, lambda r, cc: call_name(cc) in ("decode", "from_bytes")) and \
                not _in_handler_of_try_calling(prog, fi, c, lambda r, cc: call_name(cc) in ("_marshaled_dispatch", "_dispatch", "_marshaled_single_dispatch")):
            ck.ok("C03.1", label + "[undecodable body]", "exempt: the request bytes are not text, nothing was parsed", q.loc(fi, n))
            continue
        if _in_handler_of_try_calling(prog, fi, c, is_jdumps):
            ck.bad("C03.1", label + "[reply cannot be marshaled]",
                   "the -32603 reply sent when the assembled response cannot be serialised carries id null even "
                   "for a single request whose id is known (e.g. a method returning {(1, 2): 3})", q.loc(fi, n))
            continue
        b = _dominating_branch(g, dom, n, lambda bn: bn.polarity is False and dump(bn.test) == request_param)
        if b is not None:
            ck.ok("C03.1", label + "[falsy request]", "exempt: empty request has no id", q.loc(fi, n))
            continue
        b = _dominating_branch(g, dom, n, lambda bn: bn.polarity is False and isinstance(bn.test, ast.Call)
                               and dump(bn.test.func) == "isinstance" and dump(bn.test.args[0]) == request_param
                               and prog.typeset(fi.module, bn.test.args[1]) == {"dict"})
        if b is not None:
            ck.ok("C03.1", label + "[non-object entry]", "exempt: entry is not an object", q.loc(fi, n))
            continue
        if rp is not None:
            t = prov.origin(g, n, rp) if site is None else site.origin("rpcid", 2)
            if not is_request_id(t, request_param) and common.is_new_function(fi):
                # a response built in a new method that was not expanded into its callers: which entry its arguments stand for is not known
                raise AnalysisError("%s builds a response in a new helper method (id %s): which request entry it answers is not modelled"
                                    % (q.fn(fi), prov.show(t)[:50]))
            ck.require(is_request_id(t, request_param), "C03.1", label + "[direct]",
                       "rpcid = %s" % prov.show(t),
                       "response id is %s, not the id member of the request entry" % prov.show(t), q.loc(fi, n))
            continue
        # no rpcid: accepted only if the object is returned and every consumer re-dumps it with the request id
        if kind == "Fault" and _returned_to_redumping_callers(ck, prog, fi, n, c):
            ck.ok("C03.1", label + "[via consumer]", "returned Fault is re-dumped by its caller with the request id",
                  q.loc(fi, n))
            continue
        ck.bad("C03.1", label + "[no id]",
               "response constructor has no rpcid and is not re-dumped with the request id: the reply carries id null",
               q.loc(fi, n))
    ck.floor("C03.1", 12)
    fdis = prog.func(SRV, DISP + "._dispatch")
    layers = common.base_exception_layers(prog)
    inner = layers["_dispatch (around the method call)"]
    outer = layers["_marshaled_single_dispatch (around the dispatch)"]
    ck.require(inner or outer, "C03.1", "%s: a failing callable is answered with the request id" % SRV,
               "a handler of _dispatch / _marshaled_single_dispatch catches every exception of the callable",
               "neither _dispatch nor _marshaled_single_dispatch catches a non-Exception BaseException raised by the callable (SystemExit, "
               "KeyboardInterrupt, GeneratorExit): it reaches the HTTP catch-all, which answers with id null - and a batch loses all its other "
               "responses", q.loc(fdis, fdis.node))

    # ---- C03.2 id verbatim -------------------------------------------------------
    fd = prog.func("jsonrpc", "dump")
    gd = cfg_of(fd)
    pcalls = q.call_sites(prog, fd, lambda r, c: r == "class:jsonrpc.Payload")
    if not pcalls:
        raise AnalysisError("anchor vanished: Payload(...) construction in jsonrpc.dump")
    for (n, c) in pcalls:
        t = q.arg_origin(fd, n, c, "rpcid", 0)
        ck.require(t == ("param", "rpcid"), "C03.2", "jsonrpc.dump: Payload(rpcid=...)",
                   "Payload receives Param(rpcid) unchanged",
                   "the id handed to Payload is %s, not the caller's rpcid unchanged" % (prov.show(t) if t else "absent"),
                   q.loc(fd, n))
    for n in gd.live_nodes():
        if n.kind == "branch" and any(isinstance(x, ast.Name) and x.id == "rpcid" for x in ast.walk(n.test)):
            okk = isinstance(n.test, ast.Compare) and all(isinstance(o, (ast.Is, ast.IsNot)) for o in n.test.ops)
            if n.polarity:
                ck.require(okk, "C03.2", "jsonrpc.dump: test `%s`" % dump(n.test), "identity test on the id",
                           "the id is tested by `%s` (truthiness/equality): ids such as 0, false or [] are mishandled"
                           % dump(n.test), q.loc(fd, n))
    pi = prog.func("jsonrpc", "Payload.__init__")
    gi = cfg_of(pi)
    stores = [n for n in gi.live_nodes() if n.kind == "stmt" and isinstance(n.ast, ast.Assign)
              and any(dump(t) == "self.id" for t in n.ast.targets)]
    if not stores:
        raise AnalysisError("anchor vanished: self.id store in Payload.__init__")
    for n in stores:
        t = prov.origin(gi, n, n.ast.value)
        ck.require(t == ("param", "rpcid"), "C03.2", "jsonrpc.Payload.__init__: self.id = ...",
                   "self.id = Param(rpcid)", "Payload stores %s as id" % prov.show(t), q.loc(pi, n))
    fi_f = prog.func("jsonrpc", "Fault.__init__")
    gf = cfg_of(fi_f)
    for n in gf.live_nodes():
        if n.kind == "stmt" and isinstance(n.ast, ast.Assign) and any(dump(t) == "self.rpcid" for t in n.ast.targets):
            t = prov.origin(gf, n, n.ast.value)
            ck.require(t == ("param", "rpcid"), "C03.2", "jsonrpc.Fault.__init__: self.rpcid = ...",
                       "self.rpcid = Param(rpcid)", "Fault stores %s as id" % prov.show(t), q.loc(fi_f, n))
    for meth, callee in (("Fault.dump", "jsonrpc.dump"), ("Fault.response", "jsonrpc.dumps")):
        fm = prog.func("jsonrpc", meth)
        cs = q.call_sites(prog, fm, lambda r, c, callee=callee: q.is_func(r, callee))
        if not cs:
            raise AnalysisError("anchor vanished: %s call in %s" % (callee, meth))
        for (n, c) in cs:
            t = q.arg_origin(fm, n, c, "rpcid", 2 if callee.endswith("dump") else 4)
            # the stored id, or - for a caller that forces one - the forced id itself, both verbatim
            alts_ = prov.alts(t) if t is not None else []
            okk_ = bool(alts_) and any(q.self_attr(a, "rpcid") for a in alts_) and \
                all(q.self_attr(a, "rpcid") or a == ("param", "rpcid") for a in alts_)
            ck.require(okk_, "C03.2", "jsonrpc.%s: rpcid=" % meth,
                       "passes self.rpcid", "%s passes %s as id" % (meth, prov.show(t) if t else "nothing"), q.loc(fm, n))
    fds = prog.func("jsonrpc", "dumps")
    for (n, c) in q.call_sites(prog, fds, lambda r, c: q.is_func(r, "jsonrpc.dump")):
        t = q.arg_origin(fds, n, c, "rpcid", 2)
        ck.require(t == ("param", "rpcid"), "C03.2", "jsonrpc.dumps: dump(rpcid)", "forwards Param(rpcid)",
                   "dumps forwards %s as id" % (prov.show(t) if t else "nothing"), q.loc(fds, n))
    # ... and the request text reaches the parser as it was received: a content-changing text operation between decoding the body
    # and the dispatch (Unicode normalisation, case mapping, replace / translate / re.sub) rewrites the inside of JSON strings - an
    # id "cafe\u0301" would be answered as "caf\u00e9"
    fpost = prog.func(SRV, "SimpleJSONRPCRequestHandler.do_POST")
    gpost = cfg_of(fpost)
    dsp = [(n, c) for n in gpost.live_nodes() for c in node_calls(n) if call_name(c) == "_marshaled_dispatch"]
    if not dsp:
        raise AnalysisError("anchor vanished: _marshaled_dispatch call in do_POST")
    CHANGING = ("normalize", "lower", "upper", "casefold", "title", "capitalize", "swapcase", "replace", "translate", "expandtabs",
                "sub", "subn", "unescape", "unquote", "unquote_plus")
    for (n, c) in dsp:
        t = prov.origin(gpost, n, c.args[0]) if c.args else None
        bad = []
        if t is not None:
            prov.contains(t, lambda x: bad.append(x) or False if (x[0] == "call" and ((x[1][0] == "attr" and x[1][2] in CHANGING) or
                                                                  (x[1][0] == "global" and x[1][1] in CHANGING))) else False)
        ck.require(not bad, "C03.2", "%s: the dispatcher gets the request text as received" % q.fn(fpost), "no content-changing text operation",
                   "the text handed to the dispatcher went through `%s`: characters inside JSON strings are rewritten, so an id (or a "
                   "parameter) made of such characters is not echoed as the same JSON value" % (prov.show(bad[0])[:70] if bad else ""), q.loc(fpost, n))
    ck.floor("C03.2", 7)

    # ---- C03.3 batch loop -----------------------------------------------------------
    fu = prog.func(SRV, DISP + "._unmarshaled_dispatch")
    gu = cfg_of(fu)
    domu = dominators(gu)
    where = q.fn(fu)
    req = fu.params[1]
    loops = [n for n in gu.live_nodes() if n.kind == "for_body" and prov.origin(gu, n, n.ast.iter) == ("param", req)]
    if len(loops) != 1:
        raise AnalysisError("anchor vanished: the batch loop over the request list in %s (found %d)" % (where, len(loops)))
    fb = loops[0]
    loop_ast = fb.ast
    elem = fb.ast.target.id if isinstance(fb.ast.target, ast.Name) else None
    if elem is None:
        raise AnalysisError("batch loop target is not a simple name")
    # the list returned on the batch path
    list_vars = set()
    for n in gu.live_nodes():
        if n.kind == "return" and n.ast is not None and isinstance(n.ast.value, ast.Name):
            t = prov.origin(gu, n, n.ast.value)
            if t == ("tuple", ()) or t == ("other", "[]"):
                list_vars.add(n.ast.value.id)
    filtered = False
    ret_var = None
    if not list_vars:
        # responses = [x for x in L if x is not None]  with L built by the loop
        for n in gu.live_nodes():
            if n.kind == "return" and n.ast is not None and isinstance(n.ast.value, ast.Name):
                for dn in [gu.nodes[i] for i in prov.rd_of(gu).get(n.id, {}).get(n.ast.value.id, ())]:
                    v = dn.ast.value if dn.kind == "stmt" and isinstance(dn.ast, ast.Assign) else None
                    if isinstance(v, ast.ListComp) and len(v.generators) == 1 and isinstance(v.generators[0].target, ast.Name) \
                            and isinstance(v.elt, ast.Name) and v.elt.id == v.generators[0].target.id and isinstance(v.generators[0].iter, ast.Name) \
                            and len(v.generators[0].ifs) == 1 and dump(v.generators[0].ifs[0]) == "%s is not None" % v.elt.id:
                        list_vars.add(v.generators[0].iter.id)
                        ret_var = n.ast.value.id
                        filtered = True
    if len(list_vars) != 1:
        raise AnalysisError("anchor vanished: the response list returned by %s (found %s)" % (where, sorted(list_vars)))
    lv = next(iter(list_vars))
    ret_var = ret_var or lv
    body_ids = set()
    for n in gu.live_nodes():
        if n.ast is not None and any(sub is n.ast for st in loop_ast.body for sub in ast.walk(st)):
            body_ids.add(n.id)
        elif n.kind in ("branch", "test") and any(sub is n.test or sub is n.ast for st in loop_ast.body for sub in ast.walk(st)):
            body_ids.add(n.id)
    muts = []
    for n in gu.live_nodes():
        for c in node_calls(n):
            if isinstance(c.func, ast.Attribute) and dump(c.func.value) == lv:
                muts.append((n, c))
        if n.kind == "stmt" and isinstance(n.ast, (ast.Assign, ast.AugAssign, ast.Delete)):
            tg = n.ast.targets if not isinstance(n.ast, ast.AugAssign) else [n.ast.target]
            for t in tg:
                if isinstance(t, ast.Subscript) and dump(t.value) == lv:
                    ck.bad("C03.3", "%s: store into %s[...]" % (where, lv), "response list modified by index/slice store",
                           q.loc(fu, n))
                if isinstance(n.ast, ast.AugAssign) and dump(t) == lv:
                    ck.bad("C03.3", "%s: %s augmented" % (where, lv), "response list modified by augmented assignment",
                           q.loc(fu, n))
    for (n, c) in muts:
        ck.require(c.func.attr == "append" and n.id in body_ids, "C03.3", "%s: %s.%s(...)" % (where, lv, c.func.attr),
                   "append inside the batch loop",
                   "response list is modified by `%s` %s: order/arity of the batch reply is no longer that of the entries"
                   % (dump(c)[:60], "outside the loop" if c.func.attr == "append" else "(not append)"), q.loc(fu, n))
    for n in gu.live_nodes():
        for c in node_calls(n):
            if isinstance(c.func, ast.Name) and c.func.id in ("sorted", "reversed") :
                ck.bad("C03.3", "%s: %s()" % (where, c.func.id), "reordering call in the batch dispatcher", q.loc(fu, n))
    # per-iteration append count
    appends = set(n.id for (n, c) in muts if c.func.attr == "append")
    single = q.call_sites(prog, fu, lambda r, c: q.is_func(r, "%s.%s._marshaled_single_dispatch" % (SRV, DISP)))
    single_in_loop = [(n, c) for (n, c) in single if n.id in body_ids]
    validate = [(n, c) for (n, c) in q.call_sites(prog, fu, lambda r, c: q.is_func(r, SRV + ".validate_request"))
                if n.id in body_ids]
    ck.require(len(single_in_loop) == 1 and len(validate) == 1, "C03.3", "%s: loop body calls" % where,
               "one validate_request and one _marshaled_single_dispatch per entry",
               "the batch loop does not handle each entry by validate_request + _marshaled_single_dispatch "
               "(found %d / %d calls)" % (len(validate), len(single_in_loop)), q.loc(fu, fb))
    for (n, c) in single_in_loop + validate:
        t = prov.origin(gu, n, c.args[0]) if c.args else None
        ck.require(t == ("elem", ("param", req)), "C03.3", "%s: %s(<entry>)" % (where, call_name(c)),
                   "first argument is the loop element",
                   "`%s` is applied to %s, not to this iteration's entry" % (call_name(c), prov.show(t) if t else "nothing"),
                   q.loc(fu, n))
    if validate:
        vn = validate[0][0]
        first = [n for n in gu.live_nodes() if n.id in body_ids and n.kind in ("stmt", "test") and n.id != vn.id
                 and node_calls(n) and vn.id not in domu[n.id]]
        ck.require(not first, "C03.3", "%s: validate first" % where, "validate_request dominates every call of the iteration",
                   "a call in the loop body is not preceded by validate_request: `%s`" % (q.stmt_text(first[0]) if first else ""),
                   q.loc(fu, first[0]) if first else "")
    single_var = None
    if single_in_loop:
        sn = single_in_loop[0][0]
        if isinstance(sn.ast, ast.Assign) and isinstance(sn.ast.targets[0], ast.Name):
            single_var = sn.ast.targets[0].id

    # can the single dispatch hand back a Fault *object*?  (its exits: None, <x>.dump(), jsonrpclib.dump(...))
    fsd_ = prog.func(SRV, DISP + "._marshaled_single_dispatch")
    single_may_be_fault = False
    for (rn_, val_) in q.return_sources(fsd_):
        if q.is_none_expr(val_):
            continue
        tt_ = prov.origin(cfg_of(fsd_), rn_, val_)
        for a_ in prov.value_alts(tt_):
            dumped = a_[0] == "call" and ((a_[1][0] == "attr" and a_[1][2] == "dump") or (a_[1][0] == "global" and a_[1][1] == "dump"))
            if not (dumped or a_ == ("const", None)):
                single_may_be_fault = True

    def on_node(node, facts, data):
        if node.id == fb.id:
            return [(frozenset(), (0, False))]     # a new iteration starts
        if data is None:
            return [(facts, None)]
        cnt, nonnull_skip = data
        if node.id in appends:
            cnt = min(cnt + 1, 3)
        return [(facts, (cnt, nonnull_skip))]

    ex = Explorer(gu, on_node=on_node, init_data=None)
    head = [n for n in gu.live_nodes() if n.kind == "for" and n.ast is loop_ast][0]
    n_iter = 0
    seen = set()
    for st in ex.states:
        nid, facts, data = st
        if nid != head.id or data is None:
            continue
        # state arriving at the loop head after one iteration (data reset happens at for_body)
        cnt = data[0]
        key = (cnt, tuple(sorted(facts)))
        if key in seen:
            continue
        seen.add(key)
        n_iter += 1
        if cnt == 0 and single_var is not None and not single_may_be_fault and \
                any(k_.replace(" ", "") in ("isinstance(%s,Fault)" % single_var, "isinstance(%s,jsonrpclib.Fault)" % single_var) and v_ for (k_, v_) in facts):
            # infeasible: every exit of _marshaled_single_dispatch yields a dumped dictionary or None, never a Fault object
            ck.ok("C03.3", "%s: iteration on the branch `isinstance(%s, Fault)`" % (where, single_var),
                  "dead: the single dispatch never returns a Fault object", q.loc(fu, fb))
            continue
        if cnt == 0:
            none_ok = (not filtered) and single_var is not None and ((single_var + " is not None", False) in facts
                                                                     or (single_var + " is None", True) in facts)
            ck.require(none_ok, "C03.3", "%s: iteration appends nothing" % where,
                       "zero appends only when the single dispatch returned None",
                       "an entry of a batch gets no response although its dispatch result was not None",
                       q.loc(fu, fb), ex.describe_path(st))
        else:
            ck.require(cnt == 1, "C03.3", "%s: iteration appends %d" % (where, cnt), "one append per entry",
                       "an entry of a batch produces %d responses" % cnt, q.loc(fu, fb), ex.describe_path(st))
    ck.stat("loop_iteration_states", n_iter)
    # values appended derive from this iteration
    for (n, c) in muts:
        if c.func.attr != "append" or not c.args:
            continue
        t = prov.origin(gu, n, c.args[0])
        okk = True
        for a in prov.alts(t):
            base = a
            if a[0] == "call" and a[1][0] == "attr" and a[1][2] == "dump" and not a[2] and not a[3]:
                base = a[1][1]
            for b in prov.alts(base):
                if not (b[0] == "call" and b[1][0] in ("global", "attr") and b[2] and b[2][0] == ("elem", ("param", req))):
                    okk = False
        ck.require(okk, "C03.3", "%s: appended value `%s`" % (where, dump(c.args[0])),
                   "appended value is f(entry) or f(entry).dump()",
                   "appended response %s is not derived from this iteration's entry" % prov.show(t), q.loc(fu, n))
    ck.floor("C03.3", 8)

    # ---- C03.4 -------------------------------------------------------------------------
    for n in gu.live_nodes():
        if n.kind == "return" and n.ast is not None and isinstance(n.ast.value, ast.Name) and n.ast.value.id == ret_var:
            b = _dominating_branch(gu, domu, n, lambda bn: dump(bn.test) == ret_var and bn.polarity is True)
            ck.require(b is not None, "C03.4", "%s: return %s" % (where, lv),
                       "the list is returned only when non-empty",
                       "the batch response list can be returned empty (no emptiness guard dominates `return %s`): "
                       "an all-notification batch would be answered with []" % lv, q.loc(fu, n))
    raises = [n for n in gu.live_nodes() if n.kind == "raise" and n.ast.exc is not None and "NoMulticallResult" in dump(n.ast.exc)]
    ck.require(bool(raises), "C03.4", "%s: raise NoMulticallResult" % where, "empty list raises NoMulticallResult",
               "no raise of NoMulticallResult for an empty response list", q.loc(fu, fu.node))
    fm = prog.func(SRV, DISP + "._marshaled_dispatch")
    gm = cfg_of(fm)
    hs = [h for h in gm.live_nodes() if h.kind == "handler" and h.ast.type is not None and "NoMulticallResult" in dump(h.ast.type)]
    ck.require(bool(hs), "C03.4", "%s: except NoMulticallResult" % q.fn(fm), "handler present",
               "NoMulticallResult is not caught by _marshaled_dispatch", q.loc(fm, fm.node))
    for h in hs:
        rets = [st for st in h.ast.body if isinstance(st, ast.Return)]
        okk = len(h.ast.body) >= 1 and rets and isinstance(rets[0].value, ast.Constant) and rets[0].value.value == ""
        ck.require(okk, "C03.4", "%s: NoMulticallResult handler" % q.fn(fm), "returns \"\"",
                   "an empty batch result is not mapped to an empty body", q.loc(fm, h))
    domm = dominators(gm)
    for n in gm.live_nodes():
        if n.kind == "return" and n.ast is not None:
            b = _dominating_branch(gm, domm, n, lambda bn: isinstance(bn.test, ast.Compare) and
                                   dump(bn.test).endswith("is not None") and bn.polarity is False)
            if b is not None:
                ck.require(isinstance(n.ast.value, ast.Constant) and n.ast.value.value == "", "C03.4",
                           "%s: None response" % q.fn(fm), "None maps to \"\"",
                           "a None response (notification) is not mapped to an empty body: `%s`" % q.stmt_text(n),
                           q.loc(fm, n))
    ck.floor("C03.4", 4)
    _c03_5(ck)
    # ---- C03.6 shared clauses --------------------------------------------------------------------------------------
    from rules import c05 as _c05, c02 as _c02
    common.import_rules(ck, _c05, {"C05.6": "C03.6"})
    common.import_rules(ck, _c02, {"C02.6": "C03.6", "C02.1": "C03.6"})      # (C02.1: what escapes the dispatcher is answered by the HTTP layer with id null)
    ck.floor("C03.6", 2)


def _c03_5(ck):
    """one response per non-notification entry, none per notification entry: shared with C04.2 / C04.2b"""
    from rules import c04, common
    common.import_rules(ck, c04, {"C04.2": "C03.5", "C04.2b": "C03.5", "C04.3": "C03.5"})
    ck.floor("C03.5", 4)


def _returned_to_redumping_callers(ck, prog, fi, n, c):
    """The Fault built at (n, c) is returned by fi; every package caller of fi passes the call result to
    jsonrpc.dump(result, rpcid=<request id>, ...) or returns/dumps it with the request id."""
    g = cfg_of(fi)
    # is it returned?  find `return X` nodes whose origin includes this constructor call
    if not (isinstance(n.ast, ast.Assign) and isinstance(n.ast.targets[0], ast.Name)):
        return False
    var = n.ast.targets[0].id
    returned = False
    from vlib.prov import rd_of
    rd = rd_of(g)
    for r in g.live_nodes():
        if r.kind == "return" and r.ast is not None and isinstance(r.ast.value, ast.Name) and r.ast.value.id == var:
            if n.id in rd.get(r.id, {}).get(var, ()):
                returned = True
    if not returned:
        return False
    callers = q.all_call_sites(prog, lambda r, cc: isinstance(r, FuncInfo) and r.fq == fi.fq, modules=("SimpleJSONRPCServer",))
    callers = [(f2, n2, c2) for (f2, n2, c2) in callers if isinstance(c2.func, ast.Attribute)
               and not (f2.fq == fi.fq)]
    # enqueue(self._dispatch, ...) hands the result to nobody (notification): fine
    if not callers:
        return False
    for (f2, n2, c2) in callers:
        g2 = cfg_of(f2)
        if not (isinstance(n2.ast, ast.Assign) and isinstance(n2.ast.targets[0], ast.Name)):
            return False
        v2 = n2.ast.targets[0].id
        req2 = f2.params[1] if len(f2.params) > 1 else None
        consumers = []
        for m in g2.live_nodes():
            for cc in node_calls(m):
                if any(isinstance(a, ast.Name) and a.id == v2 for a in cc.args):
                    consumers.append((m, cc))
        if not consumers:
            return False
        for (m, cc) in consumers:
            r = prog.resolve_call(f2, cc)
            if not q.is_func(r, "jsonrpc.dump"):
                return False
            t = q.arg_origin(f2, m, cc, "rpcid", 2)
            if t is None or not is_request_id(t, req2):
                return False
    return True

