"""C06 The client never swallows or mistypes a server-reported error."""
import ast
import copy
from vlib.model import AnalysisError, dump, kwarg, call_name
from vlib.cfg import cfg_of, node_calls
from vlib.flow import dominators
from vlib import prov, q, shape, spec, narrow

META = {
    "explanation": (
        "Decides: C06.1 in check_for_errors, on every path where the error member is present and truthy, normal "
        "completion is unreachable and only ProtocolError / AppError can escape, for an error member of any JSON type "
        "(E4 type-narrowing / may-raise analysis of every operation in that region); C06.2 abstract evaluation of "
        "check_for_errors over reply shapes: codes in [-32700, -32000] (both ends) raise ProtocolError((code, message)), "
        "all other codes (including non-numeric) raise AppError((code, message, data)), non-object and code-less "
        "error members raise ProtocolError (plain or AppError: the distinction is stated for coded errors), absent/null error returns; AppError.data() returns element 2; C06.3 when no "
        "error is reported the function returns its argument itself; C06.4 every read of [\"result\"] in the client "
        "module is dominated by check_for_errors on the same value, _request_notify checks its reply, and "
        "_run_request returns None only when the reply body is empty; C06.5 check_for_errors never modifies the reply it is given "
        "(a second check / access of the same batch item raises again); C06.6 (shared with C08.2) every reply is decoded with the "
        "proxy's own configuration, so an error object's data member is translated (or not) as for any other reply and cannot raise a "
        "foreign exception type through another object's configuration.; C06.7 (imported C19.3) every reply is reassembled in its own buffer: no data of an earlier, possibly truncated, reply is parsed with the next one C06.9 (imported from C02.6) replies are decoded by json.loads itself (a home-made decoder - raw_decode, pre-processing - would accept bodies that are not JSON texts and return a value where an error is due). C06.10 (imported from C01.4 / C17.3) the i-th access of a MultiCall result is applied to the i-th reply of the batch as received (no re-ordering or matching by id, which drops replies whose id is null), and the reply body is accumulated raw and decoded once. C06.11 MultiCallIterator keeps the list of replies it is given, as given (`self.results = results`), and MultiCall hands it the decoded reply of its own exchange: no filtering, matching by id or re-ordering stands between the replies and their access (an error reply with a null id would otherwise be dropped or shifted). C06.12 (imported from C19.5) a non-200 reply is drained completely (read() without a size, under the Content-Length test) before the TransportError is raised: a remainder left on the kept-alive connection would make the next call fail with an http.client state error instead of the error the server reports."),
    "does_not_decide": "nothing value-level beyond the comparisons; envelope-level rejections raised before the error "
                       "branch (non-dict reply, jsonrpc > 2.0) are outside the property's domain.",
    "rules": {"C06.12": "imported C19.5 (drain of a non-200 reply)",
              "C06.11": "provenance of the stored reply list",
              "C06.10": "imported C01.4 (batch accessor), C17.3 (raw accumulation, one decode)",
              "C06.9": "imported C02.6 (backend options, loader)",
              "C06.7": "imported C19.3", "C06.1": "E4 may-raise analysis restricted to the region dominated by the truthy error member",
              "C06.2": "shape interpreter (E7) over reply shapes vs spec A.1 range", "C06.3": "provenance of return values",
              "C06.4": "dominance of the check over each consumer; provenance of the checked value", "C06.5": "mutation scan with receiver provenance",
              "C06.6": "imported C08.2"},
    "assumptions": ["replies are JSON values (dict keys are strings)"],
}


def error_region(g, dom, param):
    """ids of nodes dominated by the true edge of the test of <param>['error'] (truthiness)"""
    roots = [n for n in g.live_nodes() if n.kind == "branch" and n.polarity is True and
             isinstance(n.test, ast.Subscript) and dump(n.test) == "%s['error']" % param]
    if not roots:
        roots = [n for n in g.live_nodes() if n.kind == "branch" and n.polarity is True and
                 isinstance(n.test, ast.Call) and dump(n.test).startswith("%s.get('error'" % param)]
    if not roots:
        # the member read into a local first: `error = result['error']` ... `if error:`
        for n in g.live_nodes():
            if n.kind == "branch" and n.polarity is True and isinstance(n.test, ast.Name):
                t = prov.origin(g, n, n.test)
                if t == ("item", ("param", param), ("const", "error")) or (
                        t[0] == "call" and t[1] == ("attr", ("param", param), "get") and t[2] and t[2][0] == ("const", "error")):
                    roots.append(n)
    if len(roots) != 1:
        raise AnalysisError("anchor vanished: the truthiness test of the reply's error member in check_for_errors (found %d)" % len(roots))
    r = roots[0]
    return r, set(n.id for n in g.live_nodes() if r.id in dom[n.id])


def check(ck):
    prog = ck.prog
    fc = prog.func("jsonrpc", "check_for_errors")
    g = cfg_of(fc)
    dom = dominators(g)
    param = fc.params[0]
    root, region = error_region(g, dom, param)
    ck.stat("error_region_nodes", len(region))

    # ---- C06.5 the reply is not modified by the check ------------------------------------------------------------
    from rules import common
    n5 = 0
    for (n, desc, recv) in common.mutations(fc):
        t = prov.origin(g, n, recv)

        def _part_of_reply(a):
            # the reply itself, a member / element / attribute of it, or what its .get() hands out: the same mutable objects; a value
            # *computed* from the reply (an exception built from its members) is a new object
            while a[0] in ("attr", "item", "elem") or (a[0] == "call" and a[1][0] == "attr" and a[1][2] in ("get", "setdefault", "pop")):
                a = a[1] if a[0] != "call" else a[1][1]
            return a == ("param", param)
        if any(_part_of_reply(a) for a in prov.value_alts(t)):
            n5 += 1
            ck.bad("C06.5", "%s: %s" % (q.fn(fc), desc), "check_for_errors modifies the reply it checks (%s on %s): checking or reading the same reply "
                   "again (results[i] twice, iterate then index) no longer raises the error" % (desc, prov.show(t)[:50]), q.loc(fc, n))
    ck.ok("C06.5", "%s: mutation scan" % q.fn(fc), "the reply is never modified (%d mutations of reply-derived objects)" % n5, q.loc(fc, fc.node))

    # ---- C06.1 ---------------------------------------------------------------------------------
    an = narrow.Analyzer(prog)
    summ = an.analyze(fc, {param: narrow.AV(["dict"], nonempty=True)})
    ck.stat("e4_operations_classified", an.n_ops)
    bad = 0
    for (exc, fi, node, why) in summ.escapes:
        inside = node.id in region and fi.fq == fc.fq
        if inside:
            okk = exc in ("ProtocolError", "AppError")
            ck.require(okk, "C06.1", "%s: `%s` raises %s" % (q.fn(fc), q.stmt_text(node)[:60], exc),
                       "raises a ProtocolError", "for a non-empty error member the client raises %s instead of ProtocolError "
                       "(%s)" % (exc, why), q.loc(fi, node))
            bad += 0 if okk else 1
        else:
            explicit = why.startswith("explicit raise")
            triaged = "float(%s['jsonrpc'])" % param in node.text
            if explicit or triaged:
                ck.ok("C06.1", "%s: `%s` raises %s [before the error branch]" % (q.fn(fc), node.text[:50], exc),
                      "envelope-level rejection outside the property's domain", q.loc(fi, node))
            else:
                ck.bad("C06.1", "%s: `%s` raises %s" % (q.fn(fc), node.text[:60], exc),
                       "an operation before the error branch can raise %s (%s) for a reply object" % (exc, why), q.loc(fi, node))
    for n in g.live_nodes():
        if n.kind == "return" and n.id in region:
            ck.bad("C06.1", "%s: `%s` inside the error branch" % (q.fn(fc), q.stmt_text(n)),
                   "a reply with a non-empty error member can be returned as a value (error swallowed)", q.loc(fc, n))
    # every normal path of the region must end in a raise: no fall-through out of the region
    for n in g.live_nodes():
        if n.id in region:
            for (b, l) in g.succ[n.id]:
                if b not in region and l != "exc" and g.nodes[b].kind not in ("raise_exit",):
                    ck.bad("C06.1", "%s: fall-through out of the error branch at `%s`" % (q.fn(fc), q.stmt_text(n)),
                           "a path through the error branch completes normally: the error is swallowed", q.loc(fc, n))
    ck.ok("C06.1", "%s: error branch" % q.fn(fc), "every path raises; %d operations classified" % an.n_ops, q.loc(fc, root))
    if an.n_ops < 15:
        raise AnalysisError("C06.1 classified only %d operations" % an.n_ops)

    # ---- C06.2 truth table ------------------------------------------------------------------------
    K, D, L = shape.K, shape.D, shape.L
    lo, hi = spec.PREDEFINED_RANGE
    codes = [lo - 1, lo, lo + 1, hi - 1, hi, hi + 1, 0, 1, -1, -32768, 32700, -32600, -32603, 1.5, -32000.0,
             float("nan"), float("inf"), float("-inf")]      # (the default backend reads NaN / Infinity: neither lies within the range)
    shapes_ = [("message+data", lambda c: {"code": K(c), "message": K("m"), "data": K("d")})]
    if ck.tier == "thorough":
        # every integer within 3 of both ends of the predefined range, a grid through it, floats next to the ends, large
        # magnitudes; each with and without a data member and with a null data member
        codes = sorted(set(codes + list(range(lo - 3, lo + 4)) + list(range(hi - 3, hi + 4)) + list(range(lo, hi + 1, 50)) +
                           [lo - 0.5, lo + 0.5, hi - 0.5, hi + 0.5, float(lo), float(hi), -10 ** 9, 10 ** 9, 2 ** 31, -2 ** 31, 32000, 32700, -1.0, 0.0]),
                       key=lambda x: (float(x), str(type(x))))
        shapes_ += [("message only", lambda c: {"code": K(c), "message": K("m")}),
                    ("data null", lambda c: {"code": K(c), "message": K("m"), "data": K(None)}),
                    ("data falsy", lambda c: {"code": K(c), "message": K(""), "data": K(0)})]
    cases = []
    for c in codes:
        inrange = lo <= c <= hi
        for form in ("2.0", "1.0"):
            for (sl, mk_) in shapes_:
                err = D(mk_(c))
                cases.append(("code=%r %s%s" % (c, form, "" if sl == "message+data" else " " + sl), err, form, "ProtocolError" if inrange else "AppError", c))
    for c in ("abc", None, [1], True):
        err = D({"code": K(c) if not isinstance(c, list) else L([K(1)]), "message": K("m")})
        cases.append(("code=%r" % (c,), err, "2.0", "AppError" if c is not True else "AppError", c))
    cases.append(("trace only", D({"code": K(-32000), "trace": K("t")}), "2.0", "ProtocolError", -32000))
    cases.append(("single entry", D({"reason": K("x")}), "2.0", "ProtocolError", None))
    cases.append(("two entries no code", D({"a": K(1), "b": K(2)}), "2.0", "ProtocolError", None))
    for lab, v in (("5", K(5)), ("True", K(True)), ("'has code'", K("has code")), ("[1]", L([K(1)])), ("2.5", K(2.5))):
        cases.append(("error=%s" % lab, v, "2.0", "ProtocolError", None))
    n2 = 0
    for (label, err, form, want, code) in cases:
        keys = {"error": copy.deepcopy(err), "id": K(1)}
        if form == "2.0":
            keys["jsonrpc"] = K("2.0")
        else:
            keys["result"] = K(None)
        ev = shape.subscript_patch(shape.Evaluator(prog, "jsonrpc", lenient=True))
        res = ev.run(fc, {param: shape.dict_sym("reply", keys)})
        for (_tr, out) in res:
            n2 += 1
            got = out[1].split(".")[-1] if out[0] == "raise" else "returns"
            # an error without a code: "raise ProtocolError" - the subclass AppError is one (the plain / App distinction is stated
            # for coded errors only)
            okk = got == want or (code is None and want == "ProtocolError" and got == "AppError")
            detail = ""
            if okk and want in ("ProtocolError", "AppError") and code is not None and len(out) > 2 and out[2]:
                arg = out[2][0]
                elts = arg.elts if isinstance(arg, shape.L) else (list(shape.K(x) for x in arg.v) if isinstance(arg, shape.K) and isinstance(arg.v, tuple) else None)
                n_want = 2 if want == "ProtocolError" else 3
                if elts is None or len(elts) != n_want:
                    okk = False
                    detail = " with argument %r (a %d-tuple (code, message%s) is required)" % (arg, n_want, ", data" if n_want == 3 else "")
                elif isinstance(err, D) and "code" in err.items:
                    # the elements are the reply's own code, message (or trace) and data
                    # (a reply without a "message" member: what stands for the message is not the property's business)
                    exp = [err.items["code"], err.items.get("message"), err.items.get("data", K(None))][:n_want]
                    same = all((b_ is None) or (a_ == b_) or repr(a_) == repr(b_) for a_, b_ in zip(elts, exp))
                    if not same:
                        okk = False
                        detail = " with (%s) instead of the reply's own (%s)" % (", ".join(repr(x) for x in elts), ", ".join(repr(x) for x in exp))
            ck.require(okk, "C06.2", "%s: reply with %s" % (q.fn(fc), label), "%s" % got,
                       "a reply with %s makes the client %s%s; the property requires %s" % (
                           label, ("raise " + got) if got != "returns" else "return a value", detail, want), q.loc(fc, fc.node))
    # no error -> returns
    ok_cases = [("error absent", {"result": K(0), "id": K(1), "jsonrpc": K("2.0")}),
                ("error null", {"result": K(False), "error": K(None), "id": K(1)}),
                ("error {}", {"result": K(""), "error": D(), "id": K(1)})]
    if ck.tier == "thorough":
        for rl, rv in (("0", K(0)), ("0.0", K(0.0)), ("False", K(False)), ("''", K("")), ("[]", L([])), ("{}", D()), ("None", K(None)),
                       ("1", K(1)), ("'x'", K("x")), ("[0]", L([K(0)]))):
            ok_cases.append(("result %s, error absent (2.0)" % rl, {"result": copy.deepcopy(rv), "id": K(1), "jsonrpc": K("2.0")}))
            ok_cases.append(("result %s, error null (1.0)" % rl, {"result": copy.deepcopy(rv), "error": K(None), "id": K(1)}))
            ok_cases.append(("result %s, error null, id null (2.0)" % rl, {"result": copy.deepcopy(rv), "error": K(None), "id": K(None), "jsonrpc": K("2.0")}))
    for label, keys in ok_cases:
        ev = shape.subscript_patch(shape.Evaluator(prog, "jsonrpc", lenient=True))
        rep = shape.dict_sym("reply", keys)
        res = ev.run(fc, {param: rep})
        for (_tr, out) in res:
            n2 += 1
            ck.require(out[0] == "return" and out[1] is rep, "C06.2", "%s: reply with %s" % (q.fn(fc), label),
                       "returns the reply itself", "a reply with %s (falsy result) is not returned unchanged: %r" % (label, out[:2]),
                       q.loc(fc, fc.node))
    ck.stat("reply_shapes", n2)
    ck.floor("C06.2", 40)
    fdat = prog.func("jsonrpc", "AppError.data")
    gd = cfg_of(fdat)
    for rn in [n for n in gd.live_nodes() if n.kind == "return"]:
        t = prov.origin(gd, rn, rn.ast.value) if rn.ast is not None and rn.ast.value is not None else ("const", None)
        want = ("item", ("item", ("attr", ("param", "self"), "args"), ("const", 0)), ("const", 2))
        ck.require(t == want, "C06.2", "jsonrpc.AppError.data: return", "self.args[0][2]",
                   "AppError.data() returns %s, not the data element of (code, message, data)" % prov.show(t), q.loc(fdat, rn))

    # ---- C06.3 result unchanged ------------------------------------------------------------------
    for rn in [n for n in g.live_nodes() if n.kind == "return" and n.id not in region]:
        t = prov.origin(g, rn, rn.ast.value) if rn.ast is not None and rn.ast.value is not None else ("const", None)
        ck.require(t == ("param", param), "C06.3", "%s: `%s`" % (q.fn(fc), q.stmt_text(rn)), "returns Param(%s)" % param,
                   "check_for_errors returns %s instead of the reply it was given" % prov.show(t), q.loc(fc, rn))
    ck.floor("C06.3", 2)

    # ---- C06.4 every consumer checks first --------------------------------------------------------
    n4 = 0
    for fi in prog.module_funcs("jsonrpc"):
        if fi.fq == fc.fq:
            continue
        gg = cfg_of(fi)
        dd = None
        for n in gg.live_nodes():
            for e in [x for ex in __import__("vlib.cfg", fromlist=["node_exprs"]).node_exprs(n) for x in ast.walk(ex)]:
                if isinstance(e, ast.Subscript) and isinstance(e.slice, ast.Constant) and e.slice.value == "result" \
                        and isinstance(e.ctx, ast.Load):
                    n4 += 1
                    dd = dd or dominators(gg)
                    tv = prov.origin(gg, n, e.value)
                    checks = [m for m in gg.live_nodes() if m.id in dd[n.id] and m.id != n.id and any(
                        q.is_func(prog.resolve_call(fi, c), "jsonrpc.check_for_errors") and c.args and
                        prov.origin(gg, m, c.args[0]) == tv for c in node_calls(m))]
                    # <check_for_errors(reply)>["result"]: the check runs as part of evaluating the subscripted value (C06.3: it
                    # returns the reply it was given)
                    direct = isinstance(e.value, ast.Call) and q.is_func(prog.resolve_call(fi, e.value), "jsonrpc.check_for_errors") \
                        and len(e.value.args) == 1 and not e.value.keywords
                    ck.require(bool(checks) or direct, "C06.4", "%s: read of %s" % (q.fn(fi), dump(e)),
                               "dominated by check_for_errors(%s)" % dump(e.value),
                               "the result member is read without check_for_errors on the same reply having run first on "
                               "every path: a reply carrying an error can be returned as a value", q.loc(fi, n))
    freq = prog.func("jsonrpc", "ServerProxy._request")
    gq_ = cfg_of(freq)
    for rn in [n for n in gq_.live_nodes() if n.kind == "return"]:
        t = prov.origin(gq_, rn, rn.ast.value) if rn.ast is not None and rn.ast.value is not None else ("const", None)
        ck.require(t[0] == "item" and t[2] == ("const", "result"), "C06.4", "%s: returns <reply>['result'] unchanged" % q.fn(freq), "result member itself",
                   "the proxy call returns %s: a falsy result (0, '', [], false) is not returned unchanged" % prov.show(t)[:80], q.loc(freq, rn))
    if n4 < 1:
        raise AnalysisError("anchor vanished: [\"result\"] reads in the client module (found %d)" % n4)
    fnot = prog.func("jsonrpc", "ServerProxy._request_notify")
    gn = cfg_of(fnot)
    cs = q.call_sites(prog, fnot, lambda r, c: q.is_func(r, "jsonrpc.check_for_errors"))
    ck.require(bool(cs), "C06.4", "%s: check_for_errors on the reply" % q.fn(fnot), "reply checked",
               "a notification's reply is not checked for errors", q.loc(fnot, fnot.node))
    for (n, c) in cs:
        t = prov.origin(gn, n, c.args[0]) if c.args else None
        okk = t is not None and t[0] == "call" and t[1] == ("attr", ("param", "self"), "_run_request")
        ck.require(okk, "C06.4", "%s: check_for_errors(<own reply>)" % q.fn(fnot), "checks its own _run_request result",
                   "check_for_errors is applied to %s" % (prov.show(t) if t else "nothing"), q.loc(fnot, n))
    from vlib.flow import postdominators, NORMAL
    pdn = postdominators(gn, [gn.return_exit.id], NORMAL)
    runs_n = [n for n in gn.live_nodes() for c in node_calls(n) if dump(c.func) == "self._run_request"]
    for rn_ in runs_n:
        ck.require(any(n.id in pdn[rn_.id] for (n, _c) in cs), "C06.4", "%s: the check follows the exchange on every normal path" % q.fn(fnot),
                   "check_for_errors post-dominates _run_request",
                   "after the exchange a notification call can return without check_for_errors having seen the reply: an error reply (e.g. with "
                   "a null id) is swallowed", q.loc(fnot, rn_))
    frun = prog.func("jsonrpc", "ServerProxy._run_request")
    gr = cfg_of(frun)
    dr = dominators(gr)
    treq = [n for n in gr.live_nodes() for c in node_calls(n) if call_name(c) == "request" and isinstance(c.func, ast.Attribute)]
    if not treq:
        raise AnalysisError("anchor vanished: transport.request call in _run_request")
    # _run_request evaluated abstractly (E7) on reply texts with and without a JSON token, the transport and loads() stubbed: None only
    # for a body made of blanks (it carries no reply, hence no error); any other body reaches loads() as received and what loads
    # returns is returned - so an error reply, even to a notification, is seen by check_for_errors
    for (txt_, flag_) in [(t_, f_) for t_ in ("", " ", "\n", "\r\n\t ", "null", "0", "false", "{}", "[]", ' {"error": {"code": 1}} ', "x", '""',
                                              " " * 200 + '{"error": {"code": 1}}', "\n" * 5000 + "1")
                          for f_ in (False, True)]:          # (flag_: the value of every other parameter - `notify` - both ways)
        calls_ = []

        def _ld(*a, **k):
            calls_.append((a, k))
            return shape.Opaque("loaded")
        tr_ = shape.Opaque("transport", {"request()": K(txt_)})
        cfg_ = shape.Opaque("Config", {})

        def _mk():
            return shape.Obj("ServerProxy", {"_ServerProxy__history": K(None), "_ServerProxy__query_string": K(""), "_ServerProxy__handler": K("/"),
                                             "_ServerProxy__host": K("h"), "_ServerProxy__verbose": K(0), "_ServerProxy__transport": tr_, "_config": cfg_})
        ev_ = shape.Evaluator(prog, "jsonrpc", lenient=True, stubs={"jsonrpc.loads": _ld})
        res_ = ev_.run(frun, dict((p_, K("req") if p_ == "request" else K(flag_)) for p_ in frun.params if p_ != "self"), _mk)
        outs_ = [o for (_d, o) in res_]
        if txt_.strip():
            okk = len(outs_) == 1 and outs_[0][0] == "return" and isinstance(outs_[0][1], shape.Opaque) and outs_[0][1].label == "loaded" and \
                len(calls_) == 1 and calls_[0][0] and isinstance(calls_[0][0][0], K) and calls_[0][0][0].v == txt_
            ck.require(okk, "C06.4", "%s: `return None`" % q.fn(frun), "None only for an empty reply body",
                       "_run_request can return None although the peer sent a reply body: an error reply (e.g. to a "
                       "notification) is never seen by check_for_errors (reply text %r gives %r, loads called with %r)"
                       % (txt_, [o[:2] for o in outs_], [c_[0][:1] for c_ in calls_]), q.loc(frun, frun.node))
        elif txt_ == "":
            okk = len(outs_) == 1 and outs_[0][0] == "return" and isinstance(outs_[0][1], K) and outs_[0][1].v is None and not calls_
            ck.require(okk, "C06.4", "%s: empty reply body" % q.fn(frun), "None, nothing parsed",
                       "for an empty reply body _run_request gives %r" % ([o[:2] for o in outs_],), q.loc(frun, frun.node))
    ck.floor("C06.4", 5)

    # ---- C06.6 replies are decoded with the proxy's own configuration (shared with C08.2) ---------------------------------
    from rules import c08
    common.import_rules(ck, c08, {"C08.2": "C06.6"})
    ck.floor("C06.6", 2)

    # ---- C06.7 each reply is parsed from its own data (shared with C19.3) --------------------------------------------
    from rules import c19 as _c19
    common.import_rules(ck, _c19, {"C19.3": "C06.7"})
    ck.floor("C06.7", 8)

    # ---- C06.9 the reply is parsed by the JSON parser itself (shared with C02.6) -------------------------------------------------
    from rules import c02 as _c02t6, common as _cm69
    _cm69.import_rules(ck, _c02t6, {"C02.6": "C06.9"})
    ck.floor("C06.9", 3)

    # ---- C06.10 the reply reaches check_for_errors as sent (shared with C01.4 / C17.3) -------------------------------------------
    from rules import c01 as _c01b, c17 as _c17b, common as _cm610
    _cm610.import_rules(ck, _c01b, {"C01.4": "C06.10"})
    _cm610.import_rules(ck, _c17b, {"C17.3": "C06.10"})
    from rules import c14 as _c14b6
    _cm610.import_rules(ck, _c14b6, {"C14.4": "C06.10"})      # (the reply text - str, or bytes when it is not UTF-8 - reaches the parser as received)
    ck.floor("C06.10", 6)

    # ---- C06.11 the replies are accessed as received ---------------------------------------------------------------------------
    from vlib.cfg import cfg_of as _cfg611
    from vlib import prov as _prov611
    fmi = prog.func("jsonrpc", "MultiCallIterator.__init__")
    gmi = _cfg611(fmi)
    st611 = [n for n in gmi.live_nodes() if n.kind == "stmt" and isinstance(n.ast, ast.Assign) and any(dump(t) == "self.results" for t in n.ast.targets)]
    if not st611:
        raise AnalysisError("anchor vanished: self.results store in MultiCallIterator.__init__")
    frq = prog.func("jsonrpc", "MultiCall._request")
    for c_ in [x for x in ast.walk(frq.node) if isinstance(x, ast.Call) and isinstance(x.func, ast.Attribute) and
               x.func.attr in ("sort", "reverse", "pop", "remove", "insert", "clear", "extend") and isinstance(x.func.value, ast.Name)]:
        if x_ := [n_ for n_ in ast.walk(frq.node) if isinstance(n_, ast.Assign) and any(isinstance(t_, ast.Name) and t_.id == c_.func.value.id for t_ in n_.targets)
                  and "_run_request" in dump(n_.value)]:
            ck.bad("C06.11", "%s: `%s`" % (q.fn(frq), dump(c_)[:50]),
                   "the list of replies is modified in place (`%s`) before it is handed to the iterator: the i-th access no longer meets "
                   "the i-th reply as sent (and ordering null ids against numbers raises TypeError, losing the whole batch)" % dump(c_)[:50],
                   q.loc(frq, c_))
    for n in st611:
        alts = _prov611.value_alts(_prov611.origin(gmi, n, n.ast.value))
        # (the list as given; an empty list for no reply; a single reply object wrapped into a one-element list: nothing is
        # filtered, matched or re-ordered by any of these)
        def _as_given(a):
            if a == ("param", "results"):
                return True
            if a[0] == "tuple" and (a[1] == () or a[1] == (("param", "results"),)):
                return True
            if a[0] == "other" and a[1] in ("[]", "[results]", "()"):
                return True
            return False
        ck.require(("param", "results") in alts and all(_as_given(a) for a in alts), "C06.11", "%s: `%s`" % (q.fn(fmi), q.stmt_text(n)), "the replies as given",
                   "the iterator stores %s instead of the list of replies it is given: replies are filtered / matched / re-ordered before "
                   "they are checked for errors" % sorted(_prov611.show(a)[:40] for a in alts), q.loc(fmi, n))

    # ---- C06.12 the error page is drained (shared with C19.5) ------------------------------------------------------------------
    from rules import c19 as _c19d, common as _cm612
    _cm612.import_rules(ck, _c19d, {"C19.5": "C06.12"})
    ck.floor("C06.12", 2)
