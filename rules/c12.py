"""C12 Servers isolate concurrent clients and always shut down cleanly."""
import ast
from vlib.model import AnalysisError, dump, kwarg, call_name
from vlib.cfg import cfg_of, node_calls
from vlib.flow import dominators, postdominators, NORMAL
from vlib import prov, q
from rules import common
from rules.common import SRV, DISP

META = {
    "explanation": (
        "Decides: C12.1 (typestate) BaseServer.shutdown may be called only where the server is known to be serving; "
        "server_close is specified to be callable on a server that never served, so a shutdown() reached unconditionally from "
        "server_close is a violation (shutdown waits on an Event that only serve_forever sets - re-derived from the stdlib "
        "source in the thorough tier); C12.2 every normal path of PooledJSONRPCServer.server_close reaches the base "
        "server_close (listening socket closed) and then stops the request pool; C12.3 process_request enqueues "
        "self.process_request_thread with (request, client_address) unchanged, exactly once, and does nothing else; C12.4 no "
        "function reachable from the serving entry points stores to the dispatcher / server / a long-lived Config or to module "
        "state (imported from C13.3: nothing is shared between requests, so there is nothing to cross-talk through); C12.5 "
        "do_POST wraps read + dispatch in a catch-all that still answers, its read loop leaves on an empty read (imported from "
        "C02.2 / C17.3), and the default request pool is created and started in the constructor and stored before the base "
        "constructor can accept connections; C12.7 every normal path through the constructors of the dispatcher, the plain and pooled "
        "servers and the CGI handler runs the constructor of each state-carrying base (frozen table BASE_INITS), and each hands on the "
        "configuration it received. C12.8 (imported from C04.3) only a request without an id member, or with id null / empty string, is treated as a notification: a request carrying any other id (0, false, 0.0 included) is answered, not dropped. C12.9 (imported from C09.5 / C10.1) stop() of the request pool joins a snapshot of the thread list taken under the pool lock and waits for every member until it is not alive (server_close returns only when every worker has terminated), and a worker is started whenever the thread counter - not the length of the list a retiring worker is still in - is below the maximum (a queued request is never left without a worker). C12.10 (imported from C02.6) every reply can be encoded and sent: the backend emits ASCII only, so to_bytes() in do_POST - which runs outside the handler's catch-all - cannot fail and leave a request unanswered (the stdlib client then silently re-sends it: a duplicated execution). C12.11 (imported from C11.3 / C11.7) stopping the request pool queues a sentinel per worker with a put that waits for room and joins every worker (server_close returns, workers terminate)."),
    "does_not_decide": "absence of cross-talk, lost or duplicated executions under concurrency as observed behaviour; "
                       "termination of server_close with in-flight requests.",
    "rules": {"C12.11": "imported C11.3, C11.7 (stop protocol)",
              "C12.10": "imported C02.6 (backend options)",
              "C12.9": "imported C09.5 (stop protocol: snapshot, joins), C10.1 (who-may-create + dominance)",
              "C12.8": "imported C04.3 (E7 truth table of the notification predicate)",
              "C12.1": "call-site typestate (who-may-call shutdown, guard scan)", "C12.2": "dominance / post-dominance on normal paths",
              "C12.3": "provenance + statement scan", "C12.4": "imported C13.3", "C12.5": "imported C02.2, C17.3 + dominance in the constructor", "C12.6": "imported C10.7, C10.7b",
              "C12.7": "must-call of base constructors on normal paths + provenance of the config argument"},
    "assumptions": ["socketserver.TCPServer.server_close closes the listening socket; ThreadingMixIn.process_request_thread handles and shuts the request down"],
}

POOLED = "PooledJSONRPCServer"


def check(ck):
    prog = ck.prog
    fc = prog.func(SRV, POOLED + ".server_close")
    g = cfg_of(fc)
    d = dominators(g)
    # the field holding the request pool: the attribute of self that PooledJSONRPCServer.__init__ stores `thread_pool` in
    fi0 = prog.func(SRV, POOLED + ".__init__")
    gi0 = cfg_of(fi0)
    pool_fields = set()
    for n in gi0.live_nodes():
        if n.kind == "stmt" and isinstance(n.ast, ast.Assign) and isinstance(n.ast.targets[0], ast.Attribute) and dump(n.ast.targets[0].value) == "self":
            va = prov.value_alts(prov.origin(gi0, n, n.ast.value))
            if ("param", "thread_pool") in va or any(a[0] == "call" and prov.show(a[1]).endswith("ThreadPool") for a in va):
                pool_fields.add(dump(n.ast.targets[0]))
    if len(pool_fields) != 1:
        raise AnalysisError("anchor vanished: the field of PooledJSONRPCServer storing the request pool (found %s)" % sorted(pool_fields))
    POOL = pool_fields.pop()
    # ---- C12.1 typestate of shutdown ------------------------------------------------------------
    shut = [(n, c) for n in g.live_nodes() for c in node_calls(n) if call_name(c) == "shutdown"]
    for (n, c) in shut:
        guards = [g.nodes[i] for i in d[n.id] if g.nodes[i].kind == "branch"]
        ck.require(bool(guards), "C12.1", "%s: unconditional shutdown()" % q.fn(fc), "shutdown() only where the server is known to be serving",
                   "server_close() calls `%s` unconditionally; BaseServer.shutdown() blocks until serve_forever() acknowledges, so closing a "
                   "server that never served (or whose serve loop already ended) never returns" % dump(c), q.loc(fc, n))
    if not shut:
        ck.ok("C12.1", "%s: no shutdown() in server_close" % q.fn(fc), "server_close does not wait for a serve loop", q.loc(fc, fc.node))

    # ---- C12.2 must-call -----------------------------------------------------------------------------
    if "serve_forever" in prog.cls(SRV, POOLED).methods or "shutdown" in prog.cls(SRV, POOLED).methods:
        # the pooled server re-implements the serve loop / its shutdown protocol: what server_close may assume about it is not modelled
        raise AnalysisError("PooledJSONRPCServer overrides serve_forever / shutdown: the shutdown protocol server_close relies on is not modelled")
    base = [(n, c) for n in g.live_nodes() for c in node_calls(n) if call_name(c) == "server_close"]
    stop = [(n, c) for n in g.live_nodes() for c in node_calls(n) if call_name(c) == "stop"]
    pd = postdominators(g, [g.return_exit.id], NORMAL)
    okb = len(base) == 1 and base[0][0].id in pd[g.entry.id] and dump(base[0][1].func.value) in ("SimpleJSONRPCServer", "super()", "super(PooledJSONRPCServer, self)")
    ck.require(okb, "C12.2", "%s: base server_close on every normal path" % q.fn(fc), "listening socket closed",
               "PooledJSONRPCServer.server_close does not always call the base server_close: the listening socket stays open", q.loc(fc, fc.node))
    oks = len(stop) == 1 and stop[0][0].id in pd[g.entry.id] and dump(stop[0][1].func.value) == POOL
    ck.require(oks, "C12.2", "%s: request pool stopped on every normal path" % q.fn(fc), "%s.stop()" % POOL,
               "the request pool is not stopped on every normal path of server_close: its workers never terminate", q.loc(fc, fc.node))
    if okb and oks:
        ck.require(base[0][0].id in d[stop[0][0].id], "C12.2", "%s: socket closed before the pool is stopped" % q.fn(fc), "ordered",
                   "the pool is stopped before the listening socket is closed (new connections can still be queued)", q.loc(fc, stop[0][0]))

    # ---- C12.3 hand-off ----------------------------------------------------------------------------------
    fp = prog.func(SRV, POOLED + ".process_request")
    gp = cfg_of(fp)
    enq = [(n, c) for n in gp.live_nodes() for c in node_calls(n) if call_name(c) == "enqueue"]
    ck.require(len(enq) == 1, "C12.3", "%s: one enqueue" % q.fn(fp), "one hand-off", "process_request enqueues %d times" % len(enq), q.loc(fp, fp.node))
    for (n, c) in enq:
        okk = dump(c.func.value) == POOL and len(c.args) == 3 and dump(c.args[0]) == "self.process_request_thread" and \
            prov.origin(gp, n, c.args[1]) == ("param", "request") and prov.origin(gp, n, c.args[2]) == ("param", "client_address") and not c.keywords
        ck.require(okk, "C12.3", "%s: `%s`" % (q.fn(fp), dump(c)[:70]), "enqueue(self.process_request_thread, request, client_address)",
                   "the connection is handed over as `%s`: the request/handler pair is altered (e.g. finish_request without shutdown_request)" % dump(c)[:80],
                   q.loc(fp, n))
    from vlib.model import is_logging_call
    # (what is done when a bounded pool refuses the task - `except queue.Full:` - concerns a request that is not accepted at all)
    full_h = set()
    for t_ in ast.walk(fp.node):
        if isinstance(t_, ast.Try):
            for h_ in t_.handlers:
                if h_.type is not None and dump(h_.type).endswith("Full"):
                    full_h.update(id(x_) for b_ in h_.body for x_ in ast.walk(b_))
    others = [n for n in gp.live_nodes() if n.ast is not None and id(n.ast) in full_h] and [] or []
    others = [n for n in gp.live_nodes() if not (n.ast is not None and id(n.ast) in full_h) and n.kind in ("stmt", "return", "raise", "test") and not (n.kind == "stmt" and isinstance(n.ast, ast.Expr) and
              (isinstance(n.ast.value, ast.Constant) or any(n is e for (e, _c) in enq) or
               (isinstance(n.ast.value, ast.Call) and is_logging_call(n.ast.value)))) and not (n.kind == "return" and n.ast is None)]
    ck.require(not others, "C12.3", "%s: does nothing else" % q.fn(fp), "only the hand-off",
               "process_request does more than handing the connection to the pool: `%s`" % (q.stmt_text(others[0]) if others else ""), q.loc(fp, fp.node))

    # ---- C12.4 shared objects are read-only while serving -----------------------------------------------------
    from rules import c13, c02, c17
    common.import_rules(ck, c13, {"C13.3": "C12.4"})
    ck.floor("C12.4", 8)

    # ---- C12.5 containment ---------------------------------------------------------------------------------------
    common.import_rules(ck, c02, {"C02.2": "C12.5"})
    common.import_rules(ck, c17, {"C17.3": "C12.5"})
    layers = common.base_exception_layers(prog)
    fpo = prog.func(SRV, "SimpleJSONRPCRequestHandler.do_POST")
    ck.require(any(layers.values()), "C12.5", "%s: a layer between the method and socketserver catches BaseException" % SRV,
               "bare except in: %s" % [k for k, v in layers.items() if v],
               "no handler between the registered method and socketserver catches a non-Exception BaseException (SystemExit, KeyboardInterrupt "
               "raised by a method): it propagates out of the request handler, the failing request gets no reply and a plain server's "
               "serve_forever loop ends", q.loc(fpo, fpo.node))

    # the stdlib handler looks at what send_header() is given: `Connection: keep-alive` clears close_connection and the handler
    # thread then waits for a further request on that socket - with an idle client it never returns (a plain server serves nobody
    # else, a pool worker is pinned, server_close() waits for it)
    gpo_ = cfg_of(fpo)
    for n_ in gpo_.live_nodes():
        for c_ in node_calls(n_):
            if call_name(c_) == "send_header" and c_.args and isinstance(c_.args[0], ast.Constant) and str(c_.args[0].value).lower() == "connection":
                v_ = c_.args[1] if len(c_.args) > 1 else None
                ck.require(isinstance(v_, ast.Constant) and str(v_.value).lower() == "close", "C12.5", "%s: `%s`" % (q.fn(fpo), dump(c_)[:60]),
                           "Connection: close only",
                           "do_POST sends a Connection header whose value is `%s`: BaseHTTPRequestHandler.send_header switches the connection "
                           "to keep-alive for that value and the handler (thread / pool worker) stays with the client" % (dump(v_) if v_ is not None else None),
                           q.loc(fpo, n_))

    fi = prog.func(SRV, POOLED + ".__init__")
    gi = cfg_of(fi)
    di = dominators(gi)
    from vlib.flow import reachable_avoiding
    mk = [(n, c) for (n, c) in q.call_sites(prog, fi, lambda r, c: r == "class:threadpool.ThreadPool")]
    stores = [n for n in gi.live_nodes() if n.kind == "stmt" and isinstance(n.ast, ast.Assign) and dump(n.ast.targets[0]) == POOL]
    basei = [n for n in gi.live_nodes() for c in node_calls(n) if dump(c.func) == "SimpleJSONRPCServer.__init__" or
             (call_name(c) == "__init__" and "super" in dump(c.func))]
    if not (mk and stores and basei):
        raise AnalysisError("anchor vanished: default pool creation / store / base constructor in PooledJSONRPCServer.__init__")
    gd = [gi.nodes[i] for i in di[mk[0][0].id] if gi.nodes[i].kind == "branch"]
    gtests = q.guards_of(gi, mk[0][0], di)          # (a flag local `default = thread_pool is None` is read through)
    okg = len(gtests) == 1 and ((dump(gtests[0][0]) == "thread_pool is None" and gtests[0][1]) or (dump(gtests[0][0]) == "thread_pool is not None" and not gtests[0][1]))
    ck.require(okg, "C12.5", "%s: default pool only when none is given" % q.fn(fi),
               "`if thread_pool is None`", "the default pool is created under %s" % [dump(b.test) for b in gd], q.loc(fi, mk[0][0]))
    pool_var = mk[0][0].ast.targets[0].id if isinstance(mk[0][0].ast, ast.Assign) and isinstance(mk[0][0].ast.targets[0], ast.Name) else None
    st = [n for n in gi.live_nodes() for c in node_calls(n) if call_name(c) == "start" and dump(c.func.value) == pool_var and mk[0][0].id in di[n.id]]
    if not st:
        # a start() of the pool variable elsewhere in the constructor (e.g. once the socket is bound): unconditional is as good -
        # start() of a running pool does nothing -; under a condition this rule cannot evaluate it is refused, not reported
        later = [n for n in gi.live_nodes() for c in node_calls(n) if call_name(c) == "start" and isinstance(c.func, ast.Attribute) and
                 dump(c.func.value) == pool_var]
        for n_ in later:
            if not q.guards_of(gi, n_, di) and gi.return_exit.id not in reachable_avoiding(gi, gi.entry.id, set([n_.id]), lambda l: l != "exc"):
                st = [n_]
        if not st and not later and any(isinstance(x_, ast.Call) and dump(x_.func) == "getattr" and len(x_.args) >= 2 and
                                        isinstance(x_.args[1], ast.Constant) and x_.args[1].value == "start" for x_ in ast.walk(fi.node)):
            raise AnalysisError("the request pool of PooledJSONRPCServer is started through getattr(<pool>, 'start', ...): not modelled")
        if not st and later:
            raise AnalysisError("the request pool of PooledJSONRPCServer is started under a condition (`%s`): not modelled" %
                                " and ".join(dump(t_) for (t_, _p) in q.guards_of(gi, later[0], di))[:80])
    ck.require(bool(st), "C12.5", "%s: default pool started" % q.fn(fi), "<pool>.start() after creation", "the default pool is not started", q.loc(fi, mk[0][0]))
    okst = True
    for s_ in stores:
        t = prov.origin(gi, s_, s_.ast.value)
        for a in prov.alts(t):
            if not (a == ("param", "thread_pool") or (a[0] == "call" and prov.show(a[1]).endswith("ThreadPool"))):
                okst = False
    reach = reachable_avoiding(gi, gi.entry.id, set(s_.id for s_ in stores), lambda l: l != "exc")
    ck.require(okst and basei[0].id not in reach, "C12.5", "%s: pool stored before the base constructor" % q.fn(fi),
               "the pool field set (given pool or started default) on every path to the base constructor",
               "the request pool is stored after the server may already accept connections (or is not the given / default pool)",
               q.loc(fi, stores[0]))
    ck.floor("C12.5", 6)

    # ---- C12.6 request-pool accounting (no lost executions): shared with C10.7 / C10.7b ---------------------------
    from rules import c10
    common.import_rules(ck, c10, {"C10.7": "C12.6", "C10.7b": "C12.6"})
    ck.floor("C12.6", 6)

    # ---- C12.7 constructor chain of the server classes ---------------------------------------------------------------
    common.check_base_constructors(ck, "C12.7", classes=[k for k in common.BASE_INITS if k.startswith("SimpleJSONRPCServer.")])
    common.check_config_forwarding(ck, "C12.7", modules=("SimpleJSONRPCServer",))
    ck.floor("C12.7", 8)

    # ---- C12.8 no request with an id is dropped as a notification (shared with C04.3) ---------------------------------------
    from rules import c04 as _c04n, common as _cmn
    _cmn.import_rules(ck, _c04n, {"C04.3": "C12.8"})
    ck.floor("C12.8", 6)

    # ---- C12.9 every worker is joined; a queued request always finds a worker (shared with C09.5 / C10.1) -------------------
    from rules import c09 as _c09s, c10 as _c10s, common as _cms
    _cms.import_rules(ck, _c09s, {"C09.5": "C12.9"})
    _cms.import_rules(ck, _c10s, {"C10.1": "C12.9"})
    ck.floor("C12.9", 6)

    # ---- C12.10 the reply can always be sent (shared with C02.6) --------------------------------------------------------------
    from rules import c02 as _c02t12, common as _cm1210
    _cm1210.import_rules(ck, _c02t12, {"C02.6": "C12.10"})
    ck.floor("C12.10", 3)

    # ---- C12.11 pool stop protocol; per-request ids (shared with C11.3 / C11.7 / C03.1) --------------------------------------------
    from rules import c11 as _c11p, common as _cm1211
    _cm1211.import_rules(ck, _c11p, {"C11.3": "C12.11", "C11.7": "C12.11"})
    ck.floor("C12.11", 10)
