"""C08 Class translation is inert when disabled and validates names before importing."""
import ast
import re
from vlib.model import AnalysisError, dump, kwarg, call_name, FuncInfo
from vlib.cfg import cfg_of, node_calls, node_exprs
from vlib.flow import dominators
from vlib import prov, q, spec
from rules import common
from rules.common import SRV, DISP

try:
    import re._parser as sre_parse        # python >= 3.11
    import re._constants as sre_c
except ImportError:                       # pragma: no cover
    import sre_parse
    import sre_constants as sre_c

META = {
    "explanation": (
        "Decides: C08.1 the only call sites of jsonclass.load / jsonclass.dump outside jsonclass are jsonrpc.load and "
        "jsonrpc.dump, each dominated by the true edge of a test of use_jsonclass on the function's own config parameter, "
        "and with the gate off load returns its argument itself; C08.2 every decoding of received data (client "
        "_run_request, server _marshaled_dispatch) passes the instance's own configuration explicitly; C08.3 dynamic-code "
        "primitives (__import__, importlib, eval, exec, compile, pickle, calling a value obtained by getattr with a "
        "dynamic name on a module) occur only in jsonclass.load; C08.4 in jsonclass.load the emptiness test and the "
        "alphabet test dominate the class-table lookup, the import, the getattr on the module, both constructor calls "
        "and every setattr; C08.5 the validation pattern, parsed to its regex AST, rejects exactly the names containing a "
        "code point outside [A-Za-z0-9_.] (no flags, no `$` that tolerates a trailing newline), and the rejection raises "
        "TranslationError; C08.6 the server's loads call sits inside the catch-all parse guard that answers -32700 and "
        "cannot reach the dispatch.; C08.7 (shared) the -32700 reply to a rejected payload can always be encoded (imported C02.6), and servers / proxies keep the caller's Config object itself, so switching use_jsonclass off on it afterwards is effective (imported C07.7) C08.8 (imported from C05.4) the -32700 fault built for a rejected payload carries a message derived from the exception and no request-derived data object: the reply can always be serialised, so the rejection really reaches the client as -32700."),
    "does_not_decide": "that nothing is imported as an observed event; behaviour of __import__ on valid-looking names.",
    "rules": {"C08.9": "imported C14.4 (loads evaluated by E7)", "C08.8": "imported C05.4 (error message / data of the dispatcher faults)",
              "C08.7": "imported C02.6, C07.7", "C08.1": "who-may-call + dominance", "C08.2": "provenance of the config argument", "C08.3": "who-may-call on dynamic-code primitives",
              "C08.4": "dominance in jsonclass.load", "C08.5": "regex AST analysis (re._parser) vs spec table A.4", "C08.6": "handler structure + reachability"},
    "assumptions": ["re.sub(P, '', s) != s iff s contains a match of P"],
}

DYNAMIC = ("__import__", "eval", "exec", "compile", "import_module")


def charset_of_in(items):
    """set of code points (restricted to a probe universe) matched by an IN node's items, and negation flag"""
    neg = False
    pos = set()
    universe = set(range(0, 0x250)) | set([0x3b1, 0x4e2d, 0x1F600, 0x0660, 0xFF21, 0x212A, 0x17F, 0x0131])
    for (op, av) in items:
        if op is sre_c.NEGATE:
            neg = True
        elif op is sre_c.LITERAL:
            pos.add(av)
        elif op is sre_c.RANGE:
            pos |= set(range(av[0], av[1] + 1))
        elif op is sre_c.CATEGORY:
            probe = {sre_c.CATEGORY_DIGIT: r"\d", sre_c.CATEGORY_WORD: r"\w", sre_c.CATEGORY_SPACE: r"\s",
                     sre_c.CATEGORY_NOT_DIGIT: r"\D", sre_c.CATEGORY_NOT_WORD: r"\W", sre_c.CATEGORY_NOT_SPACE: r"\S"}.get(av)
            if probe is None:
                raise AnalysisError("regex category %s not modelled" % av)
            rx = re.compile(probe)
            pos |= set(c for c in universe if rx.match(chr(c)))
        else:
            raise AnalysisError("regex class item %s not modelled" % op)
    return pos, neg, universe


def analyse_pattern(pat, mode):
    """-> (ok, reason): does the validation accept exactly the non-empty strings over spec.CLASS_ALPHABET?
    mode 'sub'      : name rejected iff re.sub(P, '', name) != name  (P must match exactly one forbidden char)
    mode 'fullmatch': name accepted iff re.fullmatch(P, name)
    mode 'match'    : name accepted iff re.match(P, name)"""
    try:
        tree = sre_parse.parse(pat)
    except Exception as ex:
        return False, "pattern does not parse: %s" % ex
    if tree.state.flags & ~re.UNICODE:
        return False, "pattern carries inline flags"
    items = list(tree)
    allowed = set(ord(c) for c in spec.CLASS_ALPHABET)
    if mode == "sub":
        if len(items) != 1 or items[0][0] is not sre_c.IN:
            return False, "pattern %r is not a single character class" % pat
        pos, neg, universe = charset_of_in(items[0][1])
        matched = (universe - pos) if neg else (pos & universe)
        forbidden = universe - allowed
        if matched != forbidden:
            extra_ok = sorted(chr(c) for c in (forbidden - matched))[:8]
            extra_bad = sorted(chr(c) for c in (matched - forbidden))[:8]
            return False, "the class removes a different set of characters: wrongly accepted %r, wrongly rejected %r" % (extra_ok, extra_bad)
        return True, "negated class = complement of [A-Za-z0-9_.] (%d probe code points)" % len(universe)
    # match / fullmatch
    seq = items
    if seq and seq[0][0] is sre_c.AT and seq[0][1] in (sre_c.AT_BEGINNING, sre_c.AT_BEGINNING_STRING):
        seq = seq[1:]
    end_anchor = None
    if seq and seq[-1][0] is sre_c.AT:
        end_anchor = seq[-1][1]
        seq = seq[:-1]
    if len(seq) != 1 or seq[0][0] is not sre_c.MAX_REPEAT:
        return False, "pattern %r is not `[class]+`" % pat
    lo, hi, sub = seq[0][1]
    if lo != 1 or hi is not sre_c.MAXREPEAT:
        return False, "repetition is {%s,%s}, must be +" % (lo, hi)
    sub = list(sub)
    if len(sub) != 1 or sub[0][0] is not sre_c.IN:
        return False, "repeated item is not a character class"
    pos, neg, universe = charset_of_in(sub[0][1])
    matched = (universe - pos) if neg else (pos & universe)
    if matched != allowed:
        return False, "the class accepts a different alphabet"
    if mode == "match":
        if end_anchor is None:
            return False, "re.match without end anchor accepts any suffix"
        if end_anchor is sre_c.AT_END:
            return False, "`$` also matches before a trailing newline: 'mod.Cls\\n' is accepted"
    elif end_anchor is sre_c.AT_END:
        pass   # harmless with fullmatch
    return True, "[A-Za-z0-9_.]+ anchored"


def _stdlib_import(st):
    """`import importlib` / `from collections import deque` inside a function: a fixed standard-library module, imported late"""
    import sys as _sys
    std = getattr(_sys, "stdlib_module_names", frozenset())
    if isinstance(st, ast.Import):
        return all(al.name.split(".")[0] in std for al in st.names)
    return st.level == 0 and bool(st.module) and st.module.split(".")[0] in std


def _fixed_module_name(prog, fi, g, n, e):
    """the expression is a string constant, an item of a module-level dictionary whose values are all string constants, or a text
    built from __name__ and a parameter that a dominating test found in a module-level tuple of string constants"""
    from vlib.flow import dominators as _dom83
    consts_ok = set()
    for d_ in _dom83(g)[n.id]:
        b_ = g.nodes[d_]
        if b_.kind == "branch" and b_.polarity and isinstance(b_.test, ast.Compare) and len(b_.test.ops) == 1 and isinstance(b_.test.ops[0], ast.In) and \
                isinstance(b_.test.left, ast.Name) and isinstance(b_.test.comparators[0], (ast.Name, ast.Tuple, ast.List, ast.Set)):
            cmp_ = b_.test.comparators[0]
            val_ = cmp_ if not isinstance(cmp_, ast.Name) else (prog.modules[fi.module].assigns.get(cmp_.id) if fi.module in prog.modules else None)
            if isinstance(val_, (ast.Tuple, ast.List, ast.Set)) and val_.elts and all(isinstance(v_, ast.Constant) and isinstance(v_.value, str) for v_ in val_.elts):
                consts_ok.add(b_.test.left.id)
            if isinstance(val_, ast.Dict) and val_.keys and all(isinstance(v_, ast.Constant) and isinstance(v_.value, str) for v_ in val_.keys):
                consts_ok.add(b_.test.left.id)
    if consts_ok and all((isinstance(x_, ast.Name) and (x_.id in consts_ok or x_.id == "__name__")) or not isinstance(x_, ast.Name)
                         for x_ in ast.walk(e)) and not any(isinstance(x_, ast.Call) and not (isinstance(x_.func, ast.Attribute) and x_.func.attr == "format")
                                                            for x_ in ast.walk(e)):
        return True
    for a in prov.value_alts(prov.origin(g, n, e)):
        if a[0] == "const" and isinstance(a[1], str):
            continue
        if a[0] == "item" and a[1][0] == "global":
            val = prog.modules[fi.module].assigns.get(a[1][1]) if fi.module in prog.modules else None
            if isinstance(val, ast.Dict) and val.values and all(isinstance(v, ast.Constant) and isinstance(v.value, str) for v in val.values):
                continue
        return False
    return True


def check(ck):
    prog = ck.prog
    # ---- C08.1 gates ------------------------------------------------------------------------------
    n1 = 0
    for target, home, gate_param in (("jsonclass.load", "jsonrpc.load", "config"), ("jsonclass.dump", "jsonrpc.dump", "config")):
        sites = q.all_call_sites(prog, lambda r, c, target=target: q.is_func(r, target))
        for (fi, n, c) in sites:
            if fi.module == "jsonclass":
                continue
            n1 += 1
            if fi.fq != home:
                ck.bad("C08.1", "%s: call of %s" % (q.fn(fi), target),
                       "%s is called outside its gate function %s: payloads are translated where use_jsonclass is not consulted"
                       % (target, home), q.loc(fi, n))
                continue
            g = cfg_of(fi)
            dom = dominators(g)
            gates = [g.nodes[d] for d in dom[n.id] if g.nodes[d].kind == "branch" and g.nodes[d].polarity is True
                     and dump(g.nodes[d].test) == "%s.use_jsonclass" % gate_param]
            okk = bool(gates) and prov.origin(g, gates[0], gates[0].test.value) == ("param", gate_param)
            ck.require(okk, "C08.1", "%s: %s under the use_jsonclass gate" % (q.fn(fi), target), "dominated by `config.use_jsonclass` (own parameter)",
                       "%s is not dominated by the true edge of a test of use_jsonclass on the function's own config parameter: "
                       "with translation disabled the payload is still interpreted" % target, q.loc(fi, n))
    if n1 < 2:
        raise AnalysisError("anchor vanished: call sites of jsonclass.load/dump outside jsonclass (found %d)" % n1)
    fjl = prog.func("jsonrpc", "load")
    gj = cfg_of(fjl)
    dj = dominators(gj)
    for (rn, val) in q.return_sources(fjl):
        off = [gj.nodes[d] for d in dj[rn.id] if gj.nodes[d].kind == "branch" and dump(gj.nodes[d].test) == "config.use_jsonclass"]
        if not q.is_none_expr(val):
            t = prov.origin(gj, rn, val)
            alts = prov.alts(t)
            allowed = all(a == ("param", "data") or (a[0] == "call" and prov.show(a[1]).endswith("jsonclass.load")) for a in alts)
            pols = set(b.polarity for b in off)
            if pols == set([True]):          # result computed on the translating side only
                okk = allowed
            elif pols == set([False]):       # result computed on the gate-off side only
                okk = set(alts) == set([("param", "data")])
            else:                            # join of both sides
                okk = ("param", "data") in alts and allowed
            ck.require(okk, "C08.1", "jsonrpc.load: `%s`" % q.stmt_text(rn), "returns Param(data) itself when the gate is off",
                       "with translation disabled jsonrpc.load returns %s instead of its argument unchanged" % prov.show(t)[:80], q.loc(fjl, rn))

    # ---- C08.2 config reaches the gate -------------------------------------------------------------------
    n2 = 0
    for fi in prog.funcs.values():
        if fi.module not in ("jsonrpc", SRV) or fi.fq in ("jsonrpc.loads", "jsonrpc.load"):
            continue
        for (n, c) in q.call_sites(prog, fi, lambda r, c: q.is_func(r, "jsonrpc.loads") or q.is_func(r, "jsonrpc.load")):
            n2 += 1
            t = q.arg_origin(fi, n, c, "config", 1)
            okk = t is not None and (q.self_attr(t, "_config") or q.self_attr(t, "json_config"))
            ck.require(okk, "C08.2", "%s: `%s`" % (q.fn(fi), dump(c)[:60]), "decodes with the instance's own configuration",
                       "received data is decoded with %s: the use_jsonclass setting of this proxy/server is not the one consulted"
                       % (prov.show(t) if t else "the shared DEFAULT configuration"), q.loc(fi, n))
    if n2 < 2:
        raise AnalysisError("anchor vanished: loads() call sites on received data (found %d)" % n2)

    # ---- C08.3 dynamic-code primitives confined -------------------------------------------------------------
    n3 = 0
    for fi in prog.funcs.values():
        g = cfg_of(fi)
        for n in g.live_nodes():
            for c in node_calls(n):
                nm = call_name(c)
                if nm in DYNAMIC or (isinstance(c.func, ast.Attribute) and dump(c.func.value) in ("importlib", "pickle", "marshal")):
                    n3 += 1
                    if fi.fq != "jsonclass.load" and nm in ("import_module", "__import__") and c.args and _fixed_module_name(prog, fi, g, n, c.args[0]):
                        ck.ok("C08.3", "%s: %s(...)" % (q.fn(fi), nm), "imports a module named by a constant of the package (nothing received decides it)", q.loc(fi, n))
                        continue
                    ck.require(fi.fq == "jsonclass.load", "C08.3", "%s: %s(...)" % (q.fn(fi), nm), "confined to jsonclass.load",
                               "the dynamic-code primitive `%s` is used outside jsonclass.load, where no name validation dominates it" % dump(c.func),
                               q.loc(fi, n))
        for st in ast.walk(fi.node):
            if isinstance(st, (ast.Import, ast.ImportFrom)) and fi.module != "jsonlib" and not _stdlib_import(st):
                ck.bad("C08.3", "%s: local import statement" % q.fn(fi), "an import statement inside a function outside jsonlib", q.loc(fi, st))
    if n3 < 1:
        raise AnalysisError("anchor vanished: __import__ in jsonclass.load")
    ck.ok("C08.3", "package-wide scan", "%d dynamic-code call(s), all in jsonclass.load (%d functions scanned)" % (n3, len(prog.funcs)), "")

    # ---- C08.4 validate before use -------------------------------------------------------------------------------
    fl = prog.func("jsonclass", "load")
    g = cfg_of(fl)
    dom = dominators(g)
    raises = [n for n in g.live_nodes() if n.kind == "raise" and "TranslationError" in dump(n.ast.exc)]
    # name variable: obj['__jsonclass__'][0]
    name_vars = set()
    for n in g.live_nodes():
        if n.kind == "stmt" and isinstance(n.ast, ast.Assign) and isinstance(n.ast.targets[0], ast.Name):
            t = prov.origin(g, n, n.ast.value)
            if t == ("item", ("item", ("param", "obj"), ("const", "__jsonclass__")), ("const", 0)):
                name_vars.add(n.ast.targets[0].id)
    if len(name_vars) < 1:
        raise AnalysisError("anchor vanished: the class-name variable in jsonclass.load (found %s)" % sorted(name_vars))
    nv = sorted(name_vars)[0]
    empty_guard = [n for n in g.live_nodes() if n.kind == "branch" and dump(n.test) in name_vars and n.polarity is True]
    # alphabet guard: branch on `<clean> != <name>` (false edge) or fullmatch/match result (true edge)
    alpha_guard = []
    mode = None
    pattern_expr = None
    for n in g.live_nodes():
        if n.kind != "branch":
            continue
        t = n.test
        if isinstance(t, ast.Compare) and len(t.ops) == 1 and isinstance(t.ops[0], (ast.NotEq, ast.Eq)):
            sides = [t.left, t.comparators[0]]
            terms = [prov.origin(g, n, s) for s in sides]
            for i in (0, 1):
                a, b = terms[i], terms[1 - i]
                if a[0] == "call" and prov.show(a[1]) == "re.sub" and len(a[2]) == 3 and a[2][1] == ("const", "") and a[2][2] == b \
                        and b == ("item", ("item", ("param", "obj"), ("const", "__jsonclass__")), ("const", 0)):
                    want_pol = False if isinstance(t.ops[0], ast.NotEq) else True
                    if n.polarity is want_pol:
                        alpha_guard.append(n)
                        mode = "sub"
                        pattern_expr = a[2][0]
        elif isinstance(t, ast.Call) or isinstance(t, ast.Name):
            tt = prov.origin(g, n, t)
            if tt[0] == "call" and prov.show(tt[1]) in ("re.fullmatch", "re.match") and len(tt[2]) == 2 and n.polarity is True:
                alpha_guard.append(n)
                mode = prov.show(tt[1])[3:]
                pattern_expr = tt[2][0]
            elif tt[0] == "call" and tt[1][0] == "attr" and tt[1][2] in ("match", "fullmatch") and tt[1][1][0] == "global" \
                    and len(tt[2]) == 1 and n.polarity is True:
                # precompiled module-level pattern: NAME = re.compile(<const>)
                val = prog.modules["jsonclass"].assigns.get(tt[1][1][1])
                if isinstance(val, ast.Call) and dump(val.func) == "re.compile" and len(val.args) == 1 and not val.keywords \
                        and isinstance(val.args[0], ast.Constant):
                    alpha_guard.append(n)
                    mode = tt[1][2]
                    pattern_expr = ("const", val.args[0].value)
    ck.require(bool(empty_guard), "C08.4", "%s: emptiness guard" % q.fn(fl), "`if not name: raise`",
               "no guard rejects an empty class name", q.loc(fl, fl.node))
    ck.require(bool(alpha_guard), "C08.4", "%s: alphabet guard" % q.fn(fl), "validation idiom recognised (%s)" % mode,
               "no recognised validation of the class name (re.sub(P, '', name) != name, re.fullmatch, or re.match with \\Z) guards the translation",
               q.loc(fl, fl.node))
    sensitive = []
    for n in g.live_nodes():
        for c in node_calls(n):
            nm = call_name(c)
            ctor = isinstance(c.func, ast.Name) and nm not in ("load", "dict", "list", "tuple", "set") and \
                (any(isinstance(a, ast.Starred) for a in c.args) or any(k.arg is None for k in c.keywords))
            if ctor:
                sensitive.append((n, "constructor call %s(...)" % nm))
            elif nm == "import_module":
                sensitive.append((n, "__import__(...) [importlib.import_module]"))
            elif nm in ("__import__", "setattr") or (nm == "getattr" and len(c.args) >= 2 and not isinstance(c.args[1], ast.Constant)):
                sensitive.append((n, "%s(...)" % nm))
        for e in node_exprs(n):
            for sub in ast.walk(e):
                if isinstance(sub, ast.Subscript) and isinstance(sub.ctx, ast.Load) and dump(sub.value) in ("classes", "classes or {}", "(classes or {})"):
                    sensitive.append((n, "classes[...] lookup"))
                if isinstance(sub, ast.Subscript) and isinstance(sub.ctx, ast.Store) and dump(sub.value) == "obj":
                    pass
    kinds = set(w.split("(")[0].split(" ")[0] for (_n, w) in sensitive)
    if not set(["__import__", "setattr", "getattr", "constructor", "classes[...]"]) <= kinds:
        raise AnalysisError("anchor vanished: import / lookup / constructor / setattr sites in jsonclass.load (found %s)" % sorted(kinds))
    for (n, what) in sensitive:
        okk = any(b.id in dom[n.id] for b in empty_guard) and any(b.id in dom[n.id] for b in alpha_guard)
        ck.require(okk, "C08.4", "%s: %s" % (q.fn(fl), what), "dominated by both name guards",
                   "`%s` can be reached before the class name has passed the emptiness and alphabet checks" % q.stmt_text(n)[:60], q.loc(fl, n))
    # the rejecting edges raise TranslationError
    for guards, label in ((empty_guard, "empty name"), (alpha_guard, "invalid characters")):
        for b in guards:
            sib = [x for x in g.live_nodes() if x.kind == "branch" and x.test is b.test and x.polarity is not b.polarity]
            okk = bool(sib) and all(any(m.kind == "raise" and "TranslationError" in dump(m.ast.exc) for m in
                                        [g.nodes[i] for i in _straight(g, s.id)]) for s in sib)
            ck.require(okk, "C08.4", "%s: rejection of %s" % (q.fn(fl), label), "raises TranslationError",
                       "a class name with %s is not rejected with TranslationError" % label, q.loc(fl, b))

    # ---- C08.5 the alphabet ---------------------------------------------------------------------------------------------
    if alpha_guard:
        pat = None
        if pattern_expr[0] == "const":
            pat = pattern_expr[1]
        elif pattern_expr[0] == "global":
            try:
                pat = prog.const("jsonclass", pattern_expr[1])
            except AnalysisError:
                pat = None
        if not isinstance(pat, str):
            ck.bad("C08.5", "%s: validation pattern" % q.fn(fl), "the validation pattern is not a constant string (%s)" % prov.show(pattern_expr), q.loc(fl, alpha_guard[0]))
        else:
            okk, why = analyse_pattern(pat, mode)
            ck.require(okk, "C08.5", "jsonclass: class-name pattern (%s mode)" % mode, "%r: %s" % (pat, why),
                       "the class-name validation %r (%s) does not accept exactly the non-empty names over [A-Za-z0-9_.]: %s" % (pat, mode, why),
                       q.loc(fl, alpha_guard[0]))
        # flags argument of the re call
        for n in g.live_nodes():
            for c in node_calls(n):
                if dump(c.func) in ("re.sub", "re.fullmatch", "re.match", "re.compile") and (len(c.args) > (4 if dump(c.func) == "re.sub" else 2) or
                                                                                                any(k.arg == "flags" for k in c.keywords)):
                    ck.bad("C08.5", "%s: `%s`" % (q.fn(fl), dump(c)[:50]), "the validation is compiled with flags", q.loc(fl, n))

    # ---- C08.6 rejections become -32700 and run nothing -------------------------------------------------------------------
    fm = prog.func(SRV, DISP + "._marshaled_dispatch")
    decode = []
    for fi in prog.module_funcs(SRV):
        for (n, c) in q.call_sites(prog, fi, lambda r, c: q.is_func(r, "jsonrpc.loads") or q.is_func(r, "jsonrpc.load")
                                   or q.is_func(r, "jsonclass.load")):
            decode.append((fi, n, c))
    if not decode:
        raise AnalysisError("anchor vanished: no decoding call (loads/load) in the server module")
    guard_try = None
    for (fi, n, c) in decode:
        inside = None
        if fi.fq == fm.fq:
            for t in ast.walk(fm.node):
                if isinstance(t, ast.Try) and any(st is n.ast for st in t.body):
                    inside = t
        okk = inside is not None and q.is_func(prog.resolve_call(fi, c), "jsonrpc.loads")
        ck.require(okk, "C08.6", "%s: `%s`" % (q.fn(fi), dump(c)[:50]), "whole payload decoded by loads, unconditionally, inside the parse guard",
                   "received data is translated by `%s` %s: a payload the translator rejects is no longer answered by a single "
                   "-32700 with nothing invoked (entries can be dispatched before or although another part is rejected)" % (
                       dump(c)[:50], "outside the parse guard of _marshaled_dispatch" if inside is None else "instead of loads on the whole text"),
                   q.loc(fi, n))
        if inside is not None:
            guard_try = inside
    if guard_try is not None:
        t = guard_try
        catch_all = any(h.type is None or dump(h.type) in ("Exception", "BaseException") for h in t.handlers)
        ck.require(catch_all, "C08.6", "%s: guard around loads" % q.fn(fm), "catch-all",
                   "translator rejections other than the listed exception classes escape the parse guard", q.loc(fm, t))
        for h in t.handlers:
            calls = [c for st in h.body for c in ast.walk(st) if isinstance(c, ast.Call)]
            codes = [dump(c.args[0]) for c in calls if prog.resolve_call(fm, c) == "class:jsonrpc.Fault" and c.args]
            ck.require(codes == ["-32700"], "C08.6", "%s: handler answers -32700" % q.fn(fm), "-32700",
                       "a rejected payload is answered with %s" % codes, q.loc(fm, h))
            ck.require(not any(call_name(c) in ("_unmarshaled_dispatch", "_marshaled_single_dispatch", "_dispatch") for c in calls),
                       "C08.6", "%s: handler dispatches nothing" % q.fn(fm), "no dispatch", "the parse-failure handler dispatches", q.loc(fm, h))
    # ---- C08.7 shared clauses -----------------------------------------------------------------------------------------------
    from rules import c02 as _c02, c07 as _c07, common as _cm8
    _cm8.import_rules(ck, _c02, {"C02.6": "C08.7"})
    _cm8.import_rules(ck, _c07.rule_c07_7, {"C07.7": "C08.7"})
    ck.floor("C08.7", 8)

    # ---- C08.8 the rejection can be sent (shared with C05.4) ----------------------------------------------------------------------
    from rules import c05 as _c05d
    _cm8.import_rules(ck, _c05d, {"C05.4": "C08.8"})
    ck.floor("C08.8", 4)

    # ---- C08.9 every parsed payload goes through the translator gate (shared with C14.4) -------------------------------------------
    # loads() hands what the JSON parser returned to load() on every path: a fast path that skips load() for texts that do not
    # *spell* "__jsonclass__" misses descriptors whose key is written with JSON escapes
    from rules import c14 as _c14g
    _cm8.import_rules(ck, _c14g, {"C14.4": "C08.9"})
    ck.floor("C08.9", 4)


def _straight(g, nid, limit=12):
    """nodes on the straight-line continuation of nid (single normal successor chain)"""
    out = [nid]
    cur = nid
    for _ in range(limit):
        nxt = [b for (b, l) in g.succ[cur] if l != "exc"]
        if len(nxt) != 1:
            break
        cur = nxt[0]
        out.append(cur)
    return out

