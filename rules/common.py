"""Helpers shared by several property rule modules."""
import ast
from vlib.model import AnalysisError, dump, kwarg, call_name, FuncInfo, mangle
from vlib.cfg import cfg_of, node_calls, node_exprs
from vlib import prov, q, shape, spec

SRV = "SimpleJSONRPCServer"
DISP = "SimpleJSONRPCDispatcher"

MUTATORS = {"append", "extend", "insert", "pop", "remove", "clear", "update", "setdefault", "add", "discard",
            "sort", "reverse", "popitem", "difference_update", "intersection_update", "__setitem__", "__delitem__"}


def config_fields(prog):
    """attribute names assigned on self in Config.__init__ -> value expr"""
    fi = prog.func("config", "Config.__init__")
    out = {}
    # a local bound once in the constructor stands for its value (`tmp = LocalClasses(); self.classes = tmp`)
    once = {}
    params = set(a.arg for a in fi.node.args.args)
    for st in ast.walk(fi.node):
        if isinstance(st, ast.Name) and isinstance(st.ctx, ast.Store):
            once[st.id] = once.get(st.id, 0) + 1
    local_val = {}
    for st in ast.walk(fi.node):
        if isinstance(st, ast.Assign) and len(st.targets) == 1 and isinstance(st.targets[0], ast.Name) and \
                once.get(st.targets[0].id) == 1 and st.targets[0].id not in params:
            local_val[st.targets[0].id] = st.value
    for st in ast.walk(fi.node):
        if isinstance(st, ast.Assign):
            for t in st.targets:
                if isinstance(t, ast.Attribute) and isinstance(t.value, ast.Name) and t.value.id == "self":
                    v = st.value
                    if isinstance(v, ast.Name) and v.id in local_val:
                        v = local_val[v.id]
                    out[t.attr] = v
    if len(out) < 8:
        raise AnalysisError("anchor vanished: Config.__init__ assigns %d fields (8 confirmed)" % len(out))
    return out


def config_params(prog, fi):
    """parameters of fi whose default is the shared DEFAULT configuration, plus those named like a config"""
    out = set()
    a = fi.node.args
    params = a.args
    defaults = [None] * (len(params) - len(a.defaults)) + list(a.defaults)
    for p, d in zip(params, defaults):
        if d is not None and prog.resolve(fi.module, d) == "config.DEFAULT":
            out.add(p.arg)
        elif p.arg in ("config", "json_config"):
            out.add(p.arg)
    return out


CONFIG_ATTRS = ("json_config", "_config", "config")


def is_config_like(prog, fi, t):
    """term denotes a long-lived Config: a config parameter, self.<config attr>, or the global DEFAULT"""
    if t[0] == "param" and t[1] in config_params(prog, fi):
        return True
    if t[0] == "attr" and t[2] in CONFIG_ATTRS and t[1][0] in ("param", "attr"):
        return True
    if t[0] == "global" and t[1] == "DEFAULT":
        return True
    if t[0] == "attr" and t[2] == "DEFAULT":
        return True
    if t[0] in ("or",):
        return any(is_config_like(prog, fi, x) for x in t[1])
    return False


def is_fresh(t):
    """term denotes an object created in this function: constructor call, .copy(), display"""
    if t[0] == "call":
        f = t[1]
        if f[0] == "attr" and f[2] in ("copy", "deepcopy"):
            return True
        if f[0] == "global" and (f[1][:1].isupper() or f[1] in ("dict", "list", "set", "tuple")):
            return True
        if f[0] == "attr" and f[2][:1].isupper():
            return True
        return False
    if t[0] in ("tuple",):
        return True
    if t[0] == "other":
        return t[1][:1] in "[{(" or t[1].startswith("dict(") or t[1].startswith("set(")
    if t[0] == "const":
        return True
    return False


def base_of(e):
    """the object whose state a store/mutating call changes: strip trailing subscripts"""
    while isinstance(e, ast.Subscript):
        e = e.value
    return e


def mutations(fi):
    """[(node, description, receiver expr)] : attribute stores, subscript stores, deletes, augmented
    assignments on attributes/subscripts, mutating method calls, setattr()."""
    g = cfg_of(fi)
    out = []
    for n in g.live_nodes():
        a = n.ast
        if n.kind == "stmt":
            targets = []
            if isinstance(a, ast.Assign):
                for t in a.targets:
                    targets += list(t.elts) if isinstance(t, (ast.Tuple, ast.List)) else [t]
            elif isinstance(a, ast.AugAssign):
                targets = [a.target]
            elif isinstance(a, ast.Delete):
                targets = list(a.targets)
            if isinstance(a, ast.AugAssign) and isinstance(a.target, ast.Name) and isinstance(a.op, (ast.Add, ast.BitOr, ast.Mult)):
                # `x += [..]` / `x += other_list` extends the object x denotes in place (lists, sets, dicts); told from arithmetic by a
                # container among the values of either side
                def _containerish(e_):
                    for al_ in prov.value_alts(prov.origin(g, n, e_)):
                        if al_[0] == "tuple" or (al_[0] == "other" and al_[1][:1] in ("[", "{")) or \
                                (al_[0] == "call" and al_[1][0] == "global" and al_[1][1] in ("list", "set", "dict", "sorted")):
                            return True
                    return False
                recv_ = ast.copy_location(ast.Name(id=a.target.id, ctx=ast.Load()), a.target)
                if _containerish(a.value) or _containerish(recv_):
                    out.append((n, "in-place `%s`" % dump(a)[:40], recv_))
            for t in targets:
                if isinstance(t, ast.Attribute):
                    out.append((n, "store %s" % dump(t), t.value))
                elif isinstance(t, ast.Subscript):
                    out.append((n, "store %s" % dump(t), base_of(t)))
        for c in node_calls(n):
            if isinstance(c.func, ast.Attribute) and c.func.attr in MUTATORS:
                out.append((n, "call %s" % dump(c.func), base_of(c.func.value)))
            elif isinstance(c.func, ast.Name) and c.func.id in ("setattr", "delattr") and c.args:
                out.append((n, "%s(%s, ...)" % (c.func.id, dump(c.args[0])), c.args[0]))
    return out


def callees(prog, fi):
    g = cfg_of(fi)
    out = []
    for n in g.live_nodes():
        for c in node_calls(n):
            r = prog.resolve_call(fi, c)
            if isinstance(r, FuncInfo):
                out.append((n, c, r))
            elif isinstance(r, str) and r.startswith("class:") and r[6:] in prog.classes:
                init = prog.mro_lookup(prog.classes[r[6:]], "__init__")
                if init is not None:
                    out.append((n, c, init))
            # bound methods passed as values: enqueue(self._dispatch, ...), Thread(target=self.__run)
            for a in list(c.args) + [k.value for k in c.keywords]:
                if isinstance(a, ast.Attribute) and isinstance(a.value, ast.Name) and a.value.id == "self" and fi.cls:
                    m = prog.mro_lookup(fi.cls, a.attr)
                    if m is not None:
                        out.append((n, c, m))
    return out


def closure(prog, roots, skip_modules=()):
    seen = {}
    stack = list(roots)
    while stack:
        fi = stack.pop()
        if fi.fq in seen or fi.module in skip_modules:
            continue
        seen[fi.fq] = fi
        for (_n, _c, r) in callees(prog, fi):
            if r.fq not in seen:
                stack.append(r)
    return seen


def serving_roots(prog):
    return [prog.func(SRV, "SimpleJSONRPCRequestHandler.do_POST"),
            prog.func(SRV, DISP + "._marshaled_dispatch"),
            prog.func(SRV, "PooledJSONRPCServer.process_request"),
            prog.func(SRV, "CGIJSONRPCRequestHandler.handle_jsonrpc")]


# ---------------------------------------------------------------------------
# Payload shapes (E7): used by C02.4, C13.5, C14.1
# ---------------------------------------------------------------------------
def payload_obj(rep, rpcid=None):
    def mk():
        return shape.Obj("Payload", {"id": rpcid if rpcid is not None else shape.Sym("rpcid", truthy=True),
                                     "version": shape.K(rep)})
    return mk


def payload_via_init(prog, version_input, config_version=2.0, rpcid=None):
    """factory of Payload objects built by abstractly evaluating Payload.__init__(rpcid, version, config)"""
    finit = prog.func("jsonrpc", "Payload.__init__")

    def mk():
        o = shape.Obj("Payload", {})
        ev = shape.Evaluator(prog, "jsonrpc", lenient=True)
        res = ev.run(finit, {"rpcid": rpcid if rpcid is not None else shape.Sym("rpcid", truthy=True),
                             "version": shape.K(version_input),
                             "config": shape.Opaque("Config", {"version": shape.K(config_version)})}, o)
        if len(res) != 1 or res[0][1][0] != "return":
            raise AnalysisError("Payload.__init__ could not be evaluated for version %r: %r" % (version_input, res[:1]))
        return o
    return mk


def eval_payload(prog, method, rep, args, rpcid=None):
    fi = prog.func("jsonrpc", "Payload." + method)
    ev = shape.Evaluator(prog, "jsonrpc", lenient=True)      # (undecided tests fork: every outcome is compared with the envelope table)
    if isinstance(rep, tuple):       # (version argument, config version): go through the constructor
        return fi, ev.run(fi, dict(args), payload_via_init(prog, rep[0], rep[1], rpcid))
    return fi, ev.run(fi, dict(args), payload_obj(rep, rpcid))


def version_regions(prog):
    """Constants the Payload methods compare self.version with -> representative per region.
    The property speaks about region v1 (< smallest constant) and v2 (>= largest constant)."""
    consts = set()
    for m in ("request", "notify", "response", "error"):
        fi = prog.func("jsonrpc", "Payload." + m)
        for c in ast.walk(fi.node):
            if isinstance(c, ast.Compare) and dump(c.left) == "self.version":
                for x in c.comparators:
                    if isinstance(x, ast.Constant) and isinstance(x.value, (int, float)):
                        consts.add(float(x.value))
    if not consts:
        raise AnalysisError("anchor vanished: version comparisons in Payload")
    return sorted(consts)


def check_envelopes(ck, rule, prog, builders):
    """Evaluate Payload builders per version representative and compare key sets with spec.ENVELOPES."""
    version_regions(prog)     # anchor: the builders still compare self.version with constants
    # representatives of the two regions the property speaks about (versions 1.0 and 2.0 after float())
    # each representative is (version argument, Config.version) handed to Payload.__init__: floats, integers,
    # strings, and None (= taken from the configuration, itself float or integer)
    reps = {"v1": [(1.0, 2.0), (1, 2.0), ("1.0", 2.0), (None, 1.0), (None, 1)],
            "v2": [(2.0, 2.0), (2, 2.0), ("2.0", 2.0), (None, 2.0), (None, 2)]}
    if ck.tier == "thorough":
        reps["v1"] += [("1", 2.0), (1.0, 1.0), (1.0, 1), (None, "1.0"), (0, 1.0), (0.0, 1), ("", 1.0)]
        reps["v2"] += [("2", 1.0), (2.0, 1.0), (2, 1), (None, "2.0"), (0, 2.0), (0.0, 2), ("", 2.0)]
    n = 0
    for b in builders:
        for region in ("v1", "v2"):
            for rep in reps[region]:
                if b in ("request", "notify"):
                    # (the parameters of a call are a list or a dictionary: what dump() lets through)
                    cases = [("params", shape.Sym("params", truthy=True, pytype=list)), ("params", shape.Sym("params", truthy=True, pytype=dict)),
                             ("noparams", shape.K(None)),
                             ("noparams", shape.L([]))]
                    if ck.tier == "thorough":
                        cases += [("noparams", shape.D({})), ("noparams", shape.K(())),
                                  ("params", shape.L([shape.K(None)])), ("params", shape.L([shape.K(0)])),
                                  ("params", shape.D({"a": shape.K(None)})), ("params", shape.L([shape.L([])]))]
                    for (ptag, pval) in cases:
                        fi, res = eval_payload(prog, b, rep, {"method": shape.Sym("method", truthy=True, pytype=str),
                                                              "params": pval})
                        want = spec.ENVELOPES[(b, region, ptag)]
                        for (_tr, out) in res:
                            n += 1
                            _cmp(ck, rule, fi, "%s[version=%r,%s%s]" % (b, rep, ptag, "" if isinstance(pval, shape.Sym) or (isinstance(pval, shape.K) and pval.v is None) else " %r" % (pval,)),
                                 out, want, region, b, given=pval)
                elif b == "response":
                    fi, res = eval_payload(prog, b, rep, {"result": shape.Sym("result")})
                    for (_tr, out) in res:
                        n += 1
                        _cmp(ck, rule, fi, "response[version=%r]" % (rep,), out, spec.ENVELOPES[("response", region)], region, b)
                elif b == "error":
                    dcases = [("data=None", shape.K(None)), ("data", shape.Sym("data", truthy=True)), ("data falsy", shape.K(0))]
                    if ck.tier == "thorough":
                        dcases += [("data falsy ''", shape.K("")), ("data falsy []", shape.L([])), ("data falsy {}", shape.D({})),
                                   ("data falsy False", shape.K(False)), ("data falsy 0.0", shape.K(0.0))]
                    for (dtag, dval) in dcases:
                        fi, res = eval_payload(prog, b, rep, {"code": shape.Sym("code", truthy=True, pytype=int),
                                                              "message": shape.Sym("message", truthy=True, pytype=str),
                                                              "data": dval})
                        for (_tr, out) in res:
                            n += 1
                            _cmp(ck, rule, fi, "error[version=%r,%s]" % (rep, dtag), out,
                                 spec.ENVELOPES[("error", region)], region, b, dtag, given=dval)
    return n


def _cmp(ck, rule, fi, label, out, want, region, builder, dtag=None, given=None):
    where = "jsonrpc.Payload." + label
    if out[0] != "return" or not isinstance(out[1], shape.D):
        ck.bad(rule, where, "builder does not return a dictionary: %r" % (out,), q.loc(fi, fi.node))
        return
    d = out[1].items
    keys = set(d)
    problems = []
    if keys != want:
        problems.append("members %s, required %s" % (sorted(keys), sorted(want)))
    if "jsonrpc" in d:
        v = d["jsonrpc"]
        okv = (isinstance(v, shape.K) and v.v == str(float(v.v))) if isinstance(v, shape.K) and isinstance(v.v, str) and _isfloat(v.v) else False
        if not okv:
            problems.append("\"jsonrpc\" value is %r, required str(float(version))" % (v,))
    if builder == "response":
        r = d.get("result")
        if not (isinstance(r, shape.Sym) and r.label == "result"):
            problems.append("\"result\" is %r, not the given result unchanged" % (r,))
        if region == "v1" and d.get("error") != shape.K(None):
            problems.append("1.0 response must carry \"error\": null")
    if builder in ("response", "error"):
        i = d.get("id")
        if not (isinstance(i, shape.Sym) and i.label == "rpcid"):
            problems.append("\"id\" is %r, not the payload id unchanged" % (i,))
    if builder == "error":
        e = d.get("error")
        if not isinstance(e, shape.D):
            problems.append("\"error\" is not an object: %r" % (e,))
        else:
            ek = set(e.items)
            wantk = {"code", "message"} | ({"data"} if dtag and dtag != "data=None" else set())
            if ek != wantk:
                problems.append("error object members %s, required %s (%s)" % (sorted(ek), sorted(wantk), dtag))
            for k in ("code", "message"):
                v = e.items.get(k)
                if not (isinstance(v, shape.Sym) and v.label == k):
                    problems.append("error.%s is %r, not the given %s" % (k, v, k))
            if "data" in e.items and given is not None and e.items["data"] is not given and not (e.items["data"] == given):
                problems.append("error.data is %r, not the given data %r" % (e.items["data"], given))
        if region == "v1" and d.get("result") != shape.K(None):
            problems.append("1.0 error must carry \"result\": null")
    if builder in ("request", "notify"):
        mv = d.get("method")
        if not (isinstance(mv, shape.Sym) and mv.label == "method"):
            problems.append("\"method\" is %r" % (mv,))
        if "params" in want and "params" in d:
            pv = d["params"]
            if "noparams" in label:
                given_container = given is not None and not (isinstance(given, shape.K) and given.v is None)
                if not given_container and isinstance(pv, shape.K) and pv.v is None:
                    # the builder passes None through: acceptable only if its caller never hands it None (decided by C14.3 on dump)
                    if not hasattr(ck.prog, "_payload_passes_none"):
                        ck.prog._payload_passes_none = set()
                    ck.prog._payload_passes_none.add(builder)
                elif not ((isinstance(pv, shape.L) and not pv.elts) or (given_container and pv is given)):
                    problems.append("empty params must be emitted as [] (or as the empty container given): %r" % (pv,))
            elif not ((isinstance(pv, shape.Sym) and pv.label == "params") or (given is not None and pv is given)):
                problems.append("\"params\" is %r, not the given params" % (pv,))
        if builder == "request":
            i = d.get("id")
            if not (isinstance(i, shape.Sym) and i.label == "rpcid"):
                problems.append("\"id\" is %r, not the supplied id" % (i,))
        if builder == "notify" and region == "v1" and d.get("id") != shape.K(None):
            problems.append("1.0 notification must carry \"id\": null")
    ck.require(not problems, rule, where, "members %s" % sorted(keys), "; ".join(problems), q.loc(fi, fi.node))


def _isfloat(s):
    try:
        float(s)
        return True
    except ValueError:
        return False


def _getattr_table(prog, fi, g, node, e):
    """names of a table `{name: getattr(self, name) for name in <constant tuple>}` bound once to the name `e`; None if not of that form"""
    if not isinstance(e, ast.Name):
        return None
    binds = [st for st in ast.walk(fi.node) if isinstance(st, ast.Assign) and any(isinstance(t, ast.Name) and t.id == e.id for t in st.targets)]
    if len(binds) != 1 or not isinstance(binds[0].value, ast.DictComp):
        return None
    dc = binds[0].value
    if len(dc.generators) != 1 or dc.generators[0].ifs or not isinstance(dc.generators[0].target, ast.Name):
        return None
    v = dc.generators[0].target.id
    if not (isinstance(dc.key, ast.Name) and dc.key.id == v and isinstance(dc.value, ast.Call) and dump(dc.value.func) == "getattr" and
            len(dc.value.args) == 2 and dump(dc.value.args[0]) == "self" and dump(dc.value.args[1]) == v):
        return None
    it = dc.generators[0].iter
    names = None
    if isinstance(it, (ast.Tuple, ast.List)) and all(isinstance(x, ast.Constant) and isinstance(x.value, str) for x in it.elts):
        names = [x.value for x in it.elts]
    elif isinstance(it, ast.Attribute) and dump(it.value) == "self" and fi.cls is not None:
        cb = [st for st in fi.cls.node.body if isinstance(st, ast.Assign) and any(isinstance(t, ast.Name) and t.id == it.attr for t in st.targets)]
        if len(cb) == 1 and isinstance(cb[0].value, (ast.Tuple, ast.List)) and all(isinstance(x, ast.Constant) and isinstance(x.value, str) for x in cb[0].value.elts):
            names = [x.value for x in cb[0].value.elts]
    if names is None:
        return None
    # completed afterwards only by update(<**kwargs parameter>) - the caller's explicit overrides
    kwp = fi.node.args.kwarg.arg if fi.node.args.kwarg is not None else None
    for x in ast.walk(fi.node):
        if isinstance(x, ast.Call) and isinstance(x.func, ast.Attribute) and dump(x.func.value) == e.id and x.func.attr not in ("get", "keys", "items", "values", "copy"):
            if not (x.func.attr == "update" and len(x.args) == 1 and isinstance(x.args[0], ast.Name) and x.args[0].id == kwp):
                return None
        if isinstance(x, ast.Subscript) and isinstance(x.ctx, (ast.Store, ast.Del)) and dump(x.value) == e.id:
            return None
    return names


def check_config_copy(ck, rule, only=None):
    """Sibling agreement Config.__init__ <-> Config.copy: every field is carried from the same source attribute,
    mutable containers are rebound to copies (shared by C13.2, C07.6, C20.6)."""
    prog = ck.prog
    fields = config_fields(prog)
    finit = prog.func("config", "Config.__init__")
    fcopy = prog.func("config", "Config.copy")
    gc = cfg_of(fcopy)
    # field -> constructor parameter (the parameter whose value reaches self.<field>)
    ginit = cfg_of(finit)
    field_param = {}
    for n in ginit.live_nodes():
        if n.kind == "stmt" and isinstance(n.ast, ast.Assign):
            for tg in n.ast.targets:
                if isinstance(tg, ast.Attribute) and dump(tg.value) == "self":
                    t = prov.origin(ginit, n, n.ast.value)
                    ps = sorted(set(x[1] for x in prov.subterms(t) if x[0] == "param" and x[1] != "self"))
                    if ps:
                        # (the parameter named like the field when several contribute - a fall-back chain `x if y is None else y`)
                        field_param[tg.attr] = tg.attr if tg.attr in ps else ps[0]
    ctor = [(n, c) for (n, c) in q.call_sites(prog, fcopy, lambda r, c: r == "class:config.Config")]
    if len(ctor) != 1:
        raise AnalysisError("anchor vanished: Config(...) call in Config.copy (found %d)" % len(ctor))
    cn, cc = ctor[0]
    init_params = [p for p in finit.params if p != "self"]
    carried = {}
    for i, a in enumerate(cc.args):
        if i < len(init_params):
            carried[init_params[i]] = prov.origin(gc, cn, a)
    for k in cc.keywords:
        if k.arg is None:
            # Config(**members) with members = {name: getattr(self, name) for name in <constant tuple of names>} (later completed
            # by caller-given overrides): each listed name is carried from the attribute of that name
            got = _getattr_table(prog, fcopy, gc, cn, k.value)
            if got is None:
                raise AnalysisError("Config.copy hands `**%s` to the constructor: a table that cannot be resolved (not modelled)" % dump(k.value))
            for nm_ in got:
                carried.setdefault(nm_, ("attr", ("param", "self"), nm_))
            continue
        carried[k.arg] = prov.origin(gc, cn, k.value)
    new_var = cn.ast.targets[0].id if isinstance(cn.ast, ast.Assign) and isinstance(cn.ast.targets[0], ast.Name) else None
    rebound = {}
    for n in gc.live_nodes():
        if n.kind == "stmt" and isinstance(n.ast, ast.Assign):
            for tg in n.ast.targets:
                if isinstance(tg, ast.Attribute) and isinstance(tg.value, ast.Name) and tg.value.id == new_var:
                    rebound[tg.attr] = (n, prov.origin(gc, n, n.ast.value))
    for f in sorted(fields):
        if only is not None and f not in only:
            continue
        p = field_param.get(f)
        src = ("attr", ("param", "self"), f)
        via_ctor = p is not None and carried.get(p) == src
        via_store = f in rebound and prov.contains(rebound[f][1], lambda x: x == src)
        ck.require(via_ctor or via_store, rule, "config.Config.copy: field %s" % f,
                   "carried from self.%s" % f,
                   "Config.copy() does not carry the field `%s` of the original (the copy silently falls back to the "
                   "default)" % f, q.loc(fcopy, cn))
        if f in ("classes", "serialize_handlers"):
            shared = False
            why = ""
            if f in rebound:
                t = rebound[f][1]
                shared = (t == src)
                why = prov.show(t)

                def _copying(t_):
                    if not (t_[0] == "call"):
                        return False
                    if t_[1][0] == "global" and t_[1][1] in ("dict", "LocalClasses"):
                        return True
                    if t_[1][0] == "attr" and t_[1][2] == "copy":
                        # the container's own copy(): dict.copy, or the package's override when that returns a new table
                        ov = prog.funcs.get("config.LocalClasses.copy") if f == "classes" else None
                        if ov is None:
                            return True
                        for (_rn, rv) in q.return_sources(ov):
                            okr = isinstance(rv, ast.Call) and dump(rv.func) in ("type(self)", "self.__class__", "LocalClasses", "dict") and \
                                len(rv.args) == 1 and dump(rv.args[0]) == "self"
                            if not okr:
                                raise AnalysisError("LocalClasses.copy() is overridden and returns `%s`: whether that is a new table is not modelled"
                                                    % (dump(rv)[:40] if rv is not None else None))
                        return True
                    return False
                copying = all(_copying(a_) for a_ in prov.value_alts(t))
                shared = shared or not copying
            elif via_ctor:
                # handed to the constructor: __init__ stores `serialize_handlers or {}` = the same object
                shared = True
                why = "passed to Config(...) which stores the object itself"
            ck.require(not shared, rule, "config.Config.copy: container %s" % f, "rebound to a copying call",
                       "the copy shares the mutable container `%s` with the original (%s): modifying one Config changes the other"
                       % (f, why), q.loc(fcopy, rebound[f][0] if f in rebound else cn))



_IMPORT_DEPTH = 0


def import_rules(ck, module, mapping):
    """Run another property's rule module on the same program and adopt the obligations of the listed rules under new
    rule ids (a clause shared by two properties is decided once, reported under both)."""
    from vlib import report
    global _IMPORT_DEPTH
    if _IMPORT_DEPTH:
        # the rules adopted from another module are always that module's own rules: its imports are not needed here
        # (and two properties may import clauses from each other)
        return
    cache = ck.prog.__dict__.setdefault("_import_cache", {})
    run = module if callable(module) else module.check
    key = ((module.__module__ + "." + module.__name__) if callable(module) else module.__name__, ck.tier)
    if key not in cache:
        tmp = report.Check(ck.prog, ck.prop, ck.tier)
        tmp.analysis_error = None
        err = None
        _IMPORT_DEPTH += 1
        try:
            run(tmp)
            tmp.finish()
        except AnalysisError as ex:
            err = ex
        finally:
            _IMPORT_DEPTH -= 1
        cache[key] = (tmp, err)
    tmp, err = cache[key]
    if err is not None and not any(o["rule"] in mapping for o in tmp.obligations):
        raise err
    derr = (getattr(tmp, "deferred_errors", None) or [None])[0] or err
    if derr is not None and any(not any(o["rule"] == r_ for o in tmp.obligations) for r_ in mapping) and \
            not any(o["rule"] in mapping and not o["ok"] for o in tmp.obligations):
        raise derr        # (one of the adopted rules could not be decided by its own module: the adopting property cannot claim it either)
    for o in tmp.obligations:
        if o["rule"] in mapping:
            if o["ok"]:
                ck.ok(mapping[o["rule"]], o["construct"], o["fact"], o["loc"])
            else:
                path = None
                for f in tmp.findings:
                    if f.rule == o["rule"] and f.construct == o["construct"]:
                        path = f.path
                ck.bad(mapping[o["rule"]], o["construct"], o["fact"], o["loc"], path)


# ---------------------------------------------------------------------------
# Fault construction sites of the server module, seen through one level of helper functions
# ---------------------------------------------------------------------------
class FaultSite(object):
    """A place where the server decides to answer with an error.  Normally the Fault(...) call itself; when the
    call sits in a helper (a server-module function whose parameters feed the Fault and which returns it), each
    call site of the helper is the site and the helper's parameters are substituted by the caller's arguments."""

    def __init__(self, prog, fi, node, call, fault_fi, fault_node, fault_call, binding):
        self.prog = prog
        self.fi, self.node, self.call = fi, node, call                      # where the decision is taken (caller)
        self.fault_fi, self.fault_node, self.fault_call = fault_fi, fault_node, fault_call
        self.binding = binding                                              # helper param -> caller arg expr (or None)
        self.via_helper = fault_fi is not fi

    def arg(self, name, pos):
        """(function, node, expr) where the Fault argument `name` is to be evaluated; expr None if absent"""
        e = kwarg(self.fault_call, name, pos)
        if e is None:
            return (self.fault_fi, self.fault_node, None)
        if self.via_helper and isinstance(e, ast.Name) and e.id in self.binding:
            return (self.fi, self.node, self.binding[e.id])
        return (self.fault_fi, self.fault_node, e)

    def origin(self, name, pos):
        f, n, e = self.arg(name, pos)
        if e is None:
            return None
        return prov.origin(cfg_of(f), n, e)

    def expr(self, name, pos):
        return self.arg(name, pos)[2]

    def code(self):
        f, n, e = self.arg("code", 0)
        if e is None:
            return None
        try:
            v = self.prog.const(f.module, e)
        except AnalysisError:
            t = prov.origin(cfg_of(f), n, e)        # a local holding a literal
            v = t[1] if t[0] == "const" else None
        return v if isinstance(v, int) and not isinstance(v, bool) else None


def fault_sites(prog):
    out = []
    server_funcs = prog.module_funcs(SRV)
    for fi in server_funcs:
        sites = q.call_sites(prog, fi, lambda r, c: r == "class:jsonrpc.Fault")
        if not sites:
            continue
        g = cfg_of(fi)
        for (n, c) in sites:
            helper_callers = None
            # a helper: every Fault argument that is a Name is one of its own parameters, and the Fault is returned
            names = [e for e in list(c.args) + [k.value for k in c.keywords] if isinstance(e, ast.Name)]
            returned = n.kind == "return" or any(
                r.kind == "return" and r.ast is not None and isinstance(r.ast.value, ast.Name) and isinstance(n.ast, ast.Assign)
                and isinstance(n.ast.targets[0], ast.Name) and r.ast.value.id == n.ast.targets[0].id for r in g.live_nodes())
            is_helper = (fi.cls is None or fi.name.startswith("_")) and fi.name not in (
                "validate_request", "_unmarshaled_dispatch", "_marshaled_dispatch", "_marshaled_single_dispatch", "_dispatch", "do_POST") \
                and returned and names and all(prov.origin(g, n, e) == ("param", e.id) for e in names)
            if is_helper:
                callers = q.all_call_sites(prog, lambda r, cc: isinstance(r, FuncInfo) and r.fq == fi.fq, modules=(SRV,))
                if callers:
                    helper_callers = callers
            if helper_callers:
                params = [p for p in fi.params if p != "self"]
                for (f2, n2, c2) in helper_callers:
                    binding = {}
                    for i, a in enumerate(c2.args):
                        if i < len(params):
                            binding[params[i]] = a
                    for k in c2.keywords:
                        binding[k.arg] = k.value
                    out.append(FaultSite(prog, f2, n2, c2, fi, n, c, binding))
            else:
                out.append(FaultSite(prog, fi, n, c, fi, n, c, {}))
    return out


# ---------------------------------------------------------------------------
# invocations of the looked-up callable in _dispatch, seen through one level of helper
# ---------------------------------------------------------------------------
def _is_lookup(t):
    return any((a[0] == "item" and q.self_attr(a[1], "funcs")) or
               (a[0] == "call" and a[1][0] == "global" and a[1][1].endswith("resolve_dotted_attribute")) or
               (a[0] == "call" and a[1][0] == "attr" and a[1][2] == "resolve_dotted_attribute") for a in prov.alts(t))


def callable_invocations(prog):
    """[(node in _dispatch, call in _dispatch, helper FuncInfo | None, inner call | None)]"""
    fd = prog.func(SRV, DISP + "._dispatch")
    g = cfg_of(fd)
    out = []
    for n in g.live_nodes():
        for c in node_calls(n):
            if isinstance(c.func, ast.Name) and _is_lookup(prov.origin(g, n, c.func)):
                out.append((n, c, None, None))
                continue
            r = prog.resolve_call(fd, c)
            if isinstance(r, FuncInfo) and r.fq != fd.fq:
                params = [p for p in r.params if p != "self"]
                for i, a in enumerate(c.args):
                    if isinstance(a, ast.Name) and _is_lookup(prov.origin(g, n, a)) and i < len(params):
                        hp = params[i]
                        hg = cfg_of(r)
                        for hn in hg.live_nodes():
                            for hc in node_calls(hn):
                                if isinstance(hc.func, ast.Name) and prov.origin(hg, hn, hc.func) == ("param", hp):
                                    out.append((n, c, r, hc))
    return out


def event_fields(prog):
    """The private fields of threadpool.EventData, found structurally: the one holding threading.Event() and the ones the
    `data` / `exception` properties return.  -> {"event": "__x", "data": "__y", "exception": "__z"} (names as written)"""
    out = {}
    fi = prog.func("threadpool", "EventData.__init__")
    for st in ast.walk(fi.node):
        if isinstance(st, ast.Assign) and isinstance(st.value, ast.Call) and dump(st.value.func) in ("threading.Event", "Event") \
                and isinstance(st.targets[0], ast.Attribute) and dump(st.targets[0].value) == "self":
            out["event"] = st.targets[0].attr
    for prop in ("data", "exception"):
        f = prog.func("threadpool", "EventData." + prop)
        rets = [n for n in ast.walk(f.node) if isinstance(n, ast.Return)]
        names = set(n.value.attr for n in rets if isinstance(n.value, ast.Attribute) and dump(n.value.value) == "self")
        if len(names) == 1 and len(rets) == 1:
            out[prop] = names.pop()
    if set(out) != set(["event", "data", "exception"]) or len(set(out.values())) != 3:
        raise AnalysisError("anchor vanished: the event / data / exception fields of EventData (found %s)" % sorted(out.items()))
    return out


# direct bases whose constructor each package class must run (confirmed by reading; bases without state to set up - object,
# socketserver.ThreadingMixIn, xmlrpc.client.ServerProxy whose constructor the JSON proxy deliberately replaces - are not listed)
BASE_INITS = {
    "SimpleJSONRPCServer.SimpleJSONRPCDispatcher": ["SimpleXMLRPCDispatcher"],
    "SimpleJSONRPCServer.SimpleJSONRPCServer": ["SimpleJSONRPCDispatcher", "socketserver.TCPServer"],
    "SimpleJSONRPCServer.PooledJSONRPCServer": ["SimpleJSONRPCServer"],
    "SimpleJSONRPCServer.CGIJSONRPCRequestHandler": ["SimpleJSONRPCDispatcher", "CGIXMLRPCRequestHandler"],
    "jsonrpc.Transport": ["TransportMixIn", "XMLTransport"],
    "jsonrpc.SafeTransport": ["TransportMixIn", "XMLSafeTransport"],
    "jsonrpc.UnixTransport": ["TransportMixIn", "XMLTransport"],
    "jsonrpc.UnixHTTPConnection": ["HTTPConnection"],
    "jsonrpc.TransportError": ["ProtocolError"],
}


def check_base_constructors(ck, rule, classes=None):
    """Every normal path through the constructor of a package class runs the constructor of each listed direct base
    (spelled Base.__init__(self, ...) or, for a single base, super().__init__(...))."""
    from vlib.flow import reachable_avoiding
    prog = ck.prog
    n_ = 0
    for cfq, bases in sorted(BASE_INITS.items()):
        if classes is not None and cfq not in classes:
            continue
        mod, cname = cfq.split(".", 1)
        fi = prog.funcs.get("%s.%s.__init__" % (mod, cname))
        if fi is None:
            raise AnalysisError("anchor vanished: %s.__init__" % cfq)
        g = cfg_of(fi)
        for b in bases:
            calls = set(n.id for n in g.live_nodes() for c in node_calls(n)
                        if dump(c.func) in ("%s.__init__" % b, "super().__init__", "super(%s, self).__init__" % cname))
            reach = reachable_avoiding(g, g.entry.id, calls, lambda l: l != "exc")
            n_ += 1
            ck.require(bool(calls) and g.return_exit.id not in reach, rule, "%s.__init__: runs %s.__init__" % (cfq, b), "on every normal path",
                       "the constructor of %s can finish without having run %s.__init__: the state that base sets up (configuration, "
                       "header stack, connection cache, dispatcher tables, socket) is missing from the object" % (cfq, b), q.loc(fi, fi.node))
    return n_


def check_config_forwarding(ck, rule, modules=None):
    """Every constructor of the package that receives a `config` hands that very object to each package constructor it
    calls which also takes a `config` (base-class __init__ spelled Base.__init__(self, ...), super().__init__(...), or an
    instantiation Class(...)): otherwise the object silently runs with the shared DEFAULT configuration."""
    prog = ck.prog
    n = 0
    for fi in prog.funcs.values():
        if fi.name != "__init__" or "config" not in fi.params or fi.cls is None or (modules is not None and fi.module not in modules):
            continue
        g = cfg_of(fi)
        for (node, c) in [(node, c) for node in g.live_nodes() for c in node_calls(node)]:
            r = prog.resolve_call(fi, c)
            callee = None
            explicit_self = False
            if isinstance(r, FuncInfo) and r.name == "__init__" and r.fq != fi.fq:
                callee = r
                explicit_self = not (isinstance(c.func, ast.Attribute) and isinstance(c.func.value, ast.Call))   # Base.__init__(self, ...)
            elif isinstance(r, str) and r.startswith("class:") and r[6:] in prog.classes:
                callee = prog.mro_lookup(prog.classes[r[6:]], "__init__")
            if callee is None or "config" not in callee.params or callee.module == "config":
                continue
            if any(isinstance(a, ast.Starred) for a in c.args) or any(k.arg is None for k in c.keywords):
                continue      # *args / **kwargs forwarding: not decided here
            pos = callee.params.index("config") - (0 if explicit_self else 1)
            e = kwarg(c, "config", pos)
            n += 1
            t = prov.origin(g, node, e) if e is not None else None
            okk = t is not None and all(a == ("param", "config") for a in prov.value_alts(t))
            ck.require(okk, rule, "%s: config handed to %s" % (q.fn(fi), q.fn(callee)), "Param(config) itself",
                       "%s is given %s as configuration by %s: the caller's Config is dropped and the object runs with the shared "
                       "DEFAULT configuration (class translation, version, content type of the caller are ignored)"
                       % (q.fn(callee), prov.show(t) if t is not None else "no config", q.fn(fi)), q.loc(fi, node))
    # the objects a configured object creates on behalf of its user (batch jobs, notifiers) carry its configuration too
    for fi in prog.funcs.values():
        if fi.name == "__init__" or fi.module != "jsonrpc" or fi.cls is None or (modules is not None and fi.module not in modules):
            continue
        g = cfg_of(fi)
        for (node, c) in [(node, c) for node in g.live_nodes() for c in node_calls(node)]:
            r = prog.resolve_call(fi, c)
            if not (isinstance(r, str) and r.startswith("class:") and r[6:] in prog.classes):
                continue
            callee = prog.mro_lookup(prog.classes[r[6:]], "__init__")
            if callee is None or "config" not in callee.params or callee.module == "config":
                continue
            e = kwarg(c, "config", callee.params.index("config") - 1)
            t = prov.origin(g, node, e) if e is not None else None
            n += 1
            okk = t is not None and all(a == ("param", "config") or q.self_attr(a, "_config") or q.self_attr(a, "config") for a in prov.value_alts(t))
            ck.require(okk, rule, "%s: config handed to %s(...)" % (q.fn(fi), r[6:]), "the object's own configuration",
                       "%s creates a %s with %s as configuration: the object works with the shared DEFAULT configuration instead of the one of "
                       "the proxy / batch that created it (class translation and version of the caller are ignored)"
                       % (q.fn(fi), r[6:].split(".")[-1], prov.show(t) if t is not None else "no config"), q.loc(fi, node))
    return n


def h_try(fi, handler_node):
    """the ast.Try statement a handler node belongs to"""
    for t in ast.walk(fi.node):
        if isinstance(t, ast.Try) and any(h is handler_node.ast for h in t.handlers):
            return t
    raise AnalysisError("handler without try")


def check_execute_outcome(ck, rule):
    """FutureResult.execute invokes the task exactly once as method(*args, **kwargs), stores the very object it returned
    with set(...), stores the very exception it raised with raise_exception(...) and re-raises it (shared by C09.3 / C16.6)."""
    from vlib.flow import Explorer
    prog = ck.prog
    fex = prog.func("threadpool", "FutureResult.execute")
    g = cfg_of(fex)
    mcalls = [(n, c) for n in g.live_nodes() for c in node_calls(n) if isinstance(c.func, ast.Name) and c.func.id == "method"]
    ck.require(len(mcalls) == 1, rule, "%s: one call of method" % q.fn(fex), "one call site", "execute has %d call sites of the task" % len(mcalls), q.loc(fex, fex.node))
    for (n, c) in mcalls:
        star = [a for a in c.args if isinstance(a, ast.Starred)]
        dstar = [k for k in c.keywords if k.arg is None]
        okk = len(star) == 1 and len(c.args) == 1 and len(dstar) == 1 and len(c.keywords) == 1
        if okk:
            ta = prov.alts(prov.origin(g, n, star[0].value))
            tk = prov.alts(prov.origin(g, n, dstar[0].value))
            okk = ("param", "args") in ta and ("param", "kwargs") in tk
        ck.require(okk, rule, "%s: `%s`" % (q.fn(fex), dump(c)), "method(*args, **kwargs)", "the task is invoked as `%s`" % dump(c), q.loc(fex, n))

    def on2(node, facts, data):
        if any(node.id == n.id for (n, _c) in mcalls):
            data = min(data + 1, 3)
        return [(facts, data)]
    ex2 = Explorer(g, on_node=on2, init_data=0)
    for st in ex2.terminal:
        nid, facts, cnt = st
        ck.require(cnt == 1 or (cnt == 0 and nid == g.raise_exit.id), rule, "%s: exit after %d invocation(s)" % (q.fn(fex), cnt),
                   "exactly one invocation", "execute finishes after %d invocations of the task" % cnt, q.loc(fex, fex.node), ex2.describe_path(st))
    sets = [(n, c) for n in g.live_nodes() for c in node_calls(n) if dump(c.func) == "self._done_event.set"]
    rexc = [(n, c) for n in g.live_nodes() for c in node_calls(n) if dump(c.func) == "self._done_event.raise_exception"]
    ck.require(len(sets) == 1 and len(rexc) == 1, rule, "%s: outcome stored on both branches" % q.fn(fex), "set(result) / raise_exception(ex)",
               "execute does not store the outcome on both the normal and the exceptional branch", q.loc(fex, fex.node))
    # the handler that records the failure catches every ordinary exception of the task
    for (mn, _mc) in mcalls:
        hts = [h for h in g.live_nodes() if h.kind == "handler" and q.try_body_contains(h_try(fex, h), mn.ast)]
        broad = any(h.ast.type is None or dump(h.ast.type) in ("Exception", "BaseException") for h in hts)
        ck.require(broad, rule, "%s: the recording handler catches Exception" % q.fn(fex), "except Exception (or broader)",
                   "the handler around the task call catches only %s: a task raising anything else leaves its future without an outcome "
                   "(done() stays False, result() times out)" % ([dump(h.ast.type) for h in hts if h.ast.type is not None] or "nothing"), q.loc(fex, mn))
    # whatever way the call ends (normally, or with an exception the handler catches), no exit of execute is reachable
    # without the outcome having been stored: nothing that may raise stands between the end of the call and the store
    from vlib.flow import reachable_avoiding
    stored = set(n.id for (n, _c) in sets + rexc)
    for (mn, _mc) in mcalls:
        starts = [("the call returned", b) for (b, l) in g.succ[mn.id] if l != "exc"]
        for h in g.live_nodes():
            if h.kind == "handler" and q.try_body_contains(h_try(fex, h), mn.ast):
                starts.append(("`except %s`" % (dump(h.ast.type) if h.ast.type is not None else ""), h.id))
        for (what, b) in starts:
            reach = reachable_avoiding(g, b, stored)
            leaks = [x for x in (g.return_exit.id, g.raise_exit.id) if x in reach and b not in stored]
            ck.require(not leaks, rule, "%s: outcome stored on every path after %s" % (q.fn(fex), what), "no exit before set() / raise_exception()",
                       "after %s, execute can leave (%s) before the outcome is stored - something that may raise precedes the store: the future "
                       "is never completed (done() stays False, result() times out) and the task's own outcome is lost"
                       % (what, "exceptionally" if g.raise_exit.id in leaks else "normally"), q.loc(fex, g.nodes[b]))
    # what the recording handler catches is recorded as the task's exception: besides the call itself nothing in that try body may
    # raise (a log line with an `extra` naming a LogRecord attribute, a conversion of the result ...), or a successful task is
    # reported as failed with an exception it never raised
    for (mn, _mc) in mcalls:
        for tnode in [t_ for t_ in ast.walk(fex.node) if isinstance(t_, ast.Try) and q.try_body_contains(t_, mn.ast)][-1:]:
            for n2 in g.live_nodes():
                if n2.id == mn.id or n2.ast is None or not q.try_body_contains(tnode, n2.ast):
                    continue
                if not any(l == "exc" for (_b, l) in g.succ[n2.id]):
                    continue
                cs2 = node_calls(n2)
                if cs2 and all(isinstance(c2.func, ast.Attribute) and c2.func.attr in ("isEnabledFor", "getEffectiveLevel") for c2 in cs2) and \
                        n2.kind in ("test", "branch"):
                    continue        # (a logger query: same standing as the logging calls)
                ck.bad(rule, "%s: `%s` inside the recording try" % (q.fn(fex), q.stmt_text(n2)[:50]),
                       "`%s` can raise inside the try whose handler records the task's exception: its failure is stored (and re-raised) as "
                       "if the task had raised it - a task that returned normally is reported as failed" % q.stmt_text(n2)[:60], q.loc(fex, n2))
    for (n, c) in sets:
        t = prov.origin(g, n, c.args[0]) if c.args else None
        okk = t is not None and t[0] == "call" and t[1] == ("param", "method")
        ck.require(okk, rule, "%s: `%s`" % (q.fn(fex), dump(c)), "stores the task's return value itself",
                   "the stored result is %s, not the very object the task returned" % (prov.show(t) if t else "nothing"), q.loc(fex, n))
    for (n, c) in rexc:
        t = prov.origin(g, n, c.args[0]) if c.args else None
        ck.require(t is not None and t[0] == "exc", rule, "%s: `%s`" % (q.fn(fex), dump(c)), "stores the caught exception object",
                   "the stored exception is %s, not the caught exception object" % (prov.show(t) if t else "nothing"), q.loc(fex, n))
        hs = [h for h in g.live_nodes() if h.kind == "handler" and any(sub is c for st_ in h.ast.body for sub in ast.walk(st_))]
        rer = hs and any(isinstance(st_, ast.Raise) and st_.exc is None for st_ in hs[0].ast.body)
        ck.require(bool(rer), rule, "%s: exception re-raised" % q.fn(fex), "bare raise in the handler",
                   "the task's exception is swallowed by execute (the worker cannot log it; callers see no failure)", q.loc(fex, n))
        check_propagates(ck, rule, fex, g)


def check_propagates(ck, rule, fi, g):
    """A bare `raise` of a handler really leaves the function with the exception: no normal exit is reachable from it (a
    `return` / `break` / `continue` in a finally clause that the exception passes through would discard it)."""
    from vlib.flow import reachable_avoiding
    for n in g.live_nodes():
        if n.kind == "raise" and n.ast is not None and n.ast.exc is None:
            reach = reachable_avoiding(g, n.id, set())
            ck.require(g.return_exit.id not in reach, rule, "%s: the re-raised exception leaves the function" % q.fn(fi),
                       "no normal exit after the re-raise",
                       "after the `raise` in the handler a normal exit of %s is still reachable (a return / break / continue in a `finally` "
                       "clause discards the exception in flight): the failure is swallowed" % fi.name, q.loc(fi, n))


def base_exception_layers(prog):
    """Which layers between a registered callable and socketserver catch *every* exception of the callable (bare `except:` or
    `except BaseException`), found structurally: the try of _dispatch enclosing the invocation of the looked-up callable, the
    try of _marshaled_single_dispatch enclosing the dispatch, the try of do_POST enclosing the dispatcher call."""
    fdis = prog.func(SRV, DISP + "._dispatch")
    fsd = prog.func(SRV, DISP + "._marshaled_single_dispatch")
    fpo = prog.func(SRV, "SimpleJSONRPCRequestHandler.do_POST")

    def catches_base(fn, calls):
        for t in ast.walk(fn.node):
            if isinstance(t, ast.Try) and any(sub is c for c in calls for st_ in t.body for sub in ast.walk(st_)):
                if any(h.type is None or dump(h.type) == "BaseException" for h in t.handlers):
                    return True
        return False
    inv = [c for (_n, c, _h, _hc) in callable_invocations(prog)]
    disp_calls = [c for c in ast.walk(fsd.node) if isinstance(c, ast.Call) and (
        call_name(c) == "_dispatch" or (isinstance(c.func, ast.Name) and c.func.id in fsd.params))]
    post_calls = [c for c in ast.walk(fpo.node) if isinstance(c, ast.Call) and call_name(c) == "_marshaled_dispatch"]
    if not inv or not disp_calls or not post_calls:
        raise AnalysisError("anchor vanished: invocation / dispatch / dispatcher call sites (%d/%d/%d)" % (len(inv), len(disp_calls), len(post_calls)))
    return {"_dispatch (around the method call)": catches_base(fdis, inv),
            "_marshaled_single_dispatch (around the dispatch)": catches_base(fsd, disp_calls),
            "do_POST (around the whole request)": catches_base(fpo, post_calls)}


CONFIG_DEFAULTS = {"version": 2.0, "content_type": "application/json-rpc", "user_agent": None, "use_jsonclass": True,
                   "serialize_method": "_serialize", "ignore_attribute": "_ignore", "serialize_handlers": None}


def check_config_defaults(ck, rule, fields):
    """The documented defaults of Config(...) - what an application that passes no configuration gets, through the shared
    DEFAULT object built by a bare `Config()` - folded from the signature of Config.__init__."""
    prog = ck.prog
    fi = prog.func("config", "Config.__init__")
    a = fi.node.args
    names = [x.arg for x in a.args]
    defaults = dict(zip(names[len(names) - len(a.defaults):], a.defaults))
    for f in fields:
        d = defaults.get(f)
        try:
            v = prog.const("config", d) if d is not None else "<no default>"
        except AnalysisError:
            v = "<not a constant>"
        want = CONFIG_DEFAULTS[f]
        okk = (v is None and want is None) or (v is not None and type(v) is type(want) and v == want)
        ck.require(okk, rule, "config.Config.__init__: default of %s" % f, "%r" % (want,),
                   "Config() sets %s to %r by default; the documented default, which every object built without an explicit configuration "
                   "relies on, is %r" % (f, v, want), q.loc(fi, d if d is not None else fi.node))
    dflt = prog.modules["config"].assigns.get("DEFAULT")
    okk = isinstance(dflt, ast.Call) and dump(dflt.func) == "Config" and not dflt.args and not dflt.keywords
    ck.require(okk, rule, "config.DEFAULT", "Config() with the documented defaults",
               "the shared default configuration is built as `%s`, not as a bare Config()" % (dump(dflt) if dflt is not None else None), "jsonrpclib/config.py")


def _mutable_display(e):
    return isinstance(e, (ast.List, ast.Dict, ast.Set, ast.ListComp, ast.DictComp, ast.SetComp)) or (
        isinstance(e, ast.Call) and isinstance(e.func, ast.Name) and e.func.id in ("list", "dict", "set", "bytearray", "deque", "defaultdict", "OrderedDict"))


def check_no_shared_mutable(ck, rule, modules=None):
    """State that is meant to belong to one object or one call is not shared: (a) a mutable container bound at class level
    and modified through `self.<name>` by a method without the constructor rebinding it per instance; (b) a mutable default
    argument that the function modifies, stores or returns.  Read-only class-level tables are not concerned."""
    prog = ck.prog
    n_ = 0
    for ci in prog.classes.values():
        if modules is not None and ci.module not in modules:
            continue
        shared = dict((t.id, st) for st in ci.node.body if isinstance(st, ast.Assign) and _mutable_display(st.value)
                      for t in st.targets if isinstance(t, ast.Name))
        if not shared:
            continue
        init = ci.methods.get("__init__")
        rebound = set()
        if init is not None:
            rebound = set(t.attr for st in ast.walk(init.node) if isinstance(st, ast.Assign) for t in st.targets
                          if isinstance(t, ast.Attribute) and dump(t.value) == "self")
        for fi in ci.methods.values():
            for (n, desc, recv) in mutations(fi):
                base = recv
                while isinstance(base, (ast.Subscript, ast.Attribute)) and not (isinstance(base, ast.Attribute) and dump(base.value) == "self"):
                    base = base.value
                if isinstance(base, ast.Attribute) and dump(base.value) == "self" and base.attr in shared and base.attr not in rebound \
                        and not desc.startswith("store self." + base.attr + " "):
                    n_ += 1
                    ck.bad(rule, "%s.%s: class-level container `%s` modified through self" % (ci.module, ci.qual, base.attr),
                           "`%s` is bound once at class level (`%s`) and %s modifies it through self (%s): all instances of %s share it, so the "
                           "state of one object (one proxy, one server, one request) leaks into the others"
                           % (base.attr, dump(shared[base.attr])[:50], fi.name, desc, ci.qual), q.loc(fi, n))
    for fi in prog.funcs.values():
        if modules is not None and fi.module not in modules:
            continue
        a = fi.node.args
        names = [x.arg for x in a.args]
        defaults = list(zip(names[len(names) - len(a.defaults):], a.defaults)) + \
            [(x.arg, d) for x, d in zip(a.kwonlyargs, a.kw_defaults) if d is not None]
        for (p, d) in defaults:
            if not _mutable_display(d):
                continue
            g = cfg_of(fi)
            used = False
            for (n, desc, recv) in mutations(fi):
                t = prov.origin(g, n, recv)
                if prov.contains(t, lambda x: x == ("param", p)):
                    used = True
            for st in ast.walk(fi.node):
                if isinstance(st, ast.Assign) and isinstance(st.value, ast.Name) and st.value.id == p and \
                        any(isinstance(t, ast.Attribute) for t in st.targets):
                    used = True
                if isinstance(st, ast.Return) and isinstance(st.value, ast.Name) and st.value.id == p:
                    used = True
            if used:
                n_ += 1
                ck.bad(rule, "%s: mutable default argument `%s=%s`" % (q.fn(fi), p, dump(d)[:30]),
                       "the default value of `%s` is one object created when the function is defined, and %s modifies, stores or returns it: "
                       "calls that rely on the default share (and accumulate) its content" % (p, fi.name), q.loc(fi, fi.node))
    ck.ok(rule, "package: shared mutable class attributes / default arguments", "none (%d classes, %d functions scanned)" % (len(prog.classes), len(prog.funcs)), "")
    return n_


# ---------------------------------------------------------------------------
# Containment handlers stay inert on user-supplied objects (shared by C09 / C10 / C16)
# ---------------------------------------------------------------------------
def _self_rooted(e):
    while isinstance(e, ast.Attribute):
        e = e.value
    return isinstance(e, ast.Name) and e.id == "self"


def _use_kind(node, parents):
    """How a handler uses a local object that came from user code: None when the use cannot run user code (the object is
    only handed on), else a description of the eager operation."""
    child, par = node, parents.get(id(node))
    while isinstance(par, (ast.Tuple, ast.List)):
        child, par = par, parents.get(id(par))
    if isinstance(par, ast.keyword):
        child, par = par, parents.get(id(par))
    if isinstance(par, ast.Call):
        if child is par.func:
            return "called (`%s`)" % dump(par)[:50]
        f = par.func
        if isinstance(f, ast.Attribute) and _self_rooted(f):
            from vlib.model import unsafe_log_extra, is_logging_call
            if is_logging_call(par) and unsafe_log_extra(par):
                return "passed to a logging call with an `extra=` mapping (`%s`): Logger.makeRecord raises KeyError in the caller when a key names a LogRecord attribute" % dump(par)[:60]
            return None                  # handed to one of the object's own collaborators (logger: lazy formatting; event: stored)
        if isinstance(f, ast.Name) and f.id == "getattr" and len(par.args) == 3 and isinstance(par.args[1], ast.Constant):
            return None                  # getattr with a default does not raise AttributeError
        if isinstance(f, ast.Name) and f.id in ("isinstance", "type", "id"):
            return None
        return "argument of `%s(...)`, evaluated in the handler" % dump(f)[:40]
    if isinstance(par, (ast.Assign, ast.AnnAssign, ast.Return, ast.Expr)):
        return None
    if isinstance(par, ast.Compare) and all(isinstance(o, (ast.Is, ast.IsNot)) for o in par.ops):
        return None
    if isinstance(par, ast.Raise):
        return "raised again (`%s`)" % dump(par)[:50]
    if isinstance(par, ast.Attribute):
        return "attribute load `%s`" % dump(par)[:50]
    if isinstance(par, ast.BinOp):
        return "operand of `%s` (eager formatting / arithmetic calls the object's own methods)" % dump(par)[:50]
    if isinstance(par, ast.FormattedValue):
        return "formatted in an f-string"
    return "used in `%s`" % (dump(par)[:50] if par is not None else "?")


def _text_local(fi, name):
    if name in fi.params:
        return False
    binds = [st for st in ast.walk(fi.node) if isinstance(st, ast.Assign) and any(isinstance(t, ast.Name) and t.id == name for t in st.targets)]
    others = [x for x in ast.walk(fi.node) if isinstance(x, (ast.For, ast.With, ast.ExceptHandler, ast.AugAssign, ast.comprehension)) and
              any(isinstance(y, ast.Name) and y.id == name and isinstance(y.ctx, ast.Store) for y in ast.walk(x) if not isinstance(x, ast.ExceptHandler))]
    if any(isinstance(x, ast.ExceptHandler) and x.name == name for x in ast.walk(fi.node)):
        return False
    if not binds or any(not isinstance(o, ast.AugAssign) and not any(o is b or any(b is z for z in ast.walk(o)) for b in binds) for o in others):
        pass
    return bool(binds) and all(_stringish(b.value) for b in binds) and \
        not any(isinstance(x, ast.For) and any(isinstance(y, ast.Name) and y.id == name for y in ast.walk(x.target)) for x in ast.walk(fi.node))


def check_inert_handlers(ck, rule, scopes=("worker", "notify")):
    """The handlers that contain a failing task (ThreadPool.__run) and a failing callback (FutureResult.__notify) are the
    last line of defence: whatever they do with the objects that came from user code (the exception, the callable, its
    arguments) must not be able to raise in turn, or the failure escapes after all - the worker thread dies (fewer than
    min_threads workers, tasks left in the queue) or the callback's exception replaces the task's outcome.  Accepted uses:
    handing the object to a collaborator rooted at self (logger methods format lazily and swallow formatting errors;
    the event stores it), getattr with a default, identity tests, stores.  Anything that evaluates the object in the
    handler (attribute load, %-formatting, str()/format(), f-string, call, subscript, re-raise) is reported."""
    prog = ck.prog
    targets = []
    if "worker" in scopes:
        frun = prog.func("threadpool", "ThreadPool.__run")
        targets.append((frun, lambda c: isinstance(c.func, ast.Attribute) and c.func.attr == "execute", "the task"))
    if "notify" in scopes:
        is_cb = lambda c: (isinstance(c.func, ast.Name) and "callback" in c.func.id) or (isinstance(c.func, ast.Attribute) and "callback" in c.func.attr)
        fno = prog.func("threadpool", "FutureResult.__notify")
        # (the delivery may sit in a helper of the notifier)
        for m in prog.cls("threadpool", "FutureResult").methods.values():
            if any(isinstance(t, ast.Try) and t.handlers and any(isinstance(c, ast.Call) and is_cb(c) for st in t.body for c in ast.walk(st))
                   for t in ast.walk(m.node)):
                fno = m
                break
        targets.append((fno, is_cb, "the callback"))
    found = 0
    for (fi, is_target, what) in targets:
        tries = []
        for t in ast.walk(fi.node):
            if isinstance(t, ast.Try) and any(isinstance(c, ast.Call) and is_target(c) for st in t.body for c in ast.walk(st)) and t.handlers:
                tries.append(t)
        if not tries:
            raise AnalysisError("anchor vanished: the try statement containing %s in %s" % (what, q.fn(fi)))
        local_names = set(fi.params) | set(x.id for x in ast.walk(fi.node) if isinstance(x, ast.Name) and isinstance(x.ctx, ast.Store)) | \
            set(x.name for x in ast.walk(fi.node) if isinstance(x, ast.ExceptHandler) and x.name)
        for t in tries:
            for h in t.handlers:
                found += 1
                parents = {}
                for st in h.body:
                    parents[id(st)] = h
                    for x in ast.walk(st):
                        for ch in ast.iter_child_nodes(x):
                            parents[id(ch)] = x
                seen = {}
                bare = [x for st in h.body for x in ast.walk(st) if isinstance(x, ast.Raise) and x.exc is None]
                ck.require(not bare, rule, "%s: handler `except %s` around %s does not re-raise" % (q.fn(fi), dump(h.type) if h.type else "", what),
                           "no bare raise", "the handler that contains a failure of %s raises it again" % what,
                           fi.loc(bare[0] if bare else h))
                # (what happens inside a nested try with a catch-all handler that does not re-raise is contained by that handler)
                shielded = set()
                for st in h.body:
                    for t2 in ast.walk(st):
                        if isinstance(t2, ast.Try) and any((h2.type is None or dump(h2.type) in ("Exception", "BaseException")) and
                                                           not any(isinstance(r2, ast.Raise) for b2 in h2.body for r2 in ast.walk(b2))
                                                           for h2 in t2.handlers):
                            for b2 in t2.body:
                                shielded.update(id(y) for y in ast.walk(b2))
                for st in h.body:
                    for x in ast.walk(st):
                        if id(x) in shielded:
                            continue
                        if isinstance(x, ast.Name) and isinstance(x.ctx, ast.Load) and x.id != "self" and x.id in local_names:
                            if _text_local(fi, x.id):
                                continue        # (a local bound only to str(...) results / string constants: a plain string, not a user object)
                            kind = _use_kind(x, parents)
                            key = (x.id, kind.split(" (")[0].split(" `")[0] if kind else None)
                            seen[key] = seen.get(key, 0) + 1
                            ck.require(kind is None, rule,
                                       "%s: handler around %s: use of `%s`%s" % (q.fn(fi), what, x.id, " #%d" % seen[key] if seen[key] > 1 else ""),
                                       "only handed on (logger argument / stored / getattr with default)",
                                       "in the handler that must contain a failure of %s, the user-supplied object `%s` is %s: if that "
                                       "operation raises (an object without the attribute, a failing __str__), the exception escapes the "
                                       "handler - %s" % (what, x.id, kind,
                                                         "the worker thread dies: fewer workers than min_threads serve the queue and tasks "
                                                         "already queued wait until something else starts a worker" if what == "the task" else
                                                         "the callback's exception is no longer contained (it replaces the task's outcome in "
                                                         "execute() / propagates to the caller of set_callback)"),
                                       fi.loc(x))
    if found < len(targets):
        raise AnalysisError("anchor vanished: containment handlers (%d found)" % found)


# ---------------------------------------------------------------------------
# Cross-call state of the client-side classes (shared by C19.3 / C06.8)
# ---------------------------------------------------------------------------
CLIENT_STATE = {
    # class -> fields that may be written outside __init__ (each one read from the code: connection cache, header stack,
    # parser buffer of one response, the job list / call description a MultiCall is made to accumulate)
    "TransportMixIn": {"verbose", "additional_headers"},
    "UnixTransport": {"_connection", "_extra_headers"},
    "Transport": set(), "SafeTransport": set(),
    "JSONTarget": {"data"}, "JSONParser": set(),
    "ServerProxy": set(), "_Method": set(), "_Notify": set(),
    "MultiCall": {"_job_list"}, "MultiCallMethod": {"method", "params"}, "MultiCallNotify": set(), "MultiCallIterator": set(),
}
_MUTATING = ("append", "extend", "insert", "update", "setdefault", "add", "pop", "popitem", "remove", "discard", "clear", "sort", "reverse")


def _attr_read_anywhere(prog, attr):
    for fi in prog.funcs.values():
        for x in ast.walk(fi.node):
            if isinstance(x, ast.Attribute) and x.attr == attr and isinstance(x.ctx, ast.Load):
                return True
            if isinstance(x, ast.Call) and isinstance(x.func, ast.Name) and x.func.id in ("getattr", "hasattr", "vars") and \
                    (x.func.id == "vars" or (len(x.args) > 1 and isinstance(x.args[1], ast.Constant) and x.args[1].value == attr)):
                return True
    return False


def _constant_display(e):
    if isinstance(e, ast.Constant):
        return True
    if isinstance(e, ast.Tuple):
        return all(_constant_display(x) for x in e.elts)
    return False


def check_client_state(ck, rule, classes=None):
    """No method of a client-side class (other than __init__) keeps data of one exchange on the long-lived object: every store
    `self.F = ...`, `self.F[k] = ...`, `self.F.G = ...` and every mutating call `self.F.append(...)` targets a field of the
    allowed cross-call state table."""
    prog = ck.prog
    n3 = 0
    for cname, allowed in CLIENT_STATE.items():
        if classes is not None and cname not in classes:
            continue
        if "jsonrpc." + cname not in prog.classes:
            continue
        ci = prog.cls("jsonrpc", cname)
        for fi in ci.methods.values():
            if fi.name == "__init__":
                continue
            gg = cfg_of(fi)
            for n in gg.live_nodes():
                hits = []
                if n.kind == "stmt" and isinstance(n.ast, (ast.Assign, ast.AugAssign)):
                    for tg in (n.ast.targets if isinstance(n.ast, ast.Assign) else [n.ast.target]):
                        for sub in ([tg] + (list(tg.elts) if isinstance(tg, ast.Tuple) else [])):
                            base = sub
                            via = ""
                            while isinstance(base, (ast.Attribute, ast.Subscript)) and not (isinstance(base, ast.Attribute) and dump(base.value) == "self"):
                                via = "through "
                                base = base.value
                            if isinstance(base, ast.Attribute) and dump(base.value) == "self":
                                hits.append((base.attr, "%sstore" % via))
                for c in node_calls(n):
                    f = c.func
                    if isinstance(f, ast.Attribute) and f.attr in _MUTATING and isinstance(f.value, ast.Attribute) and dump(f.value.value) == "self":
                        hits.append((f.value.attr, "call .%s()" % f.attr))
                for (attr, how) in hits:
                    n3 += 1
                    if how in ("store", "through store") and isinstance(n.ast, ast.Assign) and fi.name in ("_notify",) and \
                            all(a_[0] == "call" and a_[1] == ("global", "_Notify") for a_ in prov.value_alts(prov.origin(gg, n, n.ast.value))):
                        ck.ok(rule, "%s: store self.%s" % (q.fn(fi), attr), "the proxy's own notifier object (built from the proxy alone): no data of a call", q.loc(fi, n))
                        continue
                    if how == "store" and isinstance(n.ast, ast.AugAssign) and isinstance(n.ast.value, ast.Constant) and \
                            isinstance(n.ast.value.value, (int, float)) and not isinstance(n.ast.value.value, bool):
                        ck.ok(rule, "%s: store self.%s" % (q.fn(fi), attr), "a counter stepped by a constant: no data of a call", q.loc(fi, n))
                        continue
                    if how == "store" and isinstance(n.ast, ast.Assign) and _constant_display(n.ast.value):
                        ck.ok(rule, "%s: store self.%s" % (q.fn(fi), attr), "a constant (reset to an initial value): no data of a call", q.loc(fi, n))
                        continue
                    if attr not in allowed and how == "store" and not _attr_read_anywhere(prog, attr):
                        ck.ok(rule, "%s: store self.%s" % (q.fn(fi), attr), "write-only field: nothing in the package reads it", q.loc(fi, n))
                        continue
                    ck.require(attr in allowed, rule, "%s: store self.%s" % (q.fn(fi), attr), "allowed cross-call state",
                               "`%s` keeps per-call data on the long-lived %s object (%s of self.%s; allowed cross-call state: %s): a later call "
                               "can observe a previous response" % (q.stmt_text(n)[:50], cname, how, attr, sorted(allowed)), q.loc(fi, n))
    ck.stat("client_state_stores", n3)
    return n3


# ---------------------------------------------------------------------------
# a small total evaluator for predicates over one integer quantity (folding, no repository code involved)
# ---------------------------------------------------------------------------
class _NoFold(Exception):
    pass


def fold_int_predicate(expr, quantity, value):
    """value of `expr` when the expression spelled `quantity` (ast.unparse text) is the integer `value`; raises AnalysisError for
    anything outside: constants, not / and / or, comparisons, bool() / int() / len-free arithmetic on the quantity"""
    import operator
    cmpops = {ast.Eq: operator.eq, ast.NotEq: operator.ne, ast.Lt: operator.lt, ast.LtE: operator.le, ast.Gt: operator.gt, ast.GtE: operator.ge,
              ast.Is: operator.is_, ast.IsNot: operator.is_not}

    def ev(e):
        if ast.unparse(e) == quantity:
            return value
        if isinstance(e, ast.Constant) and isinstance(e.value, (int, bool, float)) or (isinstance(e, ast.Constant) and e.value is None):
            return e.value
        if isinstance(e, ast.UnaryOp) and isinstance(e.op, ast.Not):
            return not ev(e.operand)
        if isinstance(e, ast.UnaryOp) and isinstance(e.op, ast.USub):
            return -ev(e.operand)
        if isinstance(e, ast.BoolOp):
            vals = [ev(v) for v in e.values]
            out = vals[0]
            for v in vals[1:]:
                out = (out and v) if isinstance(e.op, ast.And) else (out or v)
            return out
        if isinstance(e, ast.Compare) and all(type(o) in cmpops for o in e.ops):
            left = ev(e.left)
            for o, r in zip(e.ops, e.comparators):
                right = ev(r)
                if not cmpops[type(o)](left, right):
                    return False
                left = right
            return True
        if isinstance(e, ast.Call) and isinstance(e.func, ast.Name) and e.func.id in ("bool", "int") and len(e.args) == 1 and not e.keywords:
            v = ev(e.args[0])
            return bool(v) if e.func.id == "bool" else int(v)
        if isinstance(e, ast.BinOp) and isinstance(e.op, (ast.Add, ast.Sub)):
            a, b = ev(e.left), ev(e.right)
            return a + b if isinstance(e.op, ast.Add) else a - b
        if isinstance(e, ast.IfExp):
            return ev(e.body) if ev(e.test) else ev(e.orelse)
        raise _NoFold(ast.unparse(e))
    try:
        return ev(expr)
    except _NoFold as ex:
        raise AnalysisError("predicate not folded: `%s` in `%s`" % (ex, ast.unparse(expr)))


def must_pass(g, target_id, through_ids):
    """every normal path from the entry to `target_id` passes one of `through_ids`"""
    from vlib.flow import reachable_avoiding
    through = set(through_ids)
    if target_id in through:
        return True
    return target_id not in reachable_avoiding(g, g.entry.id, through, lambda l: l != "exc")


QUEUE_PUTS = ("self._queue.put", "self._queue.put_nowait")      # both queue the item or raise queue.Full


# ---------------------------------------------------------------------------
# values the JSON backend always accepts
# ---------------------------------------------------------------------------
def _stringish(e):
    if isinstance(e, ast.Constant):
        return isinstance(e.value, str)
    if isinstance(e, ast.JoinedStr):
        return True
    if isinstance(e, ast.Call) and isinstance(e.func, ast.Attribute) and e.func.attr == "format" and _stringish(e.func.value):
        return True
    if isinstance(e, ast.BinOp) and isinstance(e.op, (ast.Mod, ast.Add)) and _stringish(e.left):
        return True
    if isinstance(e, ast.Call) and isinstance(e.func, ast.Name) and e.func.id in ("str", "repr") and len(e.args) == 1:
        return True
    return False


_STR_METHODS = ("strip", "rstrip", "lstrip", "lower", "upper", "title", "capitalize", "casefold", "replace", "format", "center", "ljust", "rjust",
                "zfill", "expandtabs", "swapcase", "removeprefix", "removesuffix")
_STRLIST_CALLS = ("traceback.format_tb", "traceback.format_exception", "traceback.format_exception_only", "traceback.format_stack",
                  "traceback.format_list")


def _jkind(prog, fi, node, e, depth=0):
    """"str" (always a string), "strlist" (always a list of strings), "json" (None / bool / number / string or a list / dict with string
    keys of such values), or None (not known to be any of them) - whatever the inputs"""
    from vlib.cfg import cfg_of as _cfg
    from vlib import prov as _prov, q as _q
    if e is None:
        return "json"
    if depth > 24:
        return None
    rec = lambda x, n_=node, f_=fi: _jkind(prog, f_, n_, x, depth + 1)
    if isinstance(e, ast.Constant):
        if isinstance(e.value, str):
            return "str"
        return "json" if e.value is None or isinstance(e.value, (bool, int, float)) else None
    if _stringish(e):
        return "str"
    if isinstance(e, ast.Attribute) and e.attr in ("__name__", "__qualname__"):
        return "str"        # (of a class or a function: the names the interpreter assigns)
    if isinstance(e, ast.Call):
        fname = dump(e.func)
        if fname in _STRLIST_CALLS:
            return "strlist"
        if fname == "traceback.format_exc":
            return "str"
        if fname == "getattr" and len(e.args) == 3 and isinstance(e.args[1], ast.Constant) and e.args[1].value in ("__name__", "__qualname__") and \
                rec(e.args[2]) == "str":
            return "str"
        if isinstance(e.func, ast.Attribute):
            base = rec(e.func.value)
            if e.func.attr in _STR_METHODS and base == "str":
                return "str"
            if e.func.attr == "join" and base == "str":
                return "str"        # (or raises: the result, when there is one, has the type of the separator)
            if e.func.attr in ("splitlines", "split", "rsplit") and base == "str":
                return "strlist"
        if fname in ("list", "sorted") and len(e.args) == 1 and not e.keywords and rec(e.args[0]) == "strlist":
            return "strlist"
        r = prog.resolve_call(fi, e)
        hf = r if hasattr(r, "node") else None
        if hf is None:
            return None
        srcs = list(_q.return_sources(hf))
        kinds = set(_jkind(prog, hf, hn, hv, depth + 1) for (hn, hv) in srcs)
        if not srcs or None in kinds:
            return None
        return kinds.pop() if len(kinds) == 1 else "json"
    if isinstance(e, ast.Subscript):
        base = rec(e.value)
        if isinstance(e.slice, ast.Slice):
            return base if base in ("str", "strlist") else None
        return "str" if base == "strlist" else None
    if isinstance(e, ast.Dict):
        ok = all(k is not None and isinstance(k, ast.Constant) and isinstance(k.value, str) for k in e.keys) and \
            all(rec(v) is not None for v in e.values)
        return "json" if ok else None
    if isinstance(e, (ast.List, ast.Tuple)):
        ks = [None if isinstance(x, ast.Starred) else rec(x) for x in e.elts]
        if None in ks:
            return None
        return "strlist" if isinstance(e, ast.List) and all(k == "str" for k in ks) else "json"
    if isinstance(e, ast.ListComp):
        k = rec(e.elt)      # (an element that is a string whatever the loop variable holds)
        return "strlist" if k == "str" else None
    if isinstance(e, ast.IfExp):
        a, b = rec(e.body), rec(e.orelse)
        if a is None or b is None:
            return None
        return a if a == b else "json"
    if isinstance(e, ast.BoolOp) and isinstance(e.op, ast.Or):
        ks = [rec(v) for v in e.values]
        if None in ks:
            return None
        return ks[0] if len(set(ks)) == 1 else "json"
    if isinstance(e, ast.Name):
        g = _cfg(fi)
        defs = _prov.rd_of(g).get(node.id, {}).get(e.id)
        if not defs:
            return None
        kinds = set()
        for d in defs:
            dn = g.nodes[d]
            if not (dn.kind == "stmt" and isinstance(dn.ast, ast.Assign) and len(dn.ast.targets) == 1):
                return None
            tg, val = dn.ast.targets[0], dn.ast.value
            if isinstance(tg, ast.Subscript) and isinstance(tg.value, ast.Name) and tg.value.id == e.id:
                continue        # (an item store: judged with the other completions below)
            if isinstance(tg, ast.Name):
                kinds.add(_jkind(prog, fi, dn, val, depth + 1))
            elif isinstance(tg, ast.Tuple) and all(isinstance(x, ast.Name) for x in tg.elts) and isinstance(val, ast.Call):
                # `a, b = helper(...)`: the matching element of every tuple the helper returns
                idx = [x.id for x in tg.elts].index(e.id)
                r = prog.resolve_call(fi, val)
                hf = r if hasattr(r, "node") else None
                if hf is None:
                    return None
                srcs = list(_q.return_sources(hf))
                if not srcs:
                    return None
                for (hn, hv) in srcs:
                    if not (isinstance(hv, ast.Tuple) and len(hv.elts) == len(tg.elts)):
                        return None
                    kinds.add(_jkind(prog, hf, hn, hv.elts[idx], depth + 1))
            else:
                return None
        if None in kinds:
            return None
        # the container bound to the name is only completed with such values afterwards
        for st in ast.walk(fi.node):
            if isinstance(st, ast.Assign) and any(isinstance(t, ast.Subscript) and isinstance(t.value, ast.Name) and t.value.id == e.id for t in st.targets):
                for t in st.targets:
                    if isinstance(t, ast.Subscript) and isinstance(t.value, ast.Name) and t.value.id == e.id:
                        if not (isinstance(t.slice, ast.Constant) and isinstance(t.slice.value, str)):
                            return None
                        if _jkind(prog, fi, _node_of(g, st) or node, st.value, depth + 1) is None:
                            return None
                        kinds.add("json")
            elif isinstance(st, ast.AugAssign) and isinstance(st.target, ast.Name) and st.target.id == e.id:
                return None
            elif isinstance(st, ast.Call) and isinstance(st.func, ast.Attribute) and isinstance(st.func.value, ast.Name) and st.func.value.id == e.id and \
                    st.func.attr in ("append", "extend", "update", "setdefault", "insert", "add"):
                if st.func.attr == "append" and len(st.args) == 1 and _jkind(prog, fi, _node_of(g, st) or node, st.args[0], depth + 1) is not None:
                    kinds.add("json")
                    continue
                return None
        return kinds.pop() if len(kinds) == 1 else "json"
    return None


def _node_of(g, sub):
    """the CFG node whose statement contains the AST node `sub`"""
    best = None
    for n in g.live_nodes():
        a = getattr(n, "ast", None)
        if a is None or isinstance(a, (ast.FunctionDef, ast.AsyncFunctionDef, ast.Lambda)):
            continue
        if a is sub:
            return n
        if any(x is sub for x in ast.walk(a)):
            size = sum(1 for _ in ast.walk(a))
            if best is None or size < best[0]:
                best = (size, n)
    return best[1] if best else None


def json_safe_expr(prog, fi, node, e, depth=0):
    """the expression denotes None / a bool / a number / a string, or a list / dict display (string keys) of such values - whatever
    the inputs: constants, string-typed expressions (string methods, traceback formatters, class names), displays and comprehensions
    of them, locals bound only to such values (also through `a, b = helper(...)`) and completed only with such values, and package
    functions all of whose return values are such"""
    return _jkind(prog, fi, node, e, depth) is not None


def is_new_function(fi):
    """the function is not one the rules were confirmed on (vlib/known_functions.json): a new helper method that was not expanded"""
    from vlib.inline import known_functions
    qual = fi.fq.split(".", 1)[1] if "." in fi.fq else fi.fq
    return qual not in known_functions().get(fi.module, set())


def carried_by_exception(site):
    """the code of this Fault site is an attribute of the exception its handler caught (`Fault(ex.code, ex.message)`): the value
    is decided at the raise sites of that exception class, which the Fault-site rules do not follow"""
    t = site.origin("code", 0)
    return t is not None and any(a[0] == "attr" and a[1][0] == "exc" for a in prov.value_alts(t))
