"""C07 Objects survive dump/load wherever they occur, for every supported class shape."""
import ast
from vlib.model import AnalysisError, dump, kwarg, call_name
from vlib.cfg import cfg_of, node_calls, node_exprs
from vlib.flow import dominators
from vlib import prov, q, shape
from rules import common

def _is_main_module(m):
    """sys.modules['__main__'] / sys.modules.get('__main__')"""
    if m[0] == "item" and prov.show(m[1]) in ("sys.modules", "Global(sys).modules", "ext:sys.modules") and m[2] == ("const", "__main__"):
        return True
    if m[0] == "call" and m[1][0] == "attr" and m[1][2] == "get" and len(m[2]) >= 1 and m[2][0] == ("const", "__main__"):
        return "sys" in prov.show(m[1][1]) and "modules" in prov.show(m[1][1])
    return False


META = {
    "explanation": (
        "Decides structural necessary conditions of the round trip: C07.1 every recursive call of jsonclass.load inside "
        "load passes the caller's class table (Param(classes)); C07.2 dump enumerates fields through _find_fields = "
        "instance __dict__ plus __slots__ of the class and, transitively, of all its bases, and load sets every "
        "remaining key with setattr(new_obj, key, load(value, classes)); C07.3 a name taken from __slots__ is turned "
        "into the attribute name by class-private mangling (abstract evaluation of _slots_finder on a class with "
        "private, public, dunder and single-underscore slots and a name with leading and trailing underscores); C07.4 "
        "jsonrpc.dump / jsonrpc.load hand parameters and results to jsonclass with the caller's configuration, so both "
        "directions take the same path; C07.5 the constructor arguments of a descriptor are applied as json_class(*params) "
        "for lists and json_class(**params) for dicts, and dump emits [str(obj)] for Decimal and [obj.value] for Enum; C07.6 the "
        "per-request Config copy carries the serialisation settings and class table (shared with C13.2); C07.7 dispatcher, server, "
        "proxy and transport keep the caller's Config object itself, so a class registered in its local table later is seen, and "
        "every constructor receiving a config hands that object to the package constructors it calls (pooled server, CGI handler, transports); "
        "C07.8 the class instantiated by load is the entry of the caller's class table or the attribute read from the module imported in that "
        "very call (no remembered class objects: the class currently bound to the name is the one instantiated).; C07.9 (imported C15.3) the type tables that decide which field values are dumped equal the specification (None, bool, numbers, strings, containers) C07.10 (imported from C02.6 / C17.3) for objects travelling over RPC: the JSON backend is called with the object alone (ASCII-only output) and both sides accumulate the raw reads and decode the joined bytes once - a bean with non-ASCII text survives whatever the chunking. C07.11 (imported from C20.3 / C20.5) the fields dumped for an object are its field set minus exactly the object's own ignore list and the ignore argument, and a field value is dropped only by the type test: nothing else (extra names or values added to the filter) removes a field whose value is a supported one."),
    "does_not_decide": "equality of the reloaded fields for generated class shapes, importability of the emitted class "
                       "name, enum/Decimal value fidelity (value-level round trip over a space of programs).",
    "rules": {"C07.11": "imported C20.3 (ignore list term), C20.5 (field filter)",
              "C07.10": "imported C02.6 (backend call options), C17.3 (raw accumulation, one decode)",
              "C07.9": "imported C15.3", "C07.1": "provenance of the classes argument at recursive call sites", "C07.2": "call-graph / loop structure",
              "C07.3": "shape interpreter on _slots_finder", "C07.4": "provenance of config arguments", "C07.5": "dominating isinstance branch of each constructor call",
              "C07.6": "sibling agreement Config.__init__/copy", "C07.7": "provenance of the stored config",
              "C07.8": "provenance of the instantiated class object"},
    "assumptions": ["Python's class-private mangling is '_' + class name stripped of leading underscores + name"],
}


def rule_c07_7(ck):
    prog = ck.prog
    # ---- C07.7 long-lived objects keep the caller's Config object itself (not a snapshot) ---------------------------------
    n7 = 0
    for (mod, qual, field) in (("SimpleJSONRPCServer", "SimpleJSONRPCDispatcher.__init__", "json_config"),
                               ("SimpleJSONRPCServer", "SimpleJSONRPCServer.__init__", "json_config"),
                               ("jsonrpc", "ServerProxy.__init__", "_config"), ("jsonrpc", "TransportMixIn.__init__", "_config")):
        fi = prog.func(mod, qual)
        gi = cfg_of(fi)
        stores = [n for n in gi.live_nodes() if n.kind == "stmt" and isinstance(n.ast, ast.Assign) and any(dump(t) == "self." + field for t in n.ast.targets)]
        if not stores and qual == "SimpleJSONRPCServer.__init__":
            # inherited from the dispatcher constructor, which must then receive the very config
            calls = [(n, c) for n in gi.live_nodes() for c in node_calls(n) if dump(c.func) == "SimpleJSONRPCDispatcher.__init__"]
            okk = bool(calls) and prov.origin(gi, calls[0][0], calls[0][1].args[2]) == ("param", "config") if calls and len(calls[0][1].args) > 2 else False
            n7 += 1
            ck.require(okk, "C07.7", "%s: config handed to the dispatcher constructor" % q.fn(fi), "Param(config) itself",
                       "the server does not keep the caller's Config object", q.loc(fi, fi.node))
            continue
        if not stores:
            ck.bad("C07.7", "%s: self.%s = config" % (q.fn(fi), field),
                   "the constructor does not keep the configuration it is given in self.%s (objects of this class, and of the classes that "
                   "rely on this constructor, have no or a foreign configuration)" % field, q.loc(fi, fi.node))
        for n in stores:
            n7 += 1
            t = prov.origin(gi, n, n.ast.value)
            ck.require(t == ("param", "config"), "C07.7", "%s: self.%s = config" % (q.fn(fi), field), "the caller's Config object itself",
                       "self.%s is bound to %s instead of the Config object given by the caller: classes / handlers registered on that Config after "
                       "construction (config.classes.add(...)) are not seen by this object" % (field, prov.show(t)), q.loc(fi, n))
    if n7 < 3:
        raise AnalysisError("anchor vanished: config stores of the long-lived objects (found %d)" % n7)
    common.check_config_forwarding(ck, "C07.7")
    common.check_config_defaults(ck, "C07.7", ("use_jsonclass", "serialize_method", "ignore_attribute"))
    ck.floor("C07.7", 9)


def check(ck):
    prog = ck.prog
    fl = prog.func("jsonclass", "load")
    gl = cfg_of(fl)
    dl = dominators(gl)
    # ---- C07.1 ------------------------------------------------------------------------------------
    rec = q.call_sites(prog, fl, lambda r, c: q.is_func(r, "jsonclass.load"))
    for (n, c) in rec:
        t = q.arg_origin(fl, n, c, "classes", 1)
        ck.require(t == ("param", "classes"), "C07.1", "%s: recursive `%s`" % (q.fn(fl), dump(c)), "passes Param(classes)",
                   "a nested value is loaded with %s as class table: classes of the configuration's local table are lost "
                   "below the top level" % (prov.show(t) if t else "no class table"), q.loc(fl, n))
    ck.floor("C07.1", 3)

    # ---- C07.2 field symmetry ------------------------------------------------------------------------
    fdump = prog.func("jsonclass", "dump")
    gd = cfg_of(fdump)
    ff = prog.func("jsonclass", "_find_fields")
    fs = prog.func("jsonclass", "_slots_finder")
    cs = q.call_sites(prog, fdump, lambda r, c: q.is_func(r, "jsonclass._find_fields"))
    if not cs:
        others = [x for x in q.all_call_sites(prog, lambda r, c: q.is_func(r, "jsonclass._find_fields"), modules=("jsonclass",))
                  if x[0].fq in common.closure(prog, [fdump])]
        if others:
            raise AnalysisError("anchor moved: _find_fields is called from %s (a helper of dump that is not inlined), not from dump"
                                % ", ".join(sorted(set(q.fn(x[0]) for x in others))))
    ck.require(len(cs) == 1 and prov.origin(gd, cs[0][0], cs[0][1].args[0]) == ("param", "obj"), "C07.2",
               "%s: _find_fields(obj)" % q.fn(fdump), "fields enumerated by _find_fields(obj)",
               "dump does not enumerate the object's fields through _find_fields(obj)", q.loc(fdump, fdump.node))
    src_ff = dump(ff.node)
    ck.require("obj.__dict__" in src_ff, "C07.2", "%s: instance __dict__" % q.fn(ff), "uses obj.__dict__",
               "_find_fields ignores the instance dictionary", q.loc(ff, ff.node))
    cs2 = q.call_sites(prog, ff, lambda r, c: q.is_func(r, "jsonclass._slots_finder"))
    okk = bool(cs2) and dump(cs2[0][1].args[0]) in ("obj.__class__", "type(obj)")
    ck.require(okk, "C07.2", "%s: _slots_finder(obj.__class__, fields)" % q.fn(ff), "slots of the class",
               "_find_fields does not collect the slots of the object's class", q.loc(ff, ff.node))
    gs = cfg_of(fs)
    rec_s = q.call_sites(prog, fs, lambda r, c: q.is_func(r, "jsonclass._slots_finder"))
    over_bases = False
    for (n, c) in rec_s:
        t = prov.origin(gs, n, c.args[0]) if c.args else None
        if t is not None and t == ("elem", ("attr", ("param", fs.params[0]), "__bases__")):
            over_bases = True
    mro = any(isinstance(x, ast.Attribute) and x.attr == "__mro__" for x in ast.walk(fs.node)) or \
        any(n_.kind == "for_body" and any(a_[0] == "call" and a_[1] in (("attr", ("global", "inspect"), "getmro"), ("global", "getmro")) and
                                          a_[2] and a_[2][0] == ("param", fs.params[0])
                                          for a_ in prov.value_alts(prov.origin(gs, n_, n_.ast.iter))) for n_ in gs.live_nodes())
    ck.require(over_bases or mro, "C07.2", "%s: base classes" % q.fn(fs), "recursion over __bases__ (or iteration over __mro__)",
               "slots declared by base classes are not collected: inherited slotted fields are dropped from the dump", q.loc(fs, fs.node))
    sets = [(n, c) for n in gl.live_nodes() for c in node_calls(n) if isinstance(c.func, ast.Name) and c.func.id == "setattr"]
    ck.require(len(sets) >= 1, "C07.2", "%s: setattr loop" % q.fn(fl), "present", "load does not set the fields of the new object", q.loc(fl, fl.node))
    for (n, c) in sets:
        t0 = prov.origin(gl, n, c.args[0])
        t1 = prov.origin(gl, n, c.args[1])
        t2 = prov.origin(gl, n, c.args[2])
        items = ("call", ("attr", ("param", "obj"), "items"), (), ())
        okk = t1 == ("unpack", ("elem", items), 0) and t2[0] == "call" and t2[1] == ("global", "load") and \
            t2[2] and t2[2][0] == ("unpack", ("elem", items), 1) and len(t2[2]) > 1 and t2[2][1] == ("param", "classes")
        if not okk and t1[0] == "unpack" and t2[0] == "unpack" and t1[1] == t2[1] and t1[1][0] == "elem" and t1[1][1] != items and \
                (t1[2], t2[2]) == (0, 1):
            # (name, loaded value) pairs staged in an intermediate sequence before they are set: what the sequence holds is not followed
            raise AnalysisError("jsonclass.load sets its fields from pairs staged in an intermediate sequence (%s): not modelled" % prov.show(t1[1][1])[:60])
        ck.require(okk, "C07.2", "%s: `%s`" % (q.fn(fl), dump(c)), "setattr(new_obj, key, load(value, classes)) over obj.items()",
                   "fields are not restored as setattr(new_obj, key, load(value, classes)) for every (key, value) of the "
                   "descriptor: %s / %s" % (prov.show(t1), prov.show(t2)[:80]), q.loc(fl, n))
        ctor_ids = set(m.id for m in gl.live_nodes() for cc in node_calls(m) if isinstance(cc.func, ast.Name) and cc.func.id != "load" and (
            any(isinstance(a, ast.Starred) for a in cc.args) or any(k.arg is None for k in cc.keywords)))
        defs = prov.rd_of(gl).get(n.id, {}).get(dump(c.args[0]), frozenset()) if isinstance(c.args[0], ast.Name) else frozenset()
        for d_ in defs:
            dn_ = gl.nodes[d_]
            if d_ not in ctor_ids and dn_.kind == "stmt" and isinstance(dn_.ast, ast.Assign) and isinstance(dn_.ast.value, ast.Call) and \
                    isinstance(dn_.ast.value.func, ast.Name) and prov.rd_of(gl).get(d_, {}).get(dn_.ast.value.func.id):
                raise AnalysisError("the object receiving the fields is built through the local callable `%s` (indirect constructor call): not modelled"
                                    % dn_.ast.value.func.id)
        new_ok = bool(defs) and set(defs) <= ctor_ids
        ck.require(new_ok, "C07.2", "%s: setattr target" % q.fn(fl), "the object just constructed",
                   "fields are set on %s, not on the object constructed from the descriptor" % prov.show(t0)[:80], q.loc(fl, n))
    ck.floor("C07.2", 6)

    # ---- C07.3 slot names are attribute names -----------------------------------------------------------
    for cname, expect in (("_Node_", {"_Node___priv", "pub", "__dunder__", "_single"}),
                          ("Plain", {"_Plain__priv", "pub", "__dunder__", "_single"}),
                          ("__Dbl", {"_Dbl__priv", "pub", "__dunder__", "_single"})):
        ev = shape.Evaluator(prog, "jsonclass", lenient=True)
        clazz = shape.Opaque("class", {"__slots__": shape.K(("__priv", "pub", "__dunder__", "_single")),
                                       "__name__": shape.K(cname), "__bases__": shape.K(()),
                                       "__dict__": shape.D({"__slots__": shape.K(("__priv", "pub", "__dunder__", "_single"))})})
        clazz.attrs["__mro__"] = shape.L([clazz, shape.Opaque("class", {"__dict__": shape.D({}), "__name__": shape.K("object"), "__bases__": shape.K(())})])
        fields = shape.L([])
        res = ev.run(fs, {fs.params[0]: clazz, fs.params[1]: fields})
        got = set(x.v for x in fields.elts if isinstance(x, shape.K))
        ck.require(got == expect and len(res) == 1, "C07.3", "%s: class %s with slots (__priv, pub, __dunder__, _single)" % (q.fn(fs), cname),
                   "attribute names %s" % sorted(got),
                   "for a class named %s the slot names become %s; the attributes are actually named %s (class-private "
                   "mangling)" % (cname, sorted(got), sorted(expect)), q.loc(fs, fs.node))
    # inheritance: each private slot is mangled with the name of the class that declares it
    for form in ("single base", "two levels"):
        K_ = shape.K
        gp = shape.Opaque("class", {"__slots__": K_(("__g",)), "__name__": K_("Grand"), "__bases__": K_(()), "__dict__": shape.D({"__slots__": K_(("__g",))})})
        base = shape.Opaque("class", {"__slots__": K_(("__b", "pb")), "__name__": K_("_Base"), "__dict__": shape.D({"__slots__": K_(("__b", "pb"))}),
                                      "__bases__": shape.L([gp]) if form == "two levels" else K_(())})
        child = shape.Opaque("class", {"__slots__": K_(("__c",)), "__name__": K_("Child"), "__bases__": shape.L([base]),
                                       "__dict__": shape.D({"__slots__": K_(("__c",))})})
        obj_cls = shape.Opaque("class", {"__dict__": shape.D({}), "__name__": K_("object"), "__bases__": K_(())})
        chain = [child, base] + ([gp] if form == "two levels" else []) + [obj_cls]
        for c_ in chain:
            c_.attrs["__mro__"] = shape.L(chain[chain.index(c_):])
        ev = shape.Evaluator(prog, "jsonclass", lenient=True)
        fields = shape.L([])
        try:
            res = ev.run(fs, {fs.params[0]: child, fs.params[1]: fields})
        except AnalysisError as ex_:
            ck.bad("C07.3", "%s: inherited private slots (%s)" % (q.fn(fs), form), "the slot enumeration could not be evaluated (%s)" % ex_, q.loc(fs, fs.node))
            continue
        got = set(x.v for x in fields.elts if isinstance(x, shape.K))
        expect = {"_Child__c", "_Base__b", "pb"} | ({"_Grand__g"} if form == "two levels" else set())
        ck.require(got == expect, "C07.3", "%s: inherited private slots (%s)" % (q.fn(fs), form), "attribute names %s" % sorted(got),
                   "for class Child(_Base) the slot names become %s; the attributes are named %s (a private slot is mangled with the name of "
                   "the class that declares it)" % (sorted(got), sorted(expect)), q.loc(fs, fs.node))
    ck.floor("C07.3", 5)

    # ---- C07.4 RPC integration ----------------------------------------------------------------------------
    fjd = prog.func("jsonrpc", "dump")
    fjl = prog.func("jsonrpc", "load")
    cs = q.call_sites(prog, fjd, lambda r, c: q.is_func(r, "jsonclass.dump"))
    # (one translation per message: a single call, or one per kind of message, each return of a built message being reached only
    # through a test of config.use_jsonclass)
    gjd = cfg_of(fjd)
    okc = len(cs) == 1
    if len(cs) > 1:
        from vlib.flow import reachable_avoiding as _ra74
        gates = set(n_.id for n_ in gjd.live_nodes() if n_.kind == "branch" and "use_jsonclass" in dump(n_.test))
        djd = dominators(gjd)
        okc = bool(gates) and all(any(gjd.nodes[d].kind == "branch" and gjd.nodes[d].polarity and "use_jsonclass" in dump(gjd.nodes[d].test)
                                      for d in djd[n_.id]) for (n_, _c) in cs)
        for rn_ in [x for x in gjd.live_nodes() if x.kind == "return" and x.ast is not None and isinstance(x.ast.value, ast.Call) and
                    isinstance(x.ast.value.func, ast.Attribute) and x.ast.value.func.attr in ("request", "notify", "response", "error") and
                    any(isinstance(a_, ast.Name) and a_.id == "params" for a_ in x.ast.value.args)]:
            if rn_.id in _ra74(gjd, gjd.entry.id, gates, lambda l: l != "exc"):
                okc = False
    ck.require(okc, "C07.4", "jsonrpc.dump: jsonclass.dump call", "one call", "jsonrpc.dump does not translate objects through jsonclass.dump", q.loc(fjd, fjd.node))
    # whether the parameters / the result are translated depends on the configuration alone: a test of the value itself on the way
    # to the call (its type, its emptiness) whose other edge goes on without translating skips the handlers registered for such values
    djd0 = dominators(gjd)
    for (n_, c_) in cs:
        for d_ in djd0[n_.id]:
            b_ = gjd.nodes[d_]
            if b_.kind != "branch" or not any(isinstance(x, ast.Name) and x.id == "params" for x in ast.walk(b_.test)):
                continue
            if isinstance(b_.test, ast.Call) and dump(b_.test.func) == "isinstance" and len(b_.test.args) == 2 and dump(b_.test.args[1]) == "Fault":
                continue        # (a Fault is not a value to translate: it selects the error form of the message)
            sib = [x for x in gjd.live_nodes() if x.kind == "branch" and x.test is b_.test and x.polarity is not b_.polarity]
            from vlib.flow import reachable_avoiding as _ra74b
            skips = any(gjd.return_exit.id in _ra74b(gjd, s_.id, set([n_.id]), lambda l: l != "exc") for s_ in sib)
            ck.require(not skips, "C07.4", "jsonrpc.dump: translation decided by the configuration alone", "no test of the value guards jsonclass.dump",
                       "jsonclass.dump is applied only under `%s`: values failing that test are emitted untranslated - a handler registered in "
                       "serialize_handlers for their type is not used at the top level (and the JSON backend then refuses the value)" % dump(b_.test)[:60],
                       q.loc(fjd, b_))
    for (n, c) in cs:
        t = q.arg_origin(fjd, n, c, "config", 4)
        ck.require(t == ("param", "config"), "C07.4", "jsonrpc.dump: jsonclass.dump(config=...)", "caller's config",
                   "objects are dumped with %s instead of the caller's configuration (handlers, serialize method and ignore "
                   "attribute names are lost)" % (prov.show(t) if t else "the DEFAULT config"), q.loc(fjd, n))
    cs = q.call_sites(prog, fjl, lambda r, c: q.is_func(r, "jsonclass.load"))
    ck.require(len(cs) == 1, "C07.4", "jsonrpc.load: jsonclass.load call", "one call", "jsonrpc.load does not translate descriptors through jsonclass.load", q.loc(fjl, fjl.node))
    for (n, c) in cs:
        t = q.arg_origin(fjl, n, c, "classes", 1)
        ck.require(t == ("attr", ("param", "config"), "classes"), "C07.4", "jsonrpc.load: jsonclass.load(data, config.classes)", "caller's class table",
                   "descriptors are loaded with %s instead of the caller's config.classes" % (prov.show(t) if t else "no class table"), q.loc(fjl, n))
        t0 = prov.origin(cfg_of(fjl), n, c.args[0]) if c.args else None
        ck.require(t0 == ("param", "data"), "C07.4", "jsonrpc.load: jsonclass.load(data, ...)", "loads Param(data)",
                   "jsonrpc.load translates %s" % (prov.show(t0) if t0 else "nothing"), q.loc(fjl, n))

    # ---- C07.5 constructor arguments ---------------------------------------------------------------------
    # the class that is instantiated: looked up in the caller's class table, or read from the module imported in this very call
    n8 = 0
    for n in gl.live_nodes():
        for c in node_calls(n):
            if isinstance(c.func, ast.Name) and c.func.id != "load" and (any(isinstance(a, ast.Starred) for a in c.args) or any(k.arg is None for k in c.keywords)):
                n8 += 1
                t = prov.origin(gl, n, c.func)
                bad, n_main, n_imp = [], [], []
                for a in prov.value_alts(t):
                    table = a[0] == "item" and (a[1] == ("param", "classes") or
                                                (a[1][0] == "or" and a[1][1] and a[1][1][0] == ("param", "classes") and
                                                 all(x_[0] == "other" and x_[1] in ("{}", "dict()") or x_ == ("tuple", ()) for x_ in a[1][1][1:])))
                    # getattr(<module>, <name>) where the module can only be what __import__ / importlib returned in this call (the
                    # import machinery waits for a first import that another thread is still running; a module picked out of
                    # sys.modules can be half initialised and lack the class)
                    imported = a[0] == "call" and a[1] == ("global", "getattr") and len(a[2]) >= 2 and \
                        all(m_[0] == "call" and (m_[1] == ("global", "__import__") or (m_[1][0] == "attr" and m_[1][2] == "import_module"))
                            for m_ in prov.value_alts(a[2][0]))
                    # (the main script, for a bare name: always present and initialised; accepted beside the import alternative)
                    main_mod = a[0] == "call" and a[1] == ("global", "getattr") and len(a[2]) >= 2 and \
                        all(_is_main_module(m_) for m_ in prov.value_alts(a[2][0]))
                    if main_mod:
                        n_main.append(a)
                        continue
                    if imported:
                        n_imp.append(a)
                    if not (table or imported):
                        bad.append(prov.show(a)[:70])
                if n_main and not n_imp:
                    bad.append("only the main script (no module is imported for a dotted name)")
                ck.require(not bad, "C07.8", "%s: class instantiated by `%s`" % (q.fn(fl), dump(c)[:50]),
                           "classes[<name>] or getattr(__import__(<module>), <name>) of this call",
                           "the class instantiated for a descriptor can be %s: not the entry of the caller's class table nor the attribute "
                           "of the module imported for this call (a remembered or foreign class object is instantiated: a redefined or "
                           "reloaded class, or another configuration's class, is not the one used)" % bad, q.loc(fl, n))
    if n8 < 1:
        raise AnalysisError("anchor vanished: constructor call in jsonclass.load")
    for n in gl.live_nodes():
        for c in node_calls(n):
            if isinstance(c.func, ast.Name) and c.func.id == "__import__":
                fl_ = kwarg(c, "fromlist", 3)
                okk = isinstance(fl_, (ast.List, ast.Tuple)) and len(fl_.elts) >= 1
                ck.require(okk, "C07.8", "%s: `%s`" % (q.fn(fl), dump(c)[:60]), "__import__(<module path>, fromlist=[<class name>])",
                           "the module of a dotted class name is imported without a non-empty fromlist: __import__ returns the top-level "
                           "package, so classes of sub-modules (pkg.mod.Cls) are not found", q.loc(fl, n))
    # load() evaluated abstractly (E7) on a descriptor {"__jsonclass__": [name, params]}: one constructor call, which receives
    # a list's elements positionally in order, or a dictionary's items by keyword; anything else is rejected
    # by an exception raised before any constructor runs
    a_, b_ = shape.Sym("arg0", pytype=int), shape.Sym("arg1", pytype=str)
    for (cname, table) in (("Cls", "own"), ("pkg.mod.Cls", None), ("pkg.mod.Cls", "other")):
        for (label, params, want) in (("[a, b]", lambda: shape.L([a_, b_]), ([a_, b_], {})), ("[]", lambda: shape.L([]), ([], {})),
                                      ("{'x': a, 'y': b}", lambda: shape.D({"x": a_, "y": b_}), ([], {"x": a_, "y": b_})),
                                      ("'text'", lambda: shape.K("text"), None), ("5", lambda: shape.K(5), None),
                                      ("None", lambda: shape.K(None), None)):
            ev = shape.Evaluator(prog, "jsonclass", lenient=True)
            res = ev.run(fl, {"obj": shape.D({"__jsonclass__": shape.L([shape.K(cname), params()])}),
                              "classes": shape.D({"Cls": shape.Opaque("the class")}) if table == "own" else
                              (shape.D({"Other": shape.Opaque("another class")}) if table == "other" else shape.K(None))})
            calls = [c for c in getattr(ev, "opaque_calls", []) if c[1] == "__call__"]
            where = "%s[name=%s%s, params=%s]" % (q.fn(fl), cname, ", class table without it" if table == "other" else "", label)
            if want is None:
                # (which exception is not part of the property: the server answers -32700 for any; C08.4 names TranslationError for
                # invalid class names only)
                okk = len(res) >= 1 and all(o[0] == "raise" for (_d, o) in res) and not calls
                ck.require(okk, "C07.5", where, "rejected with an exception, no constructor call",
                           "constructor arguments %s (neither list nor dictionary) give %s with %d constructor call(s) instead of a "
                           "rejection" % (label, [o[:2] for (_d, o) in res], len(calls)), q.loc(fl, fl.node))
            else:
                # (further outcomes of undecided tests - "the attribute found is not a class" - may reject, without any constructor call)
                rets_ = [r_ for r_ in res if r_[1][0] == "return"]
                if len(rets_) == 1 and all(r_[1][0] in ("return", "raise") for r_ in res):
                    cpr_ = getattr(ev, "calls_per_result", None)
                    if cpr_ is not None and len(cpr_) == len(res):
                        # (the calls of the returning run; the rejecting runs must not have instantiated anything)
                        i_ = [k_ for k_, r_ in enumerate(res) if r_[1][0] == "return"][0]
                        others_ = [c for k_, cl_ in enumerate(cpr_) if k_ != i_ for c in cl_ if c[1] == "__call__"]
                        calls = [c for c in cpr_[i_] if c[1] == "__call__"] + others_
                    res = rets_
                okk = len(res) == 1 and res[0][1][0] == "return" and len(calls) == 1 and calls[0][2] == want[0] and calls[0][3] == want[1]
                if okk:
                    # which object is instantiated: the entry of the class table for a bare name found there, the attribute of the
                    # imported module for a dotted name
                    who = calls[0][0]
                    right = (who == "the class") if cname == "Cls" else (who.startswith("opaque:getattr(") or who.startswith("opaque:__import__"))
                    ck.require(right, "C07.5", where + " class", "class table entry / attribute of the imported module",
                               "for the class name %r (%s) the object instantiated is %s: a class registered in the configuration's "
                               "table is not the one used (or a dotted name is not resolved through its module)"
                               % (cname, "registered in the class table" if cname == "Cls" else "module path", who), q.loc(fl, fl.node))
                ck.require(okk, "C07.5", where, "one constructor call with the arguments as given",
                           "with constructor arguments %s the class is called %s (outcome %s); required: the list's elements "
                           "positionally in order, or the dictionary's items by keyword" %
                           (label, ["(*%r, **%r)" % (c[2], c[3]) for c in calls], [o[:2] for (_d, o) in res]), q.loc(fl, fl.node))
                if okk:
                    ck.require(isinstance(res[0][1][1], shape.Opaque) and res[0][1][1].label.endswith("()"), "C07.5", where + " result",
                               "the constructed object is returned", "load returns %r instead of the constructed object" % (res[0][1][1],),
                               q.loc(fl, fl.node))
    # dump() of an object with a custom serialisation method, evaluated abstractly (E7): the method named by the argument / the
    # configuration is called once without arguments and its (params, attrs) result becomes the descriptor and the fields
    for (how, argname, cfgname) in (("configured name", None, "_serialize"), ("custom configured name", None, "to_wire"),
                                    ("name given as argument", "pack", "_serialize")):
        mname = argname or cfgname
        params_v, attrs_v = shape.L([shape.K(1), shape.K("two")]), shape.D({"x": shape.K(3), "y": shape.K(None)})
        meth = shape.Opaque("the serialisation method", {"()": shape.L([params_v, attrs_v])})
        bean = shape.Opaque("bean", {mname: meth, "__class__": shape.Opaque("class", {"__name__": shape.K("Bean")})})
        bean.closed = True
        cfgo = shape.Opaque("Config", {"serialize_method": shape.K(cfgname), "ignore_attribute": shape.K("_ignore"), "serialize_handlers": shape.D({})})
        ev = shape.Evaluator(prog, "jsonclass", lenient=True)
        res = ev.run(fdump, {"obj": bean, "serialize_method": shape.K(argname), "ignore_attribute": shape.K(None), "ignore": shape.K(None), "config": cfgo})
        problems = []
        # (how the class name is computed may fork the evaluation - module found or not, "__main__" or not -: every outcome is held
        # to the same descriptor shape)
        per_run = getattr(ev, "calls_per_result", None)
        if not res:
            problems.append("dump does not return")
        for ri, (_dec, outc) in enumerate(res):
            calls = [c for c in (per_run[ri] if per_run and ri < len(per_run) else getattr(ev, "opaque_calls", [])) if c[0] == "the serialisation method"]
            if outc[0] != "return" or not isinstance(outc[1], shape.D):
                problems.append("dump does not return a dictionary (%r)" % (outc[:2],))
                continue
            out = outc[1].items
            desc = out.get("__jsonclass__")
            name_ok = isinstance(desc, shape.L) and len(desc.elts) == 2 and (
                (isinstance(desc.elts[0], shape.K) and isinstance(desc.elts[0].v, str)) or
                (isinstance(desc.elts[0], shape.Sym) and getattr(desc.elts[0], "pytype", None) is str))
            def _same(a_, b_):
                # the very value, or a container rebuilt element by element (each element dumped on its own) with equal content
                if a_ is b_:
                    return True
                if isinstance(a_, shape.K) and isinstance(b_, shape.K):
                    return type(a_.v) is type(b_.v) and a_.v == b_.v
                if isinstance(a_, shape.L) and isinstance(b_, shape.L):
                    return len(a_.elts) == len(b_.elts) and all(_same(x_, y_) for x_, y_ in zip(a_.elts, b_.elts))
                if isinstance(a_, shape.D) and isinstance(b_, shape.D):
                    return set(a_.items) == set(b_.items) and all(_same(a_.items[k_], b_.items[k_]) for k_ in a_.items)
                return False
            if not (name_ok and _same(desc.elts[1], params_v)):
                problems.append("the descriptor is %r, not [<class name>, <params returned by the method>]" % (desc,))
            rest = dict((k, v) for k, v in out.items() if k != "__jsonclass__")
            if set(rest) != set(attrs_v.items) or any(rest[k] is not attrs_v.items[k] for k in rest):
                problems.append("the fields are %r, not the attrs returned by the method %r" % (rest, attrs_v.items))
            if len(calls) != 1 or calls[0][2] or calls[0][3]:
                problems.append("the method is called %d time(s) (%r)" % (len(calls), [(c[2], c[3]) for c in calls]))
        problems = sorted(set(problems))
        ck.require(not problems, "C07.5", "%s: object with a serialisation method (%s `%s`)" % (q.fn(fdump), how, mname),
                   "{'__jsonclass__': [name, params], **attrs} from one call of obj.%s()" % mname,
                   "dumping an object whose class defines the serialisation method `%s` (%s): %s" % (mname, how, "; ".join(problems)), q.loc(fdump, fdump.node))
    # writer / reader agreement on the class name: dump writes <module>.<cls.__name__>, LocalClasses.add registers under
    # cls.__name__ and load reads the module attribute of that name (a __qualname__ such as Outer.Inner is neither)
    name_attrs = set()
    for n in gd.live_nodes():
        for e in node_exprs(n):
            for sub_ in ast.walk(e):
                if isinstance(sub_, ast.Attribute) and sub_.attr in ("__name__", "__qualname__") and isinstance(sub_.value, (ast.Attribute, ast.Call)) and (
                        dump(sub_.value) in ("obj.__class__", "type(obj)")):
                    name_attrs.add(sub_.attr)
    # ... and the module part is the name the module is registered under in sys.modules / the class declares (`__name__`,
    # `__module__`): other names of a module (`__spec__.name`, `__package__`, `__file__`) differ from it exactly where it matters -
    # a program started with `python -m app` runs as `__main__`, whose spec is named `app`: a class written as `app.Cls` is loaded
    # from a second copy of the module
    for n in gd.live_nodes():
        for c in node_calls(n):
            if isinstance(c.func, ast.Attribute) and c.func.attr == "format" and isinstance(c.func.value, ast.Constant) and \
                    c.func.value.value == "{0}.{1}" and len(c.args) == 2:
                tm = prov.origin(gd, n, c.args[0])
                odd = []

                def _scan(x):
                    if isinstance(x, tuple):
                        if x and x[0] == "attr" and isinstance(x[2], str) and x[2].startswith("__") and x[2] not in ("__name__", "__module__", "__class__"):
                            odd.append(x[2])
                        if x and x[0] == "const" and isinstance(x[1], str) and x[1].startswith("__") and x[1].endswith("__") and \
                                x[1] not in ("__name__", "__module__", "__class__", "__main__"):
                            odd.append(x[1])
                        for y in x:
                            _scan(y)
                    elif isinstance(x, frozenset):
                        for y in x:
                            _scan(y)
                _scan(tm)
                ck.require(not odd, "C07.8", "%s: module part of the class path" % q.fn(fdump), "__name__ / __module__ only",
                           "the module name written into the descriptor is computed from %s: not the name the module is imported under "
                           "(for `python -m pkg.mod` the running module is `__main__` while its spec is named `pkg.mod`)" % sorted(set(odd)),
                           q.loc(fdump, n))
    fadd = prog.func("config", "LocalClasses.add")
    reg_attrs = set(sub_.attr for sub_ in ast.walk(fadd.node) if isinstance(sub_, ast.Attribute) and sub_.attr in ("__name__", "__qualname__"))
    if not name_attrs or not reg_attrs:
        raise AnalysisError("anchor vanished: the class-name attribute in jsonclass.dump / LocalClasses.add (%s / %s)" % (sorted(name_attrs), sorted(reg_attrs)))
    # the registration replaces whatever was registered under the name (item store, not setdefault / conditional store)
    gadd = cfg_of(fadd)
    st_add = [n for n in gadd.live_nodes() if n.kind == "stmt" and isinstance(n.ast, ast.Assign) and isinstance(n.ast.targets[0], ast.Subscript) and
              dump(n.ast.targets[0].value) == "self"]
    # (a guard that only separates "no class given" - the decorator-factory form - from a registration is no condition on the latter)
    def _no_class_expr(t_):
        """-> True / False: the test is true / false exactly when no class was given (None, or a string - a name - in its place)"""
        if isinstance(t_, ast.Compare) and len(t_.ops) == 1 and isinstance(t_.ops[0], (ast.Is, ast.IsNot)) and \
                isinstance(t_.left, ast.Name) and t_.left.id == "cls" and isinstance(t_.comparators[0], ast.Constant) and \
                t_.comparators[0].value is None:
            return isinstance(t_.ops[0], ast.Is)
        if isinstance(t_, ast.Call) and dump(t_.func) == "isinstance" and len(t_.args) == 2 and dump(t_.args[0]) == "cls" and \
                dump(t_.args[1]) in ("str", "utils.STRING_TYPES", "STRING_TYPES", "(str,)"):
            return True
        if isinstance(t_, ast.BoolOp) and isinstance(t_.op, ast.Or) and all(_no_class_expr(v_) is True for v_ in t_.values):
            return True
        return None

    def _no_class_test(b_):
        # (on the registration path the test came out as "a class was given")
        r_ = _no_class_expr(b_.test)
        return r_ is not None and b_.polarity != r_
    cond_add = [n for n in st_add if any(gadd.nodes[i].kind == "branch" and not _no_class_test(gadd.nodes[i]) for i in dominators(gadd)[n.id])]
    if cond_add and len(st_add) == 1:
        # guards that reject (raise) instead of registering are no silent skip: every normal return that hands back a registration
        # passed the store
        rets_add = [r_ for r_ in gadd.live_nodes() if r_.kind == "return" and not any(
            _no_class_test(gadd.nodes[i]) is False and False for i in ())]
        decorator_rets = [r_ for r_ in rets_add if any(gadd.nodes[i].kind == "branch" and isinstance(gadd.nodes[i].test, ast.Compare) and
                                                       dump(gadd.nodes[i].test) in ("cls is None",) and gadd.nodes[i].polarity for i in dominators(gadd)[r_.id]) or
                          any(gadd.nodes[i].kind == "branch" and _no_class_expr(gadd.nodes[i].test) is True and gadd.nodes[i].polarity for i in dominators(gadd)[r_.id])]
        if all(common.must_pass(gadd, r_.id, [st_add[0].id]) for r_ in rets_add if r_ not in decorator_rets):
            cond_add = []
    weak = [c for n in gadd.live_nodes() for c in node_calls(n) if isinstance(c.func, ast.Attribute) and dump(c.func.value) == "self" and
            c.func.attr in ("setdefault", "update", "get")]
    ck.require(len(st_add) == 1 and not cond_add and not weak and prov.origin(gadd, st_add[0], st_add[0].ast.value) == ("param", "cls"), "C07.8",
               "%s: registration stores the class under the name" % q.fn(fadd), "self[name or cls.__name__] = cls, unconditionally",
               "LocalClasses.add does not store the given class unconditionally (%s): registering a class under a name already in use keeps the "
               "old class, and objects dumped as the new class are loaded as instances of the old one"
               % (("`%s`" % dump(weak[0])[:40]) if weak else "conditional or missing item store"), q.loc(fadd, fadd.node))
    ck.require(name_attrs == set(["__name__"]) and reg_attrs == set(["__name__"]), "C07.8", "jsonclass.dump / config.LocalClasses.add: class name",
               "both use cls.__name__",
               "dump names the class by %s while the class table registers it by %s and load reads the module attribute of that name: a class whose "
               "__qualname__ differs from its __name__ (defined inside a function or another class) cannot be loaded back"
               % (sorted(name_attrs), sorted(reg_attrs)), q.loc(fdump, fdump.node))
    dgd = dominators(gd)
    for fn_, want in (("utils.is_decimal", "[str(obj)]"), ("utils.is_enum", "[obj.value]")):
        region = [m for m in gd.live_nodes() if any(gd.nodes[i].kind == "branch" and gd.nodes[i].polarity and isinstance(gd.nodes[i].test, ast.Call)
                                                      and dump(gd.nodes[i].test.func) == fn_ for i in dgd[m.id])]
        exprs = set()
        for m in region:
            for e in __import__("vlib.cfg", fromlist=["node_exprs"]).node_exprs(m):
                for sub in ast.walk(e):
                    if isinstance(sub, ast.List) and len(sub.elts) == 1:
                        exprs.add(dump(sub))
                        if isinstance(sub.elts[0], ast.Name):
                            # (a local bound to the value just before: `v = str(obj)` ... `[v]`)
                            for st_ in ast.walk(fdump.node):
                                if isinstance(st_, ast.Assign) and any(isinstance(t_, ast.Name) and t_.id == sub.elts[0].id for t_ in st_.targets):
                                    exprs.add("[%s]" % dump(st_.value))
        if not region:
            ck.bad("C07.5", "%s: %s branch" % (q.fn(fdump), fn_), "no branch for %s objects" % fn_[9:], q.loc(fdump, fdump.node))
            continue
        ck.require(want in exprs, "C07.5", "%s: %s branch emits %s" % (q.fn(fdump), fn_, want), want,
                   "%s objects are dumped with constructor arguments %s instead of %s" % (fn_[9:], sorted(exprs), want), q.loc(fdump, region[0]))
    ck.floor("C07.5", 6)

    rule_c07_7(ck)

    # ---- C07.6 the per-request configuration copy keeps the serialisation settings ------------------------
    common.check_config_copy(ck, "C07.6", only=("serialize_method", "ignore_attribute", "serialize_handlers", "classes", "use_jsonclass"))

    # ---- C07.9 type tables (shared with C15.3) ---------------------------------------------------------------------------
    from rules import c15 as _c15
    common.import_rules(ck, _c15.rule_c15_3, {"C15.3": "C07.9"})
    ck.floor("C07.9", 8)

    # ---- C07.10 transport of the dumped form (shared with C02.6 / C17.3) ------------------------------------------------------
    from rules import c02 as _c02t, c17 as _c17t
    common.import_rules(ck, _c02t, {"C02.6": "C07.10"})
    common.import_rules(ck, _c17t, {"C17.3": "C07.10"})
    ck.floor("C07.10", 6)

    # ---- C07.11 nothing but the ignore lists and the type test drops a field (shared with C20.3 / C20.5) --------------------------
    from rules import c20 as _c20f
    common.import_rules(ck, _c20f, {"C20.3": "C07.11", "C20.5": "C07.11", "C20.2": "C07.11"})
    ck.floor("C07.11", 15)
