"""C17 Wire framing is exact and body reassembly is independent of chunking."""
import ast
from vlib.model import AnalysisError, dump, kwarg, call_name
from vlib.cfg import cfg_of, node_calls, node_exprs
from vlib.flow import dominators, reachable_avoiding
from vlib import prov, q, shape, spec
from rules.common import SRV, DISP

META = {
    "explanation": (
        "Decides: C17.1 at each of the three emission sites (client send_content, server do_POST, CGI handle_jsonrpc) the "
        "declared Content-Length is len(V) of the very variable V that is written to the peer, V being defined by a "
        "bytes-producing call (to_bytes / .encode) with no redefinition in between (same reaching definition); C17.2 the "
        "content type emitted there is the configuration's content_type; C17.3 inside a loop that accumulates body reads "
        "no decoding call is applied to a single read: decoding is applied once to the joined bytes (server do_POST and "
        "client JSONTarget), and the read loop leaves on an empty read; C17.4 the request target, obtained by abstract "
        "evaluation of ServerProxy.__init__ and _run_request over URL shapes, is path [+ '?' + query] with '/' substituted "
        "only for an empty path and always for unix+ URLs; C17.5 the same evaluation shows every scheme outside "
        "{http, https, unix+http} raising IOError in the constructor and every accepted one storing a transport; C17.6 (imported from "
        "C19.3) each response is fed into a parser/target created for it, and close() returns exactly the join of what was fed. C17.7 (imported from C18.3) the read-only header table consulted when additional headers are merged is exactly {content-length, content-type} (lower case): a pushed Content-Type cannot replace or duplicate the configured one. C17.8 every constructor that receives a `config` hands that very object to each package constructor it calls (positionally or by keyword, against the callee's signature): the content type declared by a server / handler is the one of the Config it was given. C17.9 every normal path through TransportMixIn.send_request passes exactly one connection.putrequest(\"POST\", handler, ...): the request line carries the method the library's servers answer and the target computed by the proxy."),
    "does_not_decide": "gzip decoding, HTTP parsing, actual byte streams (http.client behaviour).",
    "rules": {"C17.9": "must-pass-through on the CFG of send_request + literal / provenance of the two arguments",
              "C17.8": "constructor call scan (common.check_config_forwarding)",
              "C17.7": "imported C18.3 (read-only header table, constant folding vs spec)",
              "C17.1": "same-reaching-definition (E2) + provenance", "C17.2": "provenance", "C17.3": "loop-body call scan + reachability",
              "C17.4": "shape interpreter (E7) over URL shapes", "C17.5": "shape interpreter over schemes vs spec A.7", "C17.6": "imported C19.3"},
    "assumptions": ["urllib.parse.urlparse splits scheme/netloc/path/query as documented (its result is stubbed per case)"],
}

DECODERS = ("from_bytes", "decode")


def _late_imports():
    """imports needed by the rule groups (made at run time: rule modules import each other)"""
    global c19, common
    global _c18r
    global _ra9
    from rules import c19, common
    from rules import c18 as _c18r
    from vlib.flow import reachable_avoiding as _ra9



def check(ck):
    prog = ck.prog
    _late_imports()
    # each rule group runs on its own: an anchor lost in one group does not silence the others (the first refusal is raised at the end)
    deferred = []
    for part in (_part1, _part2, _part3, _part4, _part5, _part6, _part7):
        try:
            part(ck, prog)
        except AnalysisError as ex:
            deferred.append(ex)
    if deferred:
        raise deferred[0]


def _part1(ck, prog):
    # ---- C17.1 / C17.2 ----------------------------------------------------------------------------
    sites = [(prog.func("jsonrpc", "TransportMixIn.send_content"), "putheader", "send", "self._config.content_type"),
             (prog.func(SRV, "SimpleJSONRPCRequestHandler.do_POST"), "send_header", "write", "config.content_type"),
             (prog.func(SRV, "CGIJSONRPCRequestHandler.handle_jsonrpc"), "print", "write", "self.json_config.content_type")]
    for (fi, hdr, wr, ctype) in sites:
        g = cfg_of(fi)
        rd = prov.rd_of(g)
        writes = [(n, c) for n in g.live_nodes() for c in node_calls(n) if call_name(c) == wr and len(c.args) == 1 and
                  (wr != "write" or "write" in dump(c.func))]
        lens = []

        def _hname(c):
            # header name as emitted: `putheader("Content-Length", v)` / `send_header(...)`; the CGI handler prints "Name:" then the value
            v = str(c.args[0].value)
            if hdr == "print":
                return v.lower() if v.endswith(":") and not v[:-1].endswith((":", " ")) else None, v
            return v.lower() + ":", v
        near_l = [(n, c) for n in g.live_nodes() for c in node_calls(n)
                  if call_name(c) == hdr and c.args and isinstance(c.args[0], ast.Constant) and "content-length" in str(c.args[0].value).lower()]
        # the header of that exact name; another header whose name merely contains it (X-Content-Length-Hint) is none of this rule's
        # business once the real one is there - and is reported as a misspelling when it is not
        lens = [(n, c) for (n, c) in near_l if _hname(c)[0] == "content-length:"] or near_l
        for (n, c) in lens:
            nm, raw = _hname(c)
            ck.require(nm == "content-length:", "C17.1", "%s: header name of the declared length" % q.fn(fi), "Content-Length",
                       "the length is declared under the name `%s`, which is not the Content-Length header" % raw, q.loc(fi, n))
        if not writes or not lens:
            raise AnalysisError("anchor vanished: body write / Content-Length emission in %s (%d/%d)" % (q.fn(fi), len(writes), len(lens)))
        # one message per body write: its headers are the header calls from which the write is reached without passing another
        # body write (a handler may answer on several exits, each with its own header block)
        write_ids = set(n.id for (n, _c) in writes)
        for (wn, wc) in writes:
            before, stack = set(), [wn.id]
            while stack:
                x = stack.pop()
                if x in before or (x in write_ids and x != wn.id):
                    continue
                before.add(x)
                for (a_, l_) in g.pred[x]:
                    if l_ != "exc":
                        stack.append(a_)
            lens_w = [(n, c) for (n, c) in lens if n.id in before]
            if len(lens_w) != 1:
                if len(writes) == 1:
                    raise AnalysisError("anchor vanished: body write / Content-Length emission in %s (%d/%d)" % (q.fn(fi), len(writes), len(lens)))
                ck.bad("C17.1", "%s: Content-Length of the body written by `%s`" % (q.fn(fi), q.stmt_text(wn)[:40]),
                       "%d Content-Length headers lead to this body write (exactly one is required)" % len(lens_w), q.loc(fi, wn))
                continue
            ln, lc = lens_w[0]
            if len(lc.args) < 2:
                ck.bad("C17.1", "%s: Content-Length vs the bytes written" % q.fn(fi), "the Content-Length header is emitted without a value (`%s`)" % dump(lc),
                       q.loc(fi, ln))
                continue
            val = lc.args[1]
            if not isinstance(wc.args[0], ast.Name):
                ck.bad("C17.1", "%s: Content-Length vs the bytes written" % q.fn(fi),
                       "the declared Content-Length is `%s` but the bytes written are `%s`: the length is not taken from the very bytes sent"
                       % (dump(val), dump(wc.args[0])), q.loc(fi, ln))
                continue
            var = wc.args[0].id
            inner = val
            if isinstance(inner, ast.Call) and dump(inner.func) in ("str", "repr") and len(inner.args) == 1 and not inner.keywords:      # (the same text for an int)
                inner = inner.args[0]
            okk = isinstance(inner, ast.Call) and dump(inner.func) == "len" and inner.args and isinstance(inner.args[0], ast.Name) and inner.args[0].id == var
            same = okk and rd.get(ln.id, {}).get(var) == rd.get(wn.id, {}).get(var)
            ck.require(bool(same), "C17.1", "%s: Content-Length = len(%s) of the bytes written" % (q.fn(fi), var), "same reaching definition of `%s`" % var,
                       "the declared Content-Length is `%s` but `%s` is written: the length is not that of the very bytes sent (e.g. computed "
                       "before encoding, or the body is redefined in between)" % (dump(val), dump(wc.args[0])), q.loc(fi, ln))
            t = prov.origin(g, wn, wc.args[0])
            bytesy = all(a[0] == "call" and (prov.show(a[1]).endswith("to_bytes") or (a[1][0] == "attr" and a[1][2] == "encode")) for a in prov.alts(t))
            ck.require(bytesy, "C17.1", "%s: `%s` is produced by a bytes conversion" % (q.fn(fi), var), "to_bytes(...) / .encode(...)",
                       "the written body is %s, not the result of a bytes conversion: its len() is not a byte length" % prov.show(t)[:70], q.loc(fi, wn))
            near_c = [(n, c) for n in g.live_nodes() if n.id in before for c in node_calls(n)
                      if call_name(c) == hdr and c.args and isinstance(c.args[0], ast.Constant) and "content-type" in str(c.args[0].value).lower()]
            cts = [(n, c) for (n, c) in near_c if _hname(c)[0] == "content-type:"] or near_c
            for (n_, c_) in cts:
                nm, raw = _hname(c_)
                ck.require(nm == "content-type:", "C17.2", "%s: header name of the content type" % q.fn(fi), "Content-Type",
                           "the content type is sent under the name `%s`, which is not the Content-Type header" % raw, q.loc(fi, n_))
            ctv = dump(cts[0][1].args[1]) if cts and len(cts[0][1].args) > 1 else None
            ck.require(len(cts) == 1 and ctv == ctype, "C17.2", "%s: Content-Type from the configuration" % q.fn(fi), ctype,
                       "the emitted content type is `%s`, not the configured %s" % (ctv, ctype), q.loc(fi, ln))
            # the two headers belong to the header block: they precede the call that closes it (end_headers / endheaders / the empty line)
            from vlib.flow import reachable_avoiding as _ra2
            enders = [n for n in g.live_nodes() if n.id in before for c in node_calls(n) if call_name(c) in ("end_headers", "endheaders") or
                      (isinstance(c.func, ast.Name) and c.func.id == "print" and not c.args and not c.keywords)]
            for (hn, _hc) in [(ln, lc)] + cts[:1]:
                late = [e_ for e_ in enders if hn.id in _ra2(g, e_.id, set(), lambda l: l != "exc") and e_.id not in _ra2(g, hn.id, set(), lambda l: l != "exc")]
                ck.require(bool(enders) and not late, "C17.1", "%s: `%s` inside the header block" % (q.fn(fi), q.stmt_text(hn)[:40]), "before the block is closed",
                           "the header is emitted after the header block has been closed (`%s`): it is not part of the message's headers"
                           % (q.stmt_text(late[0])[:40] if late else "no closing call found"), q.loc(fi, hn))
    ck.floor("C17.1", 6)


def _part2(ck, prog):
    # ---- C17.3 decode after join ----------------------------------------------------------------------
    fp = prog.func(SRV, "SimpleJSONRPCRequestHandler.do_POST")
    g = cfg_of(fp)
    loops = [w for w in ast.walk(fp.node) if isinstance(w, ast.While) and any(isinstance(c, ast.Call) and call_name(c) == "read" for c in ast.walk(w))]
    if len(loops) != 1:
        raise AnalysisError("anchor vanished: the body read loop of do_POST")
    loop = loops[0]
    dec_in = [c for c in ast.walk(loop) if isinstance(c, ast.Call) and (call_name(c) in DECODERS or (dump(c.func) == "str" and len(c.args) > 1))]
    ck.require(not dec_in, "C17.3", "%s: no decoding inside the read loop" % q.fn(fp), "reads are accumulated raw",
               "a single read is decoded inside the accumulation loop (`%s`): a multi-byte character split between two reads fails to decode "
               "(the same body passes or fails depending on how it is chunked)" % (dump(dec_in[0]) if dec_in else ""), q.loc(fp, dec_in[0]) if dec_in else "")
    acc = [c for c in ast.walk(loop) if isinstance(c, ast.Call) and call_name(c) == "append"]
    ck.require(len(acc) == 1, "C17.3", "%s: reads appended to one list" % q.fn(fp), "chunks.append(raw)", "the read loop does not accumulate the raw reads", q.loc(fp, loop))
    dec_after = []
    for n in g.live_nodes():
        for c in node_calls(n):
            if call_name(c) in DECODERS and not any(sub is c for sub in ast.walk(loop)):
                t = prov.origin(g, n, c.func.value) if (call_name(c) == "decode" and isinstance(c.func, ast.Attribute)) else (
                    prov.origin(g, n, c.args[0]) if c.args else prov.origin(g, n, c.func.value))
                if t[0] == "call" and t[1][0] == "attr" and t[1][2] == "join":
                    dec_after.append((n, c, t))
                elif t[0] == "call" and len(t[2]) == 1 and t[2][0][0] == "call" and t[2][0][1][0] == "attr" and t[2][0][1][2] == "join":
                    # the joined bytes passed through one more call first (undoing a Content-Encoding on the whole body): still one
                    # text decoding of the whole
                    dec_after.append((n, c, t[2][0]))
    ck.require(len(dec_after) == 1, "C17.3", "%s: one decode of the joined bytes" % q.fn(fp), "from_bytes(b''.join(chunks))",
               "the body is not decoded exactly once from the joined reads", q.loc(fp, loop))
    # the loop leaves on an empty read
    gl = cfg_of(fp)
    reads = [n for n in gl.live_nodes() if n.kind == "stmt" and isinstance(n.ast, ast.Assign) and isinstance(n.ast.value, ast.Call) and call_name(n.ast.value) == "read"]
    head = [n for n in gl.live_nodes() if n.kind == "join" and n.ast is loop and any(l == "back" for (_a, l) in gl.pred[n.id])]
    if len(reads) != 1 or len(head) != 1:
        raise AnalysisError("anchor vanished: read statement / loop head in do_POST")
    rv = reads[0].ast.targets[0].id
    empty_b = [n for n in gl.live_nodes() if n.kind == "branch" and n.polarity is False and dump(n.test) == rv]
    empty_b += [n for n in gl.live_nodes() if n.kind == "branch" and n.polarity is True and dump(n.test) in ("len(%s) == 0" % rv, "%s == b''" % rv)]
    okk = bool(empty_b) and all(head[0].id not in reachable_avoiding(gl, b.id, set()) or
                                head[0].id not in _reach_before_exit(gl, b.id, head[0].id) for b in empty_b)
    ck.require(okk, "C17.3", "%s: an empty read leaves the loop" % q.fn(fp), "`if not %s: break`" % rv,
               "an empty read (peer closed the connection before sending Content-Length bytes) does not leave the read loop: the handler "
               "spins forever on EOF", q.loc(fp, reads[0]))
    # the size handed to rfile.read() is an integer for a body of any length: built from int(...), integer constants, min / max,
    # + - * // % only - a true division (`/`) or a float constant anywhere in it (fields of the handler or server it reads included)
    # makes read() raise TypeError as soon as that operand decides the size (bodies above the chunk size are answered 500)
    rd_call = reads[0].ast.value
    if rd_call.args:
        seen_attrs, floaty = set(), []

        def _scan_int(e_, where_):
            for x_ in ast.walk(e_):
                if isinstance(x_, ast.BinOp) and isinstance(x_.op, ast.Div):
                    floaty.append((where_, dump(x_)[:50]))
                if isinstance(x_, ast.Constant) and isinstance(x_.value, float):
                    floaty.append((where_, repr(x_.value)))
                if isinstance(x_, ast.Call) and isinstance(x_.func, ast.Name) and x_.func.id == "float":
                    floaty.append((where_, dump(x_)[:50]))
                if isinstance(x_, ast.Attribute) and isinstance(x_.value, ast.Name) and x_.value.id == "self" and x_.attr not in seen_attrs:
                    seen_attrs.add(x_.attr)
                    for f2 in prog.module_funcs(SRV):
                        for st2 in ast.walk(f2.node):
                            if isinstance(st2, (ast.Assign, ast.AugAssign)):
                                tg2 = st2.targets if isinstance(st2, ast.Assign) else [st2.target]
                                if any(isinstance(t2, ast.Attribute) and t2.attr == x_.attr for t2 in tg2):
                                    if isinstance(st2, ast.AugAssign) and isinstance(st2.op, ast.Div):
                                        floaty.append((q.fn(f2), dump(st2)[:50]))
                                    _scan_int(st2.value, q.fn(f2))
                    for ci2 in prog.classes.values():
                        if ci2.module == SRV:
                            for st2 in ci2.node.body:
                                if isinstance(st2, ast.Assign) and any(isinstance(t2, ast.Name) and t2.id == x_.attr for t2 in st2.targets):
                                    _scan_int(st2.value, "%s.%s" % (SRV, ci2.name))
        # the expression itself and the definitions of the locals it uses
        todo_, done_ = [rd_call.args[0]], set()
        while todo_:
            e_ = todo_.pop()
            _scan_int(e_, q.fn(fp))
            for x_ in ast.walk(e_):
                if isinstance(x_, ast.Name) and x_.id not in done_:
                    done_.add(x_.id)
                    for st2 in ast.walk(fp.node):
                        if isinstance(st2, ast.Assign) and any(isinstance(t2, ast.Name) and t2.id == x_.id for t2 in st2.targets):
                            todo_.append(st2.value)
                        if isinstance(st2, ast.AugAssign) and isinstance(st2.target, ast.Name) and st2.target.id == x_.id:
                            if isinstance(st2.op, ast.Div):
                                floaty.append((q.fn(fp), dump(st2)[:50]))
                            todo_.append(st2.value)
        ck.require(not floaty, "C17.3", "%s: the size given to rfile.read() is an integer" % q.fn(fp), "no true division / float in `%s`" % dump(rd_call.args[0])[:40],
                   "the size given to rfile.read() can be a float (%s in %s): read() raises TypeError for a non-integer size, so a body larger "
                   "than that chunk size is not reassembled but answered with an error" % (floaty[0][1] if floaty else "", floaty[0][0] if floaty else ""),
                   q.loc(fp, reads[0]))
    # every read of the request stream belongs to that loop, and the remaining size only shrinks by what was actually read
    stray = [c for c in ast.walk(fp.node) if isinstance(c, ast.Call) and call_name(c) in ("read", "read1", "readinto", "readline", "readlines")
             and "rfile" in dump(c.func) and not any(sub is c for sub in ast.walk(loop))]
    ck.require(not stray, "C17.3", "%s: every read of the request body is in the accumulation loop" % q.fn(fp), "no read outside the loop",
               "`%s` reads the body outside the loop that re-checks how much is still missing: a single read may return fewer bytes than "
               "asked (slow client, unbuffered stream), the rest of the body is then dropped or the cut falls inside a multi-byte character"
               % (dump(stray[0])[:60] if stray else ""), q.loc(fp, stray[0]) if stray else "")
    cvar = dump(loop.test) if isinstance(loop.test, ast.Name) else None
    if cvar is None and isinstance(loop.test, ast.Compare) and isinstance(loop.test.left, ast.Name):
        cvar = loop.test.left.id
    if cvar is None:
        raise AnalysisError("anchor vanished: the remaining-size variable of the read loop in do_POST (`while %s`)" % dump(loop.test))
    wr = [x for x in ast.walk(fp.node) if (isinstance(x, ast.Assign) and any(isinstance(t, ast.Name) and t.id == cvar for t in x.targets)) or
          (isinstance(x, ast.AugAssign) and isinstance(x.target, ast.Name) and x.target.id == cvar)]
    def _from_header(x):
        if "content-length" in dump(x.value).lower():
            return True
        for n_ in gl.live_nodes():
            if n_.kind == "stmt" and n_.ast is x:
                t_ = prov.origin(gl, n_, x.value)
                return prov.contains(t_, lambda y: y[0] == "const" and "content-length" in str(y[1]).lower())
        return False
    init_w = [x for x in wr if isinstance(x, ast.Assign) and not any(sub is x for sub in ast.walk(loop)) and _from_header(x)]
    dec_w = [x for x in wr if isinstance(x, ast.AugAssign) and isinstance(x.op, ast.Sub) and dump(x.value) == "len(%s)" % rv and any(sub is x for sub in ast.walk(loop))]
    dec_w += [x for x in wr if isinstance(x, ast.Assign) and isinstance(x.value, ast.BinOp) and isinstance(x.value.op, ast.Sub) and
              dump(x.value.left) == cvar and dump(x.value.right) == "len(%s)" % rv and any(sub is x for sub in ast.walk(loop))]
    other_w = [x for x in wr if x not in init_w and x not in dec_w]
    # (the initial value may be bound in the arms of a validation of the header - each arm from the header, none inside the loop)
    ck.require(len(init_w) >= 1 and len(dec_w) == 1 and not other_w, "C17.3", "%s: remaining size = Content-Length minus the bytes read" % q.fn(fp),
               "`%s -= len(%s)` only" % (cvar, rv),
               "the remaining size `%s` is also changed by `%s`: the loop no longer accounts for what the reads actually returned"
               % (cvar, dump(other_w[0])[:50] if other_w else "nothing (no decrement by the length read)"), q.loc(fp, other_w[0] if other_w else loop))
    ft = prog.func("jsonrpc", "JSONTarget.feed")
    fc = prog.func("jsonrpc", "JSONTarget.close")
    dec_feed = [c for c in ast.walk(ft.node) if isinstance(c, ast.Call) and call_name(c) in DECODERS]
    ck.require(not dec_feed, "C17.3", "%s: feed() stores raw data" % q.fn(ft), "no decoding per feed", "the client decodes each fed chunk separately", q.loc(ft, ft.node))
    gc = cfg_of(fc)
    okk = False
    for n in gc.live_nodes():
        for c in node_calls(n):
            if call_name(c) in DECODERS and c.args:
                t = prov.origin(gc, n, c.args[0])
                if t[0] == "call" and t[1][0] == "attr" and t[1][2] == "join":
                    okk = True
    ck.require(okk, "C17.3", "%s: close() decodes the joined data" % q.fn(fc), "from_bytes(join(self.data))", "the client does not decode the joined response once", q.loc(fc, fc.node))
    # the decoding is exact: no error-handling scheme that alters the text ("replace", "ignore", ...)
    for fi_ in (fc, fp):
        for c_ in [x for x in ast.walk(fi_.node) if isinstance(x, ast.Call) and call_name(x) in DECODERS]:
            lossy = [a_ for a_ in list(c_.args[1:]) + [k_.value for k_ in c_.keywords if k_.arg in ("errors",)]
                     if isinstance(a_, ast.Constant) and isinstance(a_.value, str) and a_.value.lower() in ("replace", "ignore", "backslashreplace", "surrogateescape", "xmlcharrefreplace")]
            ck.require(not lossy, "C17.3", "%s: `%s` decodes strictly" % (q.fn(fi_), dump(c_)[:40]), "no lossy error scheme",
                       "`%s` decodes with the error scheme %r: bytes that are not valid UTF-8 are altered instead of reported, and the "
                       "fall-back that hands the raw bytes to the JSON parser (UTF-16 / UTF-32 bodies) is never reached" % (dump(c_)[:50], lossy[0].value if lossy else ""),
                       q.loc(fi_, c_))
    # every chunk handed to the parser reaches the target's buffer: feed() has no early exit and appends unconditionally
    for (cls_, what_) in (("JSONParser", "target.feed"), ("JSONTarget", "data.append")):
        ff_ = prog.func("jsonrpc", cls_ + ".feed")
        gf_ = cfg_of(ff_)
        sinks = set(n.id for n in gf_.live_nodes() for c in node_calls(n) if dump(c.func).endswith(what_))
        if not sinks:
            raise AnalysisError("anchor vanished: %s in %s.feed" % (what_, cls_))
        skip_ = reachable_avoiding(gf_, gf_.entry.id, sinks, lambda l: l != "exc")
        ck.require(gf_.return_exit.id not in skip_, "C17.3", "%s: every chunk is stored" % q.fn(ff_), "no path around `%s`" % what_,
                   "%s.feed can return without storing the chunk it was given (a test on the chunk's content): the reassembled text "
                   "depends on where the read boundaries fall" % cls_, q.loc(ff_, ff_.node))


def _part3(ck, prog):
    # ---- C17.4 / C17.5 request target and schemes -------------------------------------------------------------
    finit = prog.func("jsonrpc", "ServerProxy.__init__")
    frun = prog.func("jsonrpc", "ServerProxy._run_request")
    cases = []
    for scheme in ("http", "https", "unix+http"):
        for path in ("", "/", "/a/b", "/tmp/s.sock"):
            for query in ("", "x=1&y=%202"):
                cases.append((scheme, "h:80", path, query, True))
    # the rejected schemes include ones that only differ from a supported one by repeated prefix material (a prefix removed
    # with str.lstrip, which strips a character set, or removed twice, would accept them)
    for scheme in ("ftp", "", "ws", "unix+ftp", "unix+", "httpx", "unix+https+x", "file", "unix+https", "unix+unix+http", "unix++http",
                   "unix+xhttp", "unix+nix+http", "+http", "unixhttp", "xhttp", "http+", "unix+http+"):
        cases.append((scheme, "h", "/p", "", False))
    if ck.tier == "thorough":
        # larger universe: more paths (dots, trailing slash, encoded characters, a path that looks like a query), more queries
        # (empty value, repeated '?', '#'-free fragments are not part of urlparse().query), netlocs with port / credentials,
        # and more rejected schemes (case variants are normalised by urlparse itself and are not generated)
        paths = ("", "/", "//", "/a", "/a/", "/a/b.c", "/%7Euser/x%20y", "/a;p=1", "/tmp/jsonrpc.sock", "/..", "/a/../b")
        queries = ("", "a", "a=", "a=1&a=2", "q=%3F%26", "x=1?y=2", "=", "&")
        for scheme in ("http", "https", "unix+http"):
            for netloc in ("h", "h:8080", "u:p@h:1", "[::1]:80", ""):
                for path in paths:
                    for query in queries:
                        if netloc == "h:80" and path in ("", "/", "/a/b", "/tmp/s.sock") and query in ("", "x=1&y=%202"):
                            continue
                        if netloc != "h" and (path not in ("", "/a") or query not in ("", "a=1&a=2")):
                            continue
                        cases.append((scheme, netloc, path, query, True))
        for scheme in ("gopher", "htt", "https+unix", "unix", "unix+unix+https", "http+unix", "smtp", "unix+httpss", "s3", "data", "unix+file"):
            cases.append((scheme, "h", "/p", "q=1", False))
    n4 = 0
    for (scheme, netloc, path, query, accepted) in cases:
        def urlparse_stub(*a, **k):
            return shape.Opaque("urlparse", {"scheme": shape.K(scheme), "netloc": shape.K(netloc), "path": shape.K(path), "query": shape.K(query)})
        holder = []

        def mk():
            o = shape.Obj("ServerProxy", {})
            holder[:] = [o]
            return o
        ev = shape.Evaluator(prog, "jsonrpc", lenient=True)
        ev._urlparse = urlparse_stub
        cfgo = shape.Opaque("Config", {"version": shape.K(2.0)})
        res = _run_init(ev, finit, mk, cfgo, urlparse_stub)
        label = "%s://%s%s%s" % (scheme, netloc, path, "?" + query if query else "")
        for (_tr, out) in res:
            n4 += 1
            if not accepted:
                # (rejected = an exception leaves the constructor; the property does not name its class)
                ck.require(out[0] == "raise", "C17.5", "%s: scheme %r" % (q.fn(finit), scheme), "raises",
                           "a proxy for the unsupported URL %s is %s; unsupported schemes must be rejected when the proxy is built" % (
                               label, "built" if out[0] == "return" else "rejected with " + out[1]), q.loc(finit, finit.node))
                continue
            o = holder[0]
            tr = o.attrs.get("_ServerProxy__transport")
            okk = out[0] == "return" and isinstance(tr, shape.Opaque) and tr.label in ("Transport", "SafeTransport", "UnixTransport")
            want_tr = {"http": "Transport", "https": "SafeTransport", "unix+http": "UnixTransport"}[scheme]
            ck.require(okk and tr.label == want_tr, "C17.5", "%s: %s" % (q.fn(finit), label), "stores a %s" % want_tr,
                       "building a proxy for %s %s" % (label, ("stores transport %r" % (tr,)) if out[0] == "return" else "raises " + out[1]), q.loc(finit, finit.node))
            if not okk:
                continue
            # now the request target
            o.attrs["_ServerProxy__history"] = shape.K(None)
            tr.attrs["request()"] = shape.K("")
            ev2 = shape.Evaluator(prog, "jsonrpc", lenient=True)
            res2 = ev2.run(frun, {"request": shape.K("{}"), "notify": shape.K(False)}, o)
            calls = [c for c in getattr(ev2, "opaque_calls", []) if c[1] == "request"]
            want = ("/" if (scheme.startswith("unix+") or not path) else path) + ("?" + query if query else "")
            got = calls[0][2][1] if calls and len(calls[0][2]) > 1 else None
            ck.require(isinstance(got, shape.K) and got.v == want and len(calls) == 1, "C17.4", "%s: target for %s" % (q.fn(frun), label), "%r" % want,
                       "for the URL %s the request target sent is %r; required %r (path plus query unchanged, '/' for an empty path and always "
                       "for unix+ URLs)" % (label, got.v if isinstance(got, shape.K) else got, want), q.loc(frun, frun.node))
            if scheme == "unix+http":
                sp = tr.attrs.get("path")
                ck.require(isinstance(sp, shape.K) and sp.v == path, "C17.4", "%s: socket path for %s" % (q.fn(finit), label), "the URL path %r" % path,
                           "for %s the Unix transport is given the socket path %r, not the URL's path %r" % (label, sp, path), q.loc(finit, finit.node))
    ck.stat("url_cases", n4)
    # the URL is split with urlparse's documented defaults (the stub above stands for exactly that): `allow_fragments=False` leaves
    # "#fragment" in the path or the query, a default scheme changes which URLs are rejected
    ginit_ = cfg_of(finit)
    up_ = [(n, c) for n in ginit_.live_nodes() for c in node_calls(n) if call_name(c) in ("urlparse", "urlsplit")]
    if not up_:
        raise AnalysisError("anchor vanished: urlparse(...) in ServerProxy.__init__")
    for (n, c) in up_:
        def _the_url(a_):
            pu_ = ("param", finit.params[1])
            if a_ == pu_:
                return True
            # a normalising helper of the package that hands a text argument back as it is (bytes decoded, parse results re-assembled)
            if a_[0] == "call" and a_[1][0] == "global" and len(a_[2]) == 1 and a_[2][0] == pu_ and not a_[3]:
                hf_ = prog.funcs.get("jsonrpc." + a_[1][1])
                if hf_ is not None and hf_.params:
                    return any(isinstance(rv_, ast.Name) and rv_.id == hf_.params[0] for (_rn, rv_) in q.return_sources(hf_)) or \
                        any(isinstance(x_, ast.Return) and isinstance(x_.value, ast.Name) and x_.value.id == hf_.params[0] for x_ in ast.walk(hf_.node))
            return False
        okk = len(c.args) == 1 and not c.keywords and all(_the_url(a_) for a_ in prov.value_alts(prov.origin(ginit_, n, c.args[0])))
        ck.require(okk, "C17.4", "%s: `%s`" % (q.fn(finit), dump(c)[:50]), "urlparse(<the URL given>) with default options",
                   "the URL is split by `%s`: with options (allow_fragments=False, a default scheme) or on another text than the URL "
                   "given, the path / query stored as request target are not those of the URL (a '#fragment' stays in the target)" % dump(c)[:60],
                   q.loc(finit, n))
    # ... and the transport hands that target on unchanged, down to the request line
    fsr = prog.func("jsonrpc", "TransportMixIn.send_request")
    fsg = prog.func("jsonrpc", "TransportMixIn.single_request")
    gsr, gsg = cfg_of(fsr), cfg_of(fsg)
    prq = [(n, c) for n in gsr.live_nodes() for c in node_calls(n) if call_name(c) == "putrequest"]
    if not prq:
        raise AnalysisError("anchor vanished: putrequest in TransportMixIn.send_request")
    for (n, c) in prq:
        t = prov.origin(gsr, n, c.args[1]) if len(c.args) > 1 else None
        ck.require(t == ("param", "handler"), "C17.4", "%s: `%s`" % (q.fn(fsr), dump(c)[:50]), "request line carries the handler it was given",
                   "the request target written on the request line is %s, not the handler the transport was given: the URL's path and query do "
                   "not reach the wire unchanged (dot segments, escapes or the query can be rewritten)" % (prov.show(t)[:60] if t else "missing"),
                   q.loc(fsr, n))
    srq = [(n, c) for n in gsg.live_nodes() for c in node_calls(n) if dump(c.func) == "self.send_request"]
    if not srq:
        raise AnalysisError("anchor vanished: self.send_request(...) in single_request")
    for (n, c) in srq:
        t = prov.origin(gsg, n, c.args[1]) if len(c.args) > 1 else (prov.origin(gsg, n, kwarg(c, "handler")) if kwarg(c, "handler") is not None else None)
        ck.require(t == ("param", "handler"), "C17.4", "%s: `%s`" % (q.fn(fsg), dump(c)[:50]), "handler forwarded unchanged",
                   "single_request passes %s to send_request instead of the handler it was given" % (prov.show(t)[:60] if t else "nothing"), q.loc(fsg, n))
    ck.floor("C17.4", 20)
    ck.floor("C17.5", 30)


def _part4(ck, prog):
    # ---- C17.6 each response is reassembled in its own buffer (shared with C19.3) -------------------------------------------
    common.import_rules(ck, c19, {"C19.3": "C17.6"})
    ck.floor("C17.6", 8)


def _part5(ck, prog):
    # ---- C17.7 the declared content type cannot be overridden (shared with C18.4) --------------------------------------------
    common.import_rules(ck, _c18r.rule_readonly_table, {"C18.3": "C17.7"})
    common.import_rules(ck, _c18r, {"C18.3": "C17.7"})      # (the names written on the wire are the filtered ones: no second Content-Length / Content-Type)
    ck.floor("C17.7", 1)


def _part6(ck, prog):
    # ---- C17.8 the configuration reaches every layer (shared with C01.10) --------------------------------------------------------
    common.check_config_forwarding(ck, "C17.8")
    ck.floor("C17.8", 4)


def _part7(ck, prog):
    # ---- C17.9 the request line: one putrequest("POST", <handler>) on every path of send_request -----------------------------------
    fq_ = prog.func("jsonrpc", "TransportMixIn.send_request")
    gq = cfg_of(fq_)
    puts = [(n, c) for n in gq.live_nodes() for c in node_calls(n) if call_name(c) == "putrequest"]
    if not puts:
        raise AnalysisError("anchor vanished: putrequest(...) in %s" % q.fn(fq_))
    put_ids = set(n.id for n, _c in puts)
    normal = lambda l: l != "exc"       # noqa: E731
    rets = [n for n in gq.live_nodes() if n.kind == "return"]
    free = _ra9(gq, gq.entry.id, put_ids, normal)
    skipped = [r for r in rets if r.id in free]
    ck.require(not skipped, "C17.9", "%s: putrequest on every path" % q.fn(fq_), "every normal path to the return passes a putrequest call",
               "a path through send_request returns without calling putrequest: no request line is sent before the headers and the body",
               q.loc(fq_, skipped[0] if skipped and skipped[0].ast is not None else fq_.node))
    for (n, c) in puts:
        again = [m for (m, _c2) in puts if m.id != n.id and m.id in _ra9(gq, n.id, set(), normal)]
        ck.require(not again, "C17.9", "%s: `%s` is the only request line on its path" % (q.fn(fq_), dump(c)[:50]), "one putrequest per path",
                   "a second putrequest follows on the same path", q.loc(fq_, n))
        meth = c.args[0] if c.args else None
        ck.require(isinstance(meth, ast.Constant) and meth.value == "POST", "C17.9", "%s: `%s` method" % (q.fn(fq_), dump(c)[:50]), "POST",
                   "the request method is `%s`: the servers of this library answer POST only" % (dump(meth) if meth is not None else None), q.loc(fq_, n))
        tgt = c.args[1] if len(c.args) > 1 else None
        okt = tgt is not None and all(a == ("param", "handler") for a in prov.alts(prov.origin(gq, n, tgt)))
        ck.require(okt, "C17.9", "%s: `%s` target" % (q.fn(fq_), dump(c)[:50]), "the handler it was given (path + query string, C17.4)",
                   "the request target is `%s`, not the handler passed by the caller" % (dump(tgt) if tgt is not None else None), q.loc(fq_, n))
    ck.floor("C17.9", 6)


def _reach_before_exit(g, start, head):
    """nodes reachable from start (normal edges only)"""
    seen = set()
    stack = [start]
    while stack:
        x = stack.pop()
        if x in seen:
            continue
        seen.add(x)
        for (b, l) in g.succ[x]:
            if l != "exc":
                stack.append(b)
    return seen


def _run_init(ev, finit, mk, cfgo, urlparse_stub):
    """evaluate ServerProxy.__init__ with urlparse stubbed"""
    orig_call = ev.call

    def call(e, env, fi):
        if isinstance(e.func, ast.Name) and e.func.id == "urlparse":
            return urlparse_stub()
        return orig_call(e, env, fi)
    ev.call = call
    return ev.run(finit, {"uri": shape.K("<uri>"), "transport": shape.K(None), "encoding": shape.K(None), "verbose": shape.K(0),
                          "version": shape.K(None), "headers": shape.K(None), "history": shape.K(None), "config": cfgo,
                          "context": shape.K(None)}, mk)
    common.check_config_defaults(ck, "C17.1", ("content_type",))
