"""Closed-world rules W3 - W6 (see rules/closed_world.py): special methods, decorators, serve-loop hooks, long-lived containers
that were added to the package (not in vlib/known_functions.json) and change what the existing code does."""
import ast
import importlib
from vlib.model import AnalysisError, dump
from vlib.cfg import stmt_may_raise
from vlib.inline import known_functions
from vlib import q
from rules.closed_world import (provably_str, _deco_name, _is_memo, KNOWN_DECORATORS, READ_HOOKS, OTHER_IMPLICIT, SERVE_ERROR_HOOKS)

MUTATORS = ("setdefault", "update", "append", "add", "pop", "popitem", "clear", "extend", "insert", "remove", "discard", "sort", "reverse")


def _is_new(prog, module, qual):
    return qual not in known_functions().get(module, set())


def _class_known(module, cname):
    return any(k.startswith(cname + ".") for k in known_functions().get(module, set()))


def _mentions(fi, name):
    return any(isinstance(x, ast.Name) and x.id == name for x in ast.walk(fi.node))


def _class_relevant(ci, sl):
    """the class takes part in the slice: one of its methods is in it, or a slice function names the class, or (configuration
    classes) a slice function handles a configuration object"""
    for fi in sl.values():
        if fi.cls is ci:
            return True
    for fi in sl.values():
        if _mentions(fi, ci.name):
            return True
    if ci.module == "config":
        for fi in sl.values():
            if any("config" in p.lower() for p in fi.params) or any(isinstance(x, ast.Attribute) and "config" in x.attr.lower() for x in ast.walk(fi.node)):
                return True
    return False


def _returns(fn):
    return [r for r in ast.walk(fn) if isinstance(r, ast.Return)]


def _writes_state(fn):
    """stores / mutating calls on self, its fields or module-level names inside a method body -> description or None"""
    # (locals bound only to fresh containers - a display, list(...), a comprehension - are the method's own scratch data)
    fresh = set()
    for x in ast.walk(fn):
        if isinstance(x, ast.Assign) and len(x.targets) == 1 and isinstance(x.targets[0], ast.Name):
            v = x.value
            is_fresh = isinstance(v, (ast.List, ast.Dict, ast.Set, ast.ListComp, ast.DictComp, ast.SetComp)) or \
                (isinstance(v, ast.Call) and isinstance(v.func, ast.Name) and v.func.id in ("list", "dict", "set", "sorted", "tuple"))
            (fresh.add if is_fresh else fresh.discard)(x.targets[0].id)
    for x in ast.walk(fn):
        if isinstance(x, ast.Assign) and len(x.targets) == 1 and isinstance(x.targets[0], ast.Name):
            v = x.value
            if not (isinstance(v, (ast.List, ast.Dict, ast.Set, ast.ListComp, ast.DictComp, ast.SetComp)) or
                    (isinstance(v, ast.Call) and isinstance(v.func, ast.Name) and v.func.id in ("list", "dict", "set", "sorted", "tuple"))):
                fresh.discard(x.targets[0].id)
    params = set(a.arg for a in fn.args.args) if hasattr(fn, "args") else set()
    fresh -= params
    for x in ast.walk(fn):
        if isinstance(x, (ast.Assign, ast.AugAssign)):
            tgts = x.targets if isinstance(x, ast.Assign) else [x.target]
            for t in tgts:
                if isinstance(t, ast.Subscript) and isinstance(t.value, ast.Name) and t.value.id in fresh:
                    continue
                if isinstance(t, (ast.Attribute, ast.Subscript)):
                    return "`%s`" % dump(x)[:60]
        if isinstance(x, ast.Call) and isinstance(x.func, ast.Attribute) and x.func.attr in MUTATORS:
            if isinstance(x.func.value, ast.Name) and x.func.value.id in fresh:
                continue
            return "`%s`" % dump(x)[:60]
        if isinstance(x, ast.Delete):
            return "`%s`" % dump(x)[:60]
    return None


TRUTH_NAMES = {"Config": ("config",), "LocalClasses": ("classes",)}


def _truth_tests(sl, words):
    """[(fi, expr)] truth tests in the slice of expressions whose spelling ends in one of `words` (config, self._config, ...)"""
    out = []

    def named(e):
        t = dump(e).lower()
        last = t.split(".")[-1]
        return isinstance(e, (ast.Name, ast.Attribute)) and any(last.endswith(w) for w in words)
    for fi in sl.values():
        for x in ast.walk(fi.node):
            cands = []
            if isinstance(x, ast.BoolOp):
                cands = x.values[:-1] if isinstance(x.op, ast.Or) else x.values
                cands = list(x.values)
            elif isinstance(x, (ast.If, ast.While, ast.IfExp)):
                cands = [x.test]
            elif isinstance(x, ast.UnaryOp) and isinstance(x.op, ast.Not):
                cands = [x.operand]
            elif isinstance(x, ast.Call) and isinstance(x.func, ast.Name) and x.func.id == "bool" and x.args:
                cands = [x.args[0]]
            for c in cands:
                if named(c):
                    out.append((fi, c, x))
    return out


def _ctor_arg_sites(prog, ci, index=None, attr=None):
    """expressions passed, at every instantiation of the class in the package, for the constructor argument that ends up in
    self.args[index] / self.<attr>; None when the mapping cannot be established"""
    init = ci.methods.get("__init__")
    pos = None
    if init is None:
        if index is None:
            return None
        pos = index
    else:
        params = [p for p in init.params if p != "self"]
        if attr is not None:
            for x in ast.walk(init.node):
                if isinstance(x, ast.Assign) and any(dump(t) == "self." + attr for t in x.targets) and isinstance(x.value, ast.Name) and x.value.id in params:
                    pos = params.index(x.value.id)
        else:
            for x in ast.walk(init.node):
                if isinstance(x, ast.Call) and isinstance(x.func, ast.Attribute) and x.func.attr == "__init__":
                    args = [a for a in x.args if not (isinstance(a, ast.Name) and a.id == "self")]
                    if index < len(args) and isinstance(args[index], ast.Name) and args[index].id in params:
                        pos = params.index(args[index].id)
        if pos is None:
            return None
        pname = params[pos]
    sites = []
    for fi in prog.funcs.values():
        for x in ast.walk(fi.node):
            if isinstance(x, ast.Call) and ((isinstance(x.func, ast.Name) and x.func.id == ci.name) or
                                            (isinstance(x.func, ast.Attribute) and x.func.attr == ci.name)):
                a = x.args[pos] if pos < len(x.args) and not any(isinstance(z, ast.Starred) for z in x.args) else None
                if a is None and init is not None:
                    for k in x.keywords:
                        if k.arg == pname:
                            a = k.value
                if a is not None:
                    sites.append((fi, x, a))
    return sites


def check(ck, sl, errors):
    prog, prop = ck.prog, ck.prop
    n3 = n4 = n5 = 0
    # ---- W3 special methods ---------------------------------------------------------------------------------------------
    rule = prop + ".W3"
    for ci in prog.classes.values():
        new_class = not _class_known(ci.module, ci.name)
        for mname, fi in ci.methods.items():
            if not (mname.startswith("__") and mname.endswith("__")):
                continue
            if not (new_class or _is_new(prog, ci.module, "%s.%s" % (ci.qual, mname))):
                continue
            if mname in ("__init__", "__enter__"):
                continue
            if not _class_relevant(ci, sl):
                continue
            n3 += 1
            con = "%s.%s.%s (added special method)" % (ci.module, ci.qual, mname)
            if mname in ("__len__", "__bool__"):
                words = TRUTH_NAMES.get(ci.name)
                if words is None:
                    errors.append(AnalysisError("%s.%s defines %s: the truthiness of its instances changed and where they are truth-tested is not modelled"
                                        % (ci.module, ci.qual, mname)))
                    continue
                tests = _truth_tests(sl, words)
                if tests:
                    tf, te, tx = tests[0]
                    ck.bad(rule, con, "%s.%s now defines %s, so an instance can be false (an empty one), and `%s` in %s tests such an object for "
                           "truth: an explicitly given, customised %s is then replaced / ignored (the configured names, handlers and classes are "
                           "not the ones consulted)" % (ci.module, ci.qual, mname, dump(tx)[:60], q.fn(tf), ci.name), fi.loc())
                else:
                    ck.ok(rule, con, "no %s object is truth-tested in the slice" % ci.name, fi.loc())
            elif mname == "__exit__":
                bad = [r for r in _returns(fi.node) if r.value is not None and not (isinstance(r.value, ast.Constant) and r.value.value in (None, False))]
                used = [(f2, x) for f2 in sl.values() for x in ast.walk(f2.node) if isinstance(x, ast.With) and
                        any(ci.name in dump(it.context_expr) for it in x.items)]
                if bad and used:
                    ck.bad(rule, con, "%s.%s.__exit__ returns `%s`, which can be true: an exception raised inside `with %s` in %s is then swallowed "
                           "and the statements after the block run as if nothing had failed" % (
                               ci.module, ci.qual, dump(bad[0].value)[:50], dump(used[0][1].items[0].context_expr)[:40], q.fn(used[0][0])), fi.loc(bad[0]))
                else:
                    ck.ok(rule, con, "returns None / False only (exceptions of the block propagate)" if not bad else "not used in the slice", fi.loc())
            elif mname in ("__str__", "__repr__"):
                problems = []
                for r in _returns(fi.node):
                    v = r.value
                    if v is None:
                        problems.append((r, "None", None))
                        continue
                    if provably_str(v):
                        continue
                    try:
                        from rules import common as _cmw
                        from vlib.cfg import cfg_of as _cfgw
                        _gw = _cfgw(fi)
                        _rn = _cmw._node_of(_gw, r)
                        if _rn is not None and _cmw._jkind(prog, fi, _rn, v) == "str":
                            continue        # (a local bound only to string-typed expressions)
                    except AnalysisError:
                        pass
                    sites = None
                    if isinstance(v, ast.Subscript) and dump(v.value) == "self.args" and isinstance(v.slice, ast.Constant) and isinstance(v.slice.value, int):
                        sites = _ctor_arg_sites(prog, ci, index=v.slice.value)
                    elif isinstance(v, ast.Attribute) and dump(v.value) == "self":
                        sites = _ctor_arg_sites(prog, ci, attr=v.attr)
                    if sites is None:
                        problems.append((r, dump(v), None))
                        continue
                    for (sf, sc, sa) in sites:
                        if not provably_str(sa):
                            problems.append((r, dump(v), (sf, sc, sa)))
                if problems:
                    r, txt, site = problems[0]
                    ck.bad(rule, con, "%s.%s.%s returns `%s`, which is not always a string%s: str() / format() of such an object raises "
                           "TypeError - inside the very handlers that format the exception to build an error reply" % (
                               ci.module, ci.qual, mname, txt[:40],
                               (" (`%s` in %s passes `%s`)" % (dump(site[1])[:50], q.fn(site[0]), dump(site[2])[:30])) if site else ""), fi.loc(r))
                else:
                    ck.ok(rule, con, "every return is a string", fi.loc())
            elif mname in READ_HOOKS:
                w = _writes_state(fi.node)
                if w:
                    ck.bad(rule, con, "%s.%s.%s is a read hook (it runs implicitly when the object is only looked at: `x[k]`, `k in x`, `x.a`) "
                           "and it writes (%s): reading a shared object - the server's Config, its class registry - now modifies it, and "
                           "what one request finds depends on what earlier requests looked up" % (ci.module, ci.qual, mname, w), fi.loc())
                else:
                    errors.append(AnalysisError("%s.%s defines the implicit hook %s: expressions on its instances no longer mean what the rules assume"
                                        % (ci.module, ci.qual, mname)))
            elif mname in OTHER_IMPLICIT:
                errors.append(AnalysisError("%s.%s defines the special method %s: expressions on its instances no longer mean what the rules assume"
                                    % (ci.module, ci.qual, mname)))
    ck.ok(rule, "special methods added to classes of the slice", "%d examined" % n3, "")

    # ---- W4 decorators around anchored functions ---------------------------------------------------------------------------
    rule = prop + ".W4"
    for fi in sl.values():
        for d in fi.node.decorator_list:
            nm = _deco_name(d)
            if nm in KNOWN_DECORATORS or nm.endswith(".setter") or nm.endswith(".getter") or _is_memo(d, prog.modules[fi.module]):
                continue
            n4 += 1
            target = prog.funcs.get("%s.%s" % (fi.module, nm))
            if target is None:
                errors.append(AnalysisError("%s is wrapped by the decorator `%s`, which is not defined in its module: what a call of it does is not modelled"
                                    % (q.fn(fi), nm)))
                continue
            inner = [x for x in target.node.body if isinstance(x, ast.FunctionDef)]
            state = {}
            for st in target.node.body:
                if isinstance(st, ast.Assign) and len(st.targets) == 1 and isinstance(st.targets[0], ast.Name):
                    v = st.value
                    if isinstance(v, (ast.Dict, ast.List, ast.Set)) or (isinstance(v, ast.Call) and isinstance(v.func, ast.Name) and
                                                                        v.func.id in ("set", "dict", "list", "defaultdict", "OrderedDict", "deque")) \
                            or (isinstance(v, ast.Call) and dump(v.func).endswith("local")):
                        state[st.targets[0].id] = v
            shared = [nm2 for nm2 in state for w in inner for x in ast.walk(w) if isinstance(x, ast.Name) and x.id == nm2]
            if shared:
                ck.bad(prop + ".W4", "%s: decorator @%s" % (q.fn(fi), nm),
                       "%s is wrapped by @%s, whose wrapper keeps `%s = %s` - created once, when the module is imported - across all calls and "
                       "all threads: two threads running %s at the same time see each other's entries (a spurious error, a result taken "
                       "from another call)" % (q.fn(fi), nm, shared[0], dump(state[shared[0]])[:30], fi.name), fi.loc())
            else:
                errors.append(AnalysisError("%s is wrapped by the package decorator `%s`: what a call of it does is not modelled" % (q.fn(fi), nm)))
    ck.ok(rule, "decorators added around functions of the slice", "%d examined" % n4, "")

    # ---- W5 overrides of serve-loop hooks -----------------------------------------------------------------------------------
    rule = prop + ".W5"
    for ci in prog.classes.values():
        ext = []
        todo, seen_b = [ci], set()
        while todo:
            cur = todo.pop()
            if cur.fq in seen_b:
                continue
            seen_b.add(cur.fq)
            for b in cur.bases:
                if isinstance(b, str) and b in prog.classes:
                    todo.append(prog.classes[b])
                elif isinstance(b, str):
                    ext.append(b[4:] if b.startswith("ext:") else b)
        if not ext:
            continue
        own_in_slice = any(fi.cls is ci for fi in sl.values())
        in_slice = set(fi.cls.fq for fi in sl.values() if fi.cls is not None)
        if not own_in_slice and not any(fq_ != ci.fq and fq_ in in_slice for fq_ in seen_b):
            continue
        std_names = set()
        for b in ext:
            mod, _, cls = b.rpartition(".")
            try:
                std_names |= set(dir(getattr(importlib.import_module(mod), cls)))
            except Exception:
                continue
        # (the methods of the class itself and of its package ancestors: a mix-in listed before the standard-library base shadows it)
        cands = []
        for fq_ in sorted(seen_b):
            ca = prog.classes.get(fq_)
            # (the class's own methods when it has code in the slice; a package ancestor's - a mix-in - when that has)
            if ca is not None and ((ca is ci and own_in_slice) or (ca is not ci and fq_ in in_slice)):
                cands += [(ca, mn_, f_) for (mn_, f_) in ca.methods.items()]
        done5 = getattr(ck, "_w5_done", None)
        if done5 is None:
            done5 = ck._w5_done = set()
        for (ca, mname, fi) in cands:
            if mname.startswith("__") or mname not in std_names:
                continue
            if not _is_new(prog, ca.module, "%s.%s" % (ca.qual, mname)):
                continue
            if (rule, ca.fq, mname) in done5:
                continue
            done5.add((rule, ca.fq, mname))
            n5 += 1
            con = "%s.%s.%s (added override of a standard-library hook)" % (ca.module, ca.qual, mname)
            if _pure_delegation(fi, mname):
                ck.ok(rule, con, "logs lazily and delegates to the base implementation with the same arguments", fi.loc())
                continue
            if mname in SERVE_ERROR_HOOKS:
                risky = [st for st in ast.walk(fi.node) if isinstance(st, ast.stmt) and not isinstance(st, (ast.FunctionDef, ast.If, ast.Try, ast.With, ast.For, ast.While))
                         and st is not fi.node and stmt_may_raise(st) and not _guarded(fi.node, st) and not _is_base_call(st, fi, mname)]
                if risky:
                    ck.bad(rule, con, "%s.%s overrides %s, which the serve loop calls when handling a request has failed; its statement `%s` can "
                           "raise in turn (the arguments are evaluated before the logger sees them), and an exception escaping %s ends "
                           "serve_forever: one failing connection stops the server for everybody" % (
                               ca.module, ca.qual, mname, dump(risky[0])[:70], mname), fi.loc(risky[0]))
                else:
                    ck.ok(rule, con, "cannot raise (lazy logging only)", fi.loc())
            else:
                errors.append(AnalysisError("%s.%s overrides the standard-library method %s: the behaviour of the base class the rules rely on is replaced"
                                    % (ca.module, ca.qual, mname)))
    ck.ok(rule, "standard-library hooks overridden by classes of the slice", "%d examined" % n5, "")


def _base_call_expr(e, fi, mname):
    """super().<mname>(<own parameters, in order>) / super(C, self).<mname>(...) / Base.<mname>(self, ...)"""
    if not (isinstance(e, ast.Call) and isinstance(e.func, ast.Attribute) and e.func.attr == mname):
        return False
    params = [p for p in fi.params if p != "self"]
    recv = e.func.value
    args = list(e.args)
    if isinstance(recv, ast.Call) and isinstance(recv.func, ast.Name) and recv.func.id == "super":
        pass
    elif isinstance(recv, (ast.Name, ast.Attribute)) and args and isinstance(args[0], ast.Name) and args[0].id == "self":
        args = args[1:]
    else:
        return False
    if any(isinstance(a, ast.Starred) for a in args) or any(k.arg is None for k in e.keywords):
        return False
    got = [a.id if isinstance(a, ast.Name) else None for a in args] + [k.value.id if isinstance(k.value, ast.Name) and k.value.id == k.arg else None for k in e.keywords]
    return got == params[:len(got)] and len(got) == len(params)


def _is_base_call(st, fi, mname):
    v = st.value if isinstance(st, (ast.Expr, ast.Return)) else None
    return v is not None and _base_call_expr(v, fi, mname)


def _pure_delegation(fi, mname):
    """docstring, lazy logger calls (possibly under `if <logger>.isEnabledFor(...)`), then the base implementation called with the
    method's own parameters as last statement"""
    from vlib.model import is_logging_call
    body = list(fi.node.body)
    if body and isinstance(body[0], ast.Expr) and isinstance(body[0].value, ast.Constant):
        body = body[1:]
    if not body or not _is_base_call(body[-1], fi, mname):
        return False

    def lazy_log(st):
        if isinstance(st, ast.Expr) and isinstance(st.value, ast.Call) and is_logging_call(st.value):
            return all(isinstance(a, (ast.Name, ast.Constant)) or (isinstance(a, ast.Attribute) and isinstance(a.value, ast.Name) and a.value.id == "self")
                       for a in st.value.args[1:]) and (not st.value.args or isinstance(st.value.args[0], ast.Constant))
        if isinstance(st, ast.If) and not st.orelse and "isEnabledFor" in dump(st.test):
            return all(lazy_log(x) for x in st.body)
        return False
    return all(lazy_log(st) for st in body[:-1])


def _guarded(fn, st):
    """the statement sits in a try whose handlers catch Exception (or everything) and do not re-raise"""
    for t in ast.walk(fn):
        if isinstance(t, ast.Try) and any(st is x for b in t.body for x in ast.walk(b)):
            for h in t.handlers:
                if (h.type is None or dump(h.type) in ("Exception", "BaseException")) and not any(isinstance(x, ast.Raise) for b in h.body for x in ast.walk(b)):
                    return True
    return False


# ---------------------------------------------------------------------------
# W8 a method of a package base class hidden by a standard-library base placed before it
# ---------------------------------------------------------------------------
def _std_defined(dotted):
    """names defined by a standard-library class or its ancestors (object excluded)"""
    mod, _, cls = dotted.rpartition(".")
    try:
        k = getattr(importlib.import_module(mod), cls)
    except Exception:
        return None
    names = set()
    for c in getattr(k, "__mro__", ()):
        if c is object:
            continue
        names |= set(vars(c))
    return names


def check_mro(ck, sl):
    prog, prop = ck.prog, ck.prop
    rule = prop + ".W8"
    n = 0
    for ci in prog.classes.values():
        if not any(fi.cls is ci for fi in sl.values()) and not any(
                fi.cls is not None and ci.fq in _pkg_ancestors(prog, fi.cls) for fi in sl.values()):
            pass
        bases = list(ci.bases)
        if len(bases) < 2:
            continue
        relevant = any(fi.cls is ci or (fi.cls is not None and fi.cls.fq in _pkg_ancestors(prog, ci)) for fi in sl.values())
        if not relevant:
            continue
        own = set(ci.methods)
        ext_seen = set()
        ext_names = []
        pkg_seen = set()
        for b in bases:
            if isinstance(b, str) and b in prog.classes:
                pb = prog.classes[b]
                defined = {}
                for anc in [pb.fq] + _pkg_ancestors(prog, pb):
                    for m, f in prog.classes[anc].methods.items():
                        defined.setdefault(m, f)
                for m, f in sorted(defined.items()):
                    if m in own or m in pkg_seen:
                        continue
                    hidden_by = [e for (e, names) in ext_names if m in names]
                    n += 1
                    ck.require(not hidden_by, rule, "%s.%s: %s.%s reachable through the class" % (ci.module, ci.qual, pb.qual, m),
                               "no earlier standard-library base defines it",
                               "class %s lists the standard-library base %s before %s, and %s defines `%s` too: the method resolution order "
                               "takes the standard-library version, the package's override %s.%s never runs for instances of %s" % (
                                   ci.qual, hidden_by[0] if hidden_by else "", pb.qual, hidden_by[0] if hidden_by else "", m, pb.qual, m, ci.qual),
                               f.loc())
                pkg_seen |= set(defined)
            elif isinstance(b, str):
                dotted = b[4:] if b.startswith("ext:") else b
                names = _std_defined(dotted)
                if names is not None:
                    ext_names.append((dotted, names))
    ck.ok(rule, "package methods inherited next to standard-library bases", "%d examined" % n, "")


def _pkg_ancestors(prog, ci):
    out, todo = [], list(ci.bases)
    while todo:
        b = todo.pop(0)
        if isinstance(b, str) and b in prog.classes and b not in out:
            out.append(b)
            todo.extend(prog.classes[b].bases)
    return out
